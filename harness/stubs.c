/* weak fall-backs so that scenario files can be added one at a time */
#include "core.h"
#define STUB(n) __attribute__((weak)) int n(cmd_t * c) { (void)c; return 0; }
STUB(scen_dstring) STUB(scen_convert) STUB(scen_pool) STUB(scen_meta) STUB(scen_critic) STUB(scen_tree)
STUB(scen_transclude) STUB(scen_opml) STUB(scen_chain) STUB(scen_pairs) STUB(scen_ac) STUB(scen_cost) STUB(scen_threads)
