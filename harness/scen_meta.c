/* Metadata API in its three families (C06, C11), CriticMarkup (C12), OPML/ITMZ import (C14, C01). */
#define _GNU_SOURCE
#include <stdlib.h>
#include <string.h>
#include "core.h"
#include "libMultiMarkdown.h"
#include "d_string.h"
#include "mmd.h"

mmd_engine * harness_engine(int i);
DString * harness_engine_dstr(int i);

static void log_meta(const char * fam, const char * op, const char * src, const char * key, int has, size_t end,
                     const char * res, int hasres, const char * text, size_t textlen, int srcsame) {
	ev_begin("meta");
	ev_str("fam", fam); ev_str("op", op); ev_str("src", src); ev_str("key", key);
	ev_bool("has", has); ev_int("end", (long long)end);
	if (hasres) { if (res) ev_str("res", res); else ev_raw("res", "null"); }
	if (text) ev_bytes("text", text, textlen);
	ev_bool("srcsame", srcsame);
	ev_end();
}

/* meta <fam:s|d|e> <srcid> <op:has|keys|val|upd> [key] [value|~ for NULL] ;  e_meta <eid> <op> [key] [value] */
int scen_meta(cmd_t * c) {
	const char * n = c->name; arg_t * a = c->argv;
	if (!strcmp(n, "meta")) {
		const char * fam = a[0].s; srcbuf * sb = src_get(a[1].s); if (!sb) return 0;
		const char * op = a[2].s; const char * key = a[3].s;
		const char * val = (a[4].n == 1 && a[4].s[0] == '~') ? NULL : a[4].s;
		char * copy = malloc(sb->n + 1); memcpy(copy, sb->s, sb->n + 1);
		DString * ds = NULL; mmd_engine * e = NULL;
		if (fam[0] != 's') ds = d_string_new(copy);
		if (fam[0] == 'e') e = mmd_engine_create_with_dstring(ds, 0);
		size_t end = 0; int has = 0; char * res = NULL; int hasres = 0; const char * text = NULL; size_t textlen = 0; char * newtext = NULL;
		if (!strcmp(op, "has")) {
			has = fam[0] == 's' ? mmd_string_has_metadata(copy, &end) : fam[0] == 'd' ? mmd_d_string_has_metadata(ds, &end) : mmd_engine_has_metadata(e, &end);
		} else if (!strcmp(op, "keys")) {
			res = fam[0] == 's' ? mmd_string_metadata_keys(copy) : fam[0] == 'd' ? mmd_d_string_metadata_keys(ds) : mmd_engine_metadata_keys(e); hasres = 1;
		} else if (!strcmp(op, "val")) {
			res = fam[0] == 's' ? mmd_string_metavalue_for_key(copy, key) : fam[0] == 'd' ? mmd_d_string_metavalue_for_key(ds, key) : mmd_engine_metavalue_for_key(e, key); hasres = 1;
		} else if (!strcmp(op, "upd")) {
			if (fam[0] == 's') { newtext = mmd_string_update_metavalue_for_key(copy, key, val); text = newtext; textlen = newtext ? strlen(newtext) : 0; }
			else if (fam[0] == 'd') { mmd_d_string_update_metavalue_for_key(ds, key, val); text = ds->str; textlen = ds->currentStringLength; }
			else { mmd_engine_update_metavalue_for_key(e, key, val); text = ds->str; textlen = ds->currentStringLength; }
		} else return 0;
		int srcsame = fam[0] == 's' ? !memcmp(copy, sb->s, sb->n + 1) : (!strcmp(op, "upd") ? 1 : (ds->currentStringLength == sb->n && !memcmp(ds->str, sb->s, sb->n + 1)));
		log_meta(fam, op, a[1].s, key, has, end, res, hasres, text, textlen, srcsame);
		/* an update result becomes source "<srcid>'" so that histories can continue from it */
		if (text && a[5].n) src_set(a[5].s, text, textlen);
		/* mmd_engine_metavalue_for_key returns memory owned by the engine ("does not need to be freed") */
		if (hasres && res && !(fam[0] == 'e' && !strcmp(op, "val"))) free(res);
		free(newtext);
		if (e) mmd_engine_free(e, false);
		if (ds) d_string_free(ds, true);
		free(copy);
		return 1;
	}
	if (!strcmp(n, "e_meta")) {
		int i = (int)arg_long(&a[0]); mmd_engine * e = harness_engine(i); DString * ds = harness_engine_dstr(i); if (!e) return 0;
		const char * op = a[1].s; const char * key = a[2].s;
		const char * val = (a[3].n == 1 && a[3].s[0] == '~') ? NULL : a[3].s;
		size_t end = 0; int has = 0; char * res = NULL; int hasres = 0; const char * text = NULL; size_t textlen = 0;
		if (!strcmp(op, "has")) has = mmd_engine_has_metadata(e, &end);
		else if (!strcmp(op, "keys")) { res = mmd_engine_metadata_keys(e); hasres = 1; }
		else if (!strcmp(op, "val")) { res = mmd_engine_metavalue_for_key(e, key); hasres = 1; }
		else if (!strcmp(op, "upd")) { mmd_engine_update_metavalue_for_key(e, key, val); text = ds->str; textlen = ds->currentStringLength; }
		else return 0;
		log_meta("e_reuse", op, "", key, has, end, res, hasres, text, textlen, 1);
		if (strcmp(op, "val")) free(res);
		return 1;
	}
	return 0;
}

/* critic <acc|rej> <srcid> [start len] */
int scen_critic(cmd_t * c) {
	const char * n = c->name; arg_t * a = c->argv;
	if (strcmp(n, "critic")) return 0;
	srcbuf * sb = src_get(a[1].s); if (!sb) return 0;
	DString * d = d_string_new(sb->s);
	int acc = !strcmp(a[0].s, "acc");
	int ranged = a[2].n > 0;
	if (ranged) {
		if (acc) mmd_critic_markup_accept_range(d, arg_size(&a[2]), arg_size(&a[3])); else mmd_critic_markup_reject_range(d, arg_size(&a[2]), arg_size(&a[3]));
	} else {
		if (acc) mmd_critic_markup_accept(d); else mmd_critic_markup_reject(d);
	}
	ev_begin("critic"); ev_str("op", a[0].s); ev_str("src", a[1].s); ev_bool("ranged", ranged);
	ev_bytes("text", d->str, d->currentStringLength); ev_int("len", (long long)d->currentStringLength); ev_int("strlen", (long long)strlen(d->str));
	ev_end();
	if (a[4].n) src_set(a[4].s, d->str, d->currentStringLength);
	d_string_free(d, true);
	return 1;
}

/* opml2text <fam:s|d|e> <srcid> [opml|itmz] [dst srcid] */
int scen_opml(cmd_t * c) {
	const char * n = c->name; arg_t * a = c->argv;
	if (strcmp(n, "opml2text")) return 0;
	srcbuf * sb = src_get(a[1].s); if (!sb) return 0;
	int itmz = !strcmp(a[2].s, "itmz");
	char * copy = malloc(sb->n + 1); memcpy(copy, sb->s, sb->n + 1);
	DString * ds = NULL, * res = NULL; mmd_engine * e = NULL;
	/* every letter of the family word is one call: "dd" / "ee" / "de" call again on the SAME DString / engine (what a call leaves behind must not matter) */
	int needds = 0; for (const char * f = a[0].s; *f; f++) if (*f != 's') needds = 1;
	if (needds) { ds = d_string_new(""); d_string_append_c_array(ds, sb->s, sb->n); }          /* (binary-safe: an ITMZ source is a ZIP archive) */
	for (const char * f = a[0].s; *f; f++) {
		char fam = *f; char famw[2] = { fam, 0 };
		if (fam == 'e' && !e) e = mmd_engine_create_with_dstring(ds, 0);
		if (fam == 's') res = itmz ? mmd_string_convert_itmz_to_text(copy) : mmd_string_convert_opml_to_text(copy);
		else if (fam == 'd') res = itmz ? mmd_d_string_convert_itmz_to_text(ds) : mmd_d_string_convert_opml_to_text(ds);
		else res = itmz ? mmd_engine_convert_itmz_to_text(e) : mmd_engine_convert_opml_to_text(e);
		int srcsame = (fam == 's') ? !memcmp(copy, sb->s, sb->n + 1) : (ds->currentStringLength == sb->n && !memcmp(ds->str, sb->s, sb->n) && ds->str[sb->n] == 0);
		ev_begin("import"); ev_str("fam", famw); ev_str("src", a[1].s); ev_bool("null", res == NULL); ev_bool("srcsame", srcsame);
		if (res) {
			ev_bytes("text", res->str, res->currentStringLength); ev_int("len", (long long)res->currentStringLength); ev_int("cap", (long long)res->currentStringBufferSize);
			ev_int("strlen", (long long)strlen(res->str));
		}
		ev_end();
		if (res && a[3].n && !f[1]) src_set(a[3].s, res->str, res->currentStringLength);
		if (res) {
			/* the returned DString must be a usable DString (C19 meets C01): append within its recorded capacity */
			size_t room = res->currentStringBufferSize - res->currentStringLength;
			for (size_t i = 0; i + 1 < room && i < 70000; i++) d_string_append_c(res, 'x');
			d_string_free(res, true); res = NULL;
		}
	}
	if (e) mmd_engine_free(e, false);
	if (ds) d_string_free(ds, true);
	free(copy);
	return 1;
}
