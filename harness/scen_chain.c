/* C15, primitive level: apply token.c surgery primitives to real tokens and dump the pointer graph by model ids. */
#include <stdlib.h>
#include <string.h>
#include "core.h"
#include "token.h"

#define MAXN 16
static token * node[MAXN + 1];
static int nnode = 0;

static int id_of(token * t) { if (!t) return 0; for (int i = 1; i <= nnode; i++) if (node[i] == t) return i; return -1; }
/* give the next free model id to a token the last call created */
static void adopt(token * t) {
	if (!t || id_of(t) != -1) return;
	for (int i = 1; i <= nnode; i++) if (!node[i]) { node[i] = t; return; }     /* the model hands out the smallest free id */
	if (nnode < MAXN) node[++nnode] = t;
}

static token * N(arg_t * a) { long i = arg_long(a); return (i >= 1 && i <= nnode) ? node[i] : NULL; }

static void dump(const char * op) {
	char b[4096]; size_t o = 0;
	b[o++] = '[';
	for (int i = 1; i <= nnode; i++) {
		token * t = node[i];
		if (!t) { o += (size_t)snprintf(b + o, sizeof b - o, "%s[0,0,0,0,0,0,0,0]", i > 1 ? "," : ""); continue; }
		o += (size_t)snprintf(b + o, sizeof b - o, "%s[%u,%zu,%zu,%d,%d,%d,%d,%d]", i > 1 ? "," : "", t->type, t->start, t->len, id_of(t->next), id_of(t->prev), id_of(t->child), id_of(t->tail), id_of(t->mate));
	}
	b[o++] = ']'; b[o] = 0;
	ev_begin("chain"); ev_str("op", op); ev_int("n", nnode); ev_raw("nodes", b); ev_end();
}

int scen_chain(cmd_t * c) {
	const char * n = c->name; arg_t * a = c->argv;
	if (strncmp(n, "tk_", 3)) return 0;
	n += 3;
	if (!strcmp(n, "reset")) { nnode = 0; ev_begin("reset"); ev_str("tag", "chain"); ev_end(); return 1; }
	if (!strcmp(n, "new")) { adopt(token_new((unsigned short)arg_long(&a[0]), arg_size(&a[1]), arg_size(&a[2]))); }
	else if (!strcmp(n, "append_child")) { token_append_child(N(&a[0]), N(&a[1])); }
	else if (!strcmp(n, "remove_first_child")) { token * p = N(&a[0]), * d = p ? p->child : NULL; token_remove_first_child(p); if (d) { int i = id_of(d); if (i > 0) node[i] = NULL; } }
	else if (!strcmp(n, "remove_last_child")) { token * p = N(&a[0]), * d = (p && p->child) ? p->child->tail : NULL; token_remove_last_child(p); if (d) { int i = id_of(d); if (i > 0) node[i] = NULL; } }
	else if (!strcmp(n, "pop_link")) { token_pop_link_from_chain(N(&a[0])); }
	else if (!strcmp(n, "prune")) {
		token * f = N(&a[0]), * l = N(&a[1]);
		/* ids of first..last and of everything below them, collected before the call (afterwards the memory may be gone) */
		token * gone[MAXN * 4]; int ng = 0;
		for (token * w = f; w && ng < MAXN; w = w->next) { gone[ng++] = w; if (w == l) break; }
		token * below[MAXN]; int nb = 0;
		for (int i = 0; i < ng; i++) if (gone[i]->child) below[nb++] = gone[i]->child;
		int ids[MAXN + 1] = {0};
		for (int i = 0; i < ng; i++) { int k = id_of(gone[i]); if (k > 0) ids[k] = 1; }
		/* subtrees: mark by a bounded walk */
		for (int i = 0; i < nb; i++) { token * stack[MAXN * 4]; int sp = 0; stack[sp++] = below[i]; int fuel = 8 * MAXN;
			while (sp && fuel--) { token * w = stack[--sp]; while (w && fuel--) { int k = id_of(w); if (k > 0) ids[k] = 1; if (w->child && sp < MAXN * 4) stack[sp++] = w->child; w = w->next; } } }
		tokens_prune(f, l);
		for (int k = 1; k <= nnode; k++) if (ids[k]) node[k] = NULL;
	}
	else if (!strcmp(n, "prune_graft")) { token * f = token_prune_graft(N(&a[0]), N(&a[1]), (unsigned short)arg_long(&a[2])); if (f) adopt(f->child); }
	else if (!strcmp(n, "split")) {
		token * t = N(&a[0]);
		token_split(t, arg_size(&a[1]), arg_size(&a[2]), (unsigned short)arg_long(&a[3]));
		if (t) { adopt(t->next); if (t->next) adopt(t->next->next); }      /* tokens created by the call, in creation order */
	}
	else if (!strcmp(n, "new_parent")) { adopt(token_new_parent(N(&a[0]), (unsigned short)arg_long(&a[1]))); }
	else if (!strcmp(n, "mate")) { token * x = N(&a[0]), * y = N(&a[1]); if (x && y) { x->mate = y; y->mate = x; } }
	else return 0;
	dump(n);
	return 1;
}

/* ---- pairing engine (TokenPairs.tla): `pairs <spec>` with spec = ty:len:adj:co:cc;... ------------------------------------------- */
#include "token_pairs.h"
#include "mmd.h"
#include "stack.h"
#include "d_string.h"

static int idx_of_start(const size_t * starts, int n, size_t s) { for (int i = 0; i < n; i++) if (starts[i] == s) return i + 1; return -1; }

static unsigned char g_pairtypes[256];
static int is_pair_type(unsigned short ty) { return ty < 256 && g_pairtypes[ty]; }
static void pairs_dfs(token * t, int depth, const size_t * starts, int n, int * mate, int * dep, DString * conts) {
	for (; t; t = t->next) {
		if (t->child && idx_of_start(starts, n, t->start) > 0 && is_pair_type(t->type)) {
			int a = idx_of_start(starts, n, t->start);
			/* the container spans opener .. closer: the closer is the token that ends where the container ends */
			int b = -1;
			for (int i = 0; i < n; i++) if (starts[i] < t->start + t->len) b = i + 1;
			d_string_append_printf(conts, "%s[%d,%d,%d]", conts->currentStringLength > 1 ? "," : "", a, b, (int)t->type);
			pairs_dfs(t->child, depth + 1, starts, n, mate, dep, conts);
		} else {
			int i = idx_of_start(starts, n, t->start);
			if (i > 0) { dep[i - 1] = depth; mate[i - 1] = t->mate ? idx_of_start(starts, n, t->mate->start) : 0; }
		}
	}
}

static void table_json(token_pair_engine * e, DString * out) {
	d_string_append(out, "[");
	int first = 1;
	for (int o = 0; o < kMaxTokenTypes; o++) for (int c = 0; c < kMaxTokenTypes; c++) {
		unsigned short p = e->pair_type[o][c];
		if (!p) continue;
		int opt = (e->empty_allowed[p] ? 1 : 0) | (e->match_len[p] ? 2 : 0) | (e->should_prune[p] ? 4 : 0);
		d_string_append_printf(out, "%s[%d,%d,%d,%d]", first ? "" : ",", o, c, (int)p, opt); first = 0;
	}
	d_string_append(out, "]");
}

/* pairtables <ext>: the four pairing tables of a real engine created with these extensions */
static int scen_pairtables(cmd_t * c) {
	mmd_engine * e = mmd_engine_create_with_string("x", (unsigned long)arg_long(&c->argv[0]));
	token_pair_engine * tabs[4] = { e->pairings1, e->pairings2, e->pairings3, e->pairings4 };
	ev_begin("pairtables"); ev_int("ext", arg_long(&c->argv[0]));
	for (int i = 0; i < 4; i++) { DString * d = d_string_new(""); table_json(tabs[i], d); char k[8]; snprintf(k, sizeof k, "t%d", i + 1); ev_raw(k, d->str); d_string_free(d, true); }
	ev_end();
	mmd_engine_free(e, true);
	return 1;
}

/* pairs <chain> [<table> | real:<ext>:<n>]: chain = ty:len:adj:co:cc;...   table = o:c:p:opt;... (registered in this order; default: the synthetic table of TokenPairs.tla) */
int scen_pairs(cmd_t * c) {
	if (!strcmp(c->name, "pairtables")) return scen_pairtables(c);
	if (strcmp(c->name, "pairs")) return 0;
	const char * spec = c->argv[0].s;
	const char * tab = (c->argc > 1 && c->argv[1].s && c->argv[1].s[0] && strcmp(c->argv[1].s, "-")) ? c->argv[1].s : "11:12:21:5;11:13:22:4;14:14:23:6;15:15:24:0;";
	int n = 0; for (const char * q = spec; *q; q++) if (*q == ';') n++;
	size_t * starts = calloc((size_t)n + 1, sizeof(size_t)); int * mate = calloc((size_t)n + 1, sizeof(int)); int * dep = calloc((size_t)n + 1, sizeof(int));
	mmd_engine * real = NULL;
	token_pair_engine * e = NULL;
	if (!strncmp(tab, "real:", 5)) {
		long ext = 0; int which = 3; sscanf(tab + 5, "%ld:%d", &ext, &which);
		real = mmd_engine_create_with_string("x", (unsigned long)ext);
		e = which == 1 ? real->pairings1 : which == 2 ? real->pairings2 : which == 4 ? real->pairings4 : real->pairings3;
	} else {
		e = token_pair_engine_new();
		for (const char * q = tab; *q;) {
			int o, cl, p, opt;
			if (sscanf(q, "%d:%d:%d:%d", &o, &cl, &p, &opt) != 4) break;
			token_pair_engine_add_pairing(e, (unsigned short)o, (unsigned short)cl, (unsigned short)p, opt);
			while (*q && *q != ';') q++;
			if (*q) q++;
		}
	}
	token * parent = token_new(0, 0, 0), * first = NULL;
	size_t pos = 0; int k = 0; const char * q = spec;
	while (*q && k < n) {
		int ty, len, adj, co, cc;
		if (sscanf(q, "%d:%d:%d:%d:%d", &ty, &len, &adj, &co, &cc) != 5) break;
		token * t = token_new((unsigned short)ty, pos, (size_t)len);
		t->can_open = co; t->can_close = cc; t->unmatched = 1;
		starts[k++] = pos; pos += (size_t)len + (adj ? 0 : 1);
		if (first) token_chain_append(first, t); else first = t;
		while (*q && *q != ';') q++;
		if (*q) q++;
	}
	parent->child = first; parent->len = pos;
	memset(g_pairtypes, 0, sizeof g_pairtypes);
	for (int o = 0; o < kMaxTokenTypes; o++) for (int cl = 0; cl < kMaxTokenTypes; cl++) if (e->pair_type[o][cl] && e->pair_type[o][cl] < 256) g_pairtypes[e->pair_type[o][cl]] = 1;
	stack * s = stack_new(0);
	token_pairs_match_pairs_inside_token(parent, e, s, 0);
	for (int i = 0; i < n; i++) { mate[i] = -2; dep[i] = -2; }
	DString * conts = d_string_new("[");
	pairs_dfs(parent->child, 0, starts, n, mate, dep, conts);
	d_string_append(conts, "]");
	DString * m = d_string_new("["), * d = d_string_new("[");
	for (int i = 0; i < n; i++) { d_string_append_printf(m, "%s%d", i ? "," : "", mate[i]); d_string_append_printf(d, "%s%d", i ? "," : "", dep[i]); }
	d_string_append(m, "]"); d_string_append(d, "]");
	ev_begin("pairs"); ev_int("n", n); ev_int("stack", (long)s->size); ev_raw("mate", m->str); ev_raw("depth", d->str); ev_raw("conts", conts->str);
	{ DString * tj = d_string_new(""); table_json(e, tj); ev_raw("table", tj->str); d_string_free(tj, true); }
	ev_end();
	d_string_free(m, true); d_string_free(d, true); d_string_free(conts, true);
	stack_free(s); if (real) mmd_engine_free(real, true); else token_pair_engine_free(e); token_tree_free(parent);
	free(starts); free(mate); free(dep);
	return 1;
}

/* ---- aho-corasick.c (AhoCorasick.tla): ac <keys separated by ,> <text> <start> <len> ------------------------------------------------ */
#include "aho-corasick.h"

static void matches_json(match * m, DString * out) {
	d_string_append(out, "[");
	int first = 1;
	if (m) m = m->next;       /* skip the header */
	for (; m; m = m->next) { d_string_append_printf(out, "%s[%lu,%lu,%d]", first ? "" : ",", (unsigned long)m->start, (unsigned long)m->len, (int)m->match_type); first = 0; }
	d_string_append(out, "]");
}

int scen_ac(cmd_t * c) {
	if (strcmp(c->name, "ac")) return 0;
	char * keys = strdup(c->argv[0].s ? c->argv[0].s : "");
	const char * text = c->argv[1].s ? c->argv[1].s : "";
	size_t start = arg_size(&c->argv[2]), len = arg_size(&c->argv[3]);
	trie * a = trie_new(0);
	int n = 0;
	for (char * k = strtok(keys, ","); k; k = strtok(NULL, ",")) trie_insert(a, k, (unsigned short)++n);
	ac_trie_prepare(a);
	match * all = ac_trie_search(a, text, start, len);
	match * sel = ac_trie_leftmost_longest_search(a, text, start, len);
	DString * ja = d_string_new(""), * js = d_string_new("");
	matches_json(all, ja); matches_json(sel, js);
	ev_begin("ac"); ev_int("nkeys", n); ev_int("nodes", (long)a->size); ev_raw("all", ja->str); ev_raw("sel", js->str); ev_end();
	d_string_free(ja, true); d_string_free(js, true);
	match_free(all); match_free(sel); trie_free(a); free(keys);
	return 1;
}
