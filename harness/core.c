/* Replay harness core.  usage: mmdreplay <script> <trace.ndjson> [timeout_s]
 *
 * Script: one command per line, TAB separated; an argument is `-` (empty), `=<hex>` (bytes) or a plain word.
 * Trace : one JSON object per line, written after the call returned (sequential library: the
 *         linearization point is the public call's return).  A sanitizer abort, a fatal signal, a call to
 *         exit() from inside the library or a watchdog expiry still leaves a complete last line
 *         ({"e":"aborted"...} / {"e":"exit"...} / {"e":"timeout"...}).
 */
#define _GNU_SOURCE
#include <ctype.h>
#include <errno.h>
#include <fcntl.h>
#include <signal.h>
#include <stdlib.h>
#include <string.h>
#include <unistd.h>
#include <sys/mman.h>

#include "core.h"

static int    out_fd = -1;
static char   ebuf[1 << 22];
static size_t elen = 0;
static int    efirst = 1;
static long   cur_line = 0;
static const char * cur_cmd = "";
static jmp_buf exit_jmp;
static int    exit_armed = 0;
static int    err_fd = -1;
static char   errbuf[65536];
static size_t errlen = 0;
static int    g_timeout = 20;

long g_wrap_alloc_count = 0, g_wrap_rng_count = 0, g_wrap_rand_count = 0, g_wrap_srand_count = 0;
int  g_log_allocs = 0;

static void out_write(const char * p, size_t n) {
	/* a defect that makes a command loop must not fill the disk: after 2 GiB of events the process gives up (the driver sees a dead shard) */
	static unsigned long long total = 0;
	total += n;
	if (total > (2ULL << 30)) _exit(98);
	while (n > 0) {
		ssize_t w = write(out_fd, p, n);
		if (w < 0) { if (errno == EINTR) continue; return; }
		p += w; n -= (size_t)w;
	}
}

static void eput(const char * s, size_t n) {
	if (elen + n >= sizeof(ebuf)) { out_write(ebuf, elen); elen = 0; }
	if (n >= sizeof(ebuf)) { out_write(s, n); return; }
	memcpy(ebuf + elen, s, n); elen += n;
}
static void eputs(const char * s) { eput(s, strlen(s)); }

static void ekey(const char * k) {
	if (!efirst) eputs(",");
	efirst = 0;
	eputs("\""); eputs(k); eputs("\":");
}

void ev_begin(const char * name) {
	elen = 0; efirst = 1;
	eputs("{");
	ev_str("e", name);
	ev_int("line", cur_line);
}
void ev_int(const char * k, long long v) { char b[32]; ekey(k); snprintf(b, sizeof b, "%lld", v); eputs(b); }
void ev_bool(const char * k, int v) { ekey(k); eputs(v ? "true" : "false"); }
void ev_raw(const char * k, const char * json) { ekey(k); eputs(json); }
void ev_bytes(const char * k, const char * s, size_t n) {
	ekey(k);
	if (s == NULL) { eputs("null"); return; }
	eputs("\"");
	char b[8];
	for (size_t i = 0; i < n; i++) {
		unsigned char c = (unsigned char)s[i];
		if (c == '"') eputs("\\\"");
		else if (c == '\\') eputs("\\\\");
		else if (c == '\n') eputs("\\n");
		else if (c == '\t') eputs("\\t");
		else if (c < 0x20 || c >= 0x7f) { snprintf(b, sizeof b, "\\u%04x", c); eputs(b); }
		else eput((const char *)&s[i], 1);
	}
	eputs("\"");
}
void ev_str(const char * k, const char * s) { ev_bytes(k, s, s ? strlen(s) : 0); }
uint64_t fnv1a(const char * s, size_t n) {
	uint64_t h = 1469598103934665603ULL;
	for (size_t i = 0; i < n; i++) { h ^= (unsigned char)s[i]; h *= 1099511628211ULL; }
	return h;
}
void ev_digest(const char * k, const char * s, size_t n) {
	char b[40];
	if (s == NULL) { ekey(k); eputs("\"NULL\""); return; }
	snprintf(b, sizeof b, "\"%016llx\"", (unsigned long long)fnv1a(s, n));
	ekey(k); eputs(b);
}
void ev_end(void) { eputs("}\n"); out_write(ebuf, elen); elen = 0; }

size_t arg_size(const arg_t * a) {
	if (a->n == 1 && a->s[0] == 'M') return (size_t)-1;
	return (size_t)strtoull(a->s, NULL, 10);
}
long arg_long(const arg_t * a) { return strtol(a->s, NULL, 10); }

/* ---- named sources ---- */
#define MAXSRC 4096
static struct { char id[24]; srcbuf b; } srcs[MAXSRC];
static int nsrcs = 0;
srcbuf * src_get(const char * id) {
	for (int i = 0; i < nsrcs; i++) if (!strcmp(srcs[i].id, id)) return &srcs[i].b;
	return NULL;
}
void src_set(const char * id, const char * s, size_t n) {
	srcbuf * b = src_get(id);
	if (!b) {
		if (nsrcs >= MAXSRC) { /* recycle */ for (int i = 0; i < nsrcs; i++) free(srcs[i].b.s); nsrcs = 0; }
		snprintf(srcs[nsrcs].id, sizeof srcs[nsrcs].id, "%s", id);
		b = &srcs[nsrcs++].b; b->s = NULL;
	}
	free(b->s);
	b->s = malloc(n + 1); memcpy(b->s, s, n); b->s[n] = 0; b->n = n;
}

/* ---- stderr capture ---- */
static void err_reset(void) { if (err_fd >= 0) { ftruncate(err_fd, 0); lseek(err_fd, 0, SEEK_SET); } errlen = 0; }
static void err_collect(void) {
	errlen = 0;
	if (err_fd < 0) return;
	fflush(stderr);
	off_t sz = lseek(err_fd, 0, SEEK_CUR);
	if (sz <= 0) return;
	if ((size_t)sz > sizeof(errbuf) - 1) sz = sizeof(errbuf) - 1;
	ssize_t r = pread(err_fd, errbuf, (size_t)sz, 0);
	if (r > 0) errlen = (size_t)r;
	errbuf[errlen] = 0;
}
const char * captured_stderr(size_t * n) { err_collect(); if (n) *n = errlen; return errbuf; }

/* ---- abnormal endings ---- */
static void final_event(const char * kind, int code) {
	/* async-signal-safe enough: formats into a local buffer and write()s */
	char b[256];
	int n = snprintf(b, sizeof b, "{\"e\":\"%s\",\"line\":%ld,\"cmd\":\"%s\",\"code\":%d}\n", kind, cur_line, cur_cmd, code);
	if (n > 0) out_write(b, (size_t)n);
}
static void on_signal(int sig) {
	if (sig == SIGALRM) { final_event("timeout", sig); _exit(71); }
	final_event("aborted", sig);
	_exit(70);
}
static void on_san_death(void) { final_event("aborted", -1); }
extern void __sanitizer_set_death_callback(void (*)(void)) __attribute__((weak));

void __real_exit(int) __attribute__((noreturn));
void __wrap_exit(int code) {
	if (exit_armed) {
		exit_armed = 0;
		ev_begin("exit"); ev_str("cmd", cur_cmd); ev_int("code", code); ev_end();
		longjmp(exit_jmp, 1);
	}
	__real_exit(code);
}

/* ---- interposed internals ---- */
#if !defined(VARIANT_NOPOOL) && !defined(VARIANT_TSAN)
#include "object_pool.h"
void * __real_pool_allocate_object(pool * p);
static pool * g_pool = NULL;
void pool_state(long * slabs, long * next) {
	*slabs = -1; *next = -1;
	if (!g_pool) return;
	*slabs = (long)g_pool->allocated->size;
	if (g_pool->next == NULL) { *next = -1; return; }
	char * slab = *slabs > 0 ? (char *)g_pool->allocated->element[*slabs - 1] : NULL;
	*next = slab ? (long)(((char *)g_pool->next - slab) / g_pool->object_size) : -2;
}
void pool_forget(void) { g_pool = NULL; }
void * __wrap_pool_allocate_object(pool * p) {
	g_pool = p;
	void * a = __real_pool_allocate_object(p);
	g_wrap_alloc_count++;
	if (g_log_allocs) {
		/* slot index inside the newest slab, number of slabs */
		long slabs = (long)p->allocated->size;
		char * slab = slabs > 0 ? (char *)p->allocated->element[slabs - 1] : NULL;
		long slot = (a && slab) ? (long)(((char *)a - slab) / p->object_size) : -1;
		ev_begin("alloc"); ev_int("slabs", slabs); ev_int("slot", slot); ev_bool("null", a == NULL); ev_end();
	}
	return a;
}
#else
void pool_state(long * slabs, long * next) { *slabs = -1; *next = -1; }
void pool_forget(void) {}
#endif
#ifndef VARIANT_TSAN      /* no interposed counters in the threaded build: they would be shared mutable state of the harness's own */
unsigned long __real_ran_num_next(void);
unsigned long __wrap_ran_num_next(void) { g_wrap_rng_count++; return __real_ran_num_next(); }
int __real_rand(void);
int __wrap_rand(void) { g_wrap_rand_count++; return __real_rand(); }
void __real_srand(unsigned);
void __wrap_srand(unsigned s) { g_wrap_srand_count++; __real_srand(s); }
#endif

/* ---- script ---- */
static int hexv(int c) { return isdigit(c) ? c - '0' : (tolower(c) - 'a' + 10); }

static int parse_line(char * line, cmd_t * c) {
	size_t L = strlen(line);
	while (L > 0 && (line[L - 1] == '\n' || line[L - 1] == '\r')) line[--L] = 0;
	if (L == 0 || line[0] == '#') return 0;
	int k = 0;
	char * p = line;
	c->argc = 0;
	while (p) {
		char * tab = strchr(p, '\t');
		if (tab) *tab = 0;
		if (k == 0) c->name = p;
		else if (c->argc < MAXARGS) {
			arg_t * a = &c->argv[c->argc++];
			if (p[0] == '-' && p[1] == 0) { a->s = p; a->s[0] = 0; a->n = 0; }
			else if (p[0] == '=') {
				size_t n = strlen(p + 1) / 2;
				for (size_t i = 0; i < n; i++) p[i] = (char)(hexv(p[1 + 2 * i]) * 16 + hexv(p[2 + 2 * i]));
				p[n] = 0; a->s = p; a->n = n;
			} else { a->s = p; a->n = strlen(p); }
		}
		k++;
		p = tab ? tab + 1 : NULL;
	}
	for (int i = c->argc; i < MAXARGS; i++) { c->argv[i].s = (char *)""; c->argv[i].n = 0; }
	return 1;
}

static int dispatch(cmd_t * c) {
	if (!strcmp(c->name, "src")) { src_set(c->argv[0].s, c->argv[1].s, c->argv[1].n); return 1; }
	if (!strcmp(c->name, "reset")) { ev_begin("reset"); ev_str("tag", c->argv[0].s); ev_end(); return 1; }
	if (!strcmp(c->name, "logallocs")) { g_log_allocs = (int)arg_long(&c->argv[0]); return 1; }
	if (!strcmp(c->name, "timeout")) { g_timeout = (int)arg_long(&c->argv[0]); return 1; }
	return scen_dstring(c) || scen_pool(c) || scen_convert(c) || scen_meta(c) || scen_critic(c) || scen_tree(c)
	       || scen_transclude(c) || scen_opml(c) || scen_chain(c) || scen_pairs(c) || scen_ac(c) || scen_cost(c) || scen_threads(c);
}

int main(int argc, char ** argv) {
	if (argc < 3) { fprintf(stderr, "usage: %s script trace [timeout]\n", argv[0]); return 2; }
	FILE * in = fopen(argv[1], "r");
	if (!in) { perror(argv[1]); return 2; }
	out_fd = open(argv[2], O_WRONLY | O_CREAT | O_TRUNC, 0644);
	if (out_fd < 0) { perror(argv[2]); return 2; }
	if (argc > 3) g_timeout = atoi(argv[3]);

	if (__sanitizer_set_death_callback) __sanitizer_set_death_callback(on_san_death);
	else {
		/* fatal signals are reported from an alternate stack, so that stack exhaustion still leaves its event */
		static char altstack[1 << 16];
		stack_t ss = { .ss_sp = altstack, .ss_size = sizeof altstack, .ss_flags = 0 };
		sigaltstack(&ss, NULL);
		struct sigaction sa; memset(&sa, 0, sizeof sa); sa.sa_handler = on_signal; sa.sa_flags = SA_ONSTACK;
		sigaction(SIGSEGV, &sa, NULL); sigaction(SIGBUS, &sa, NULL); sigaction(SIGABRT, &sa, NULL); sigaction(SIGFPE, &sa, NULL); sigaction(SIGILL, &sa, NULL);
	}
	signal(SIGALRM, on_signal);

	if (!getenv("VERIF_KEEP_STDERR")) {
		err_fd = memfd_create("stderr", 0);
		if (err_fd >= 0) { fflush(stderr); dup2(err_fd, 2); }
	}

	char * line = NULL; size_t cap = 0; ssize_t n;
	cmd_t c;
	while ((n = getline(&line, &cap, in)) >= 0) {
		cur_line++;
		c.lineno = cur_line;
		if (!parse_line(line, &c)) continue;
		cur_cmd = c.name;
		err_reset();
		if (g_timeout > 0) alarm((unsigned)g_timeout);
		if (setjmp(exit_jmp) == 0) {
			exit_armed = 1;
			if (!dispatch(&c)) { ev_begin("badcmd"); ev_str("cmd", c.name); ev_end(); }
		}
		exit_armed = 0;
		alarm(0);
	}
	ev_begin("done"); ev_end();
	close(out_fd);
	_exit(0);   /* skip leak checking of deliberately leaked state of aborted commands */
}
