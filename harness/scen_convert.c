/* Conversions through every entry-point family, pool protocol, reusable engines (C01 C02 C05 C06 C18 ...). */
#define _GNU_SOURCE
#include <stdlib.h>
#include <string.h>
#include <unistd.h>
#include "core.h"
#include "libMultiMarkdown.h"
#include "d_string.h"
#include "mmd.h"
#include "token.h"

static int g_wantout = 0;
/* lemon's own trace seam (ParseTrace) -- only compiled into the parser when NDEBUG is off (variant "trace") */
static FILE * g_lemon = NULL; static char * g_lemon_buf = NULL; static size_t g_lemon_len = 0;
#ifdef VARIANT_TRACE
void ParseTrace(FILE * stream, char * zPrefix);
#endif
static void lemon_field(void) {
	if (!g_lemon) return;
	fflush(g_lemon);
	ev_bytes("lemon", g_lemon_buf, g_lemon_len);
	rewind(g_lemon); g_lemon_len = 0; fflush(g_lemon);
}
static void lemon_reset(void) { if (g_lemon) { fflush(g_lemon); rewind(g_lemon); } }
static int pool_count = 0;           /* harness-side count of outstanding token_pool_init() */
static int pool_exists = 0;

#define MAXENG 16
static struct { int used; mmd_engine * e; DString * d; char src[24]; unsigned long ext; short lang; } eng[MAXENG];

#if defined(VARIANT_NOPOOL) || defined(VARIANT_TSAN)
static void p_init(void) {}
static void p_drain(void) {}
static void p_free(void) {}
#else
static void p_init(void) { token_pool_init(); }
static void p_drain(void) { token_pool_drain(); }
static void p_free(void) { token_pool_free(); }
#endif

static void diag_field(void) {
	size_t n; const char * e = captured_stderr(&n);
	char buf[512]; buf[0] = 0;
	strcat(buf, "[");
	int first = 1;
	const char * kinds[][2] = { {"Unknown token type", "unknown_token"}, {"Parser failed", "parser_failed"}, {"Parser syntax error", "syntax_error"},
		{"Error adding", "zip_error"}, {"Error finalizing", "zip_error"}, {"Unable to store", "asset_missing"}, {"invalid substring", "dstring_range"},
		{"ERROR: Attempted to drain", "pool_misuse"}, {"Out of memory", "oom"}, {NULL, NULL} };
	for (int i = 0; kinds[i][0]; i++) {
		if (n && memmem(e, n, kinds[i][0], strlen(kinds[i][0]))) {
			if (!strstr(buf, kinds[i][1])) { if (!first) strcat(buf, ","); strcat(buf, "\""); strcat(buf, kinds[i][1]); strcat(buf, "\""); first = 0; }
		}
	}
	strcat(buf, "]");
	ev_raw("diag", buf);
	ev_int("errlen", (long long)n);
	if (g_lemon && n) ev_bytes("stderr", e, n);          /* with the trace seam on: parsers that write their trace to stderr themselves (OPML / ITMZ import) */
}

static char * read_file(const char * path, size_t * n) {
	FILE * f = fopen(path, "rb");
	if (!f) { *n = 0; return NULL; }
	fseek(f, 0, SEEK_END); long sz = ftell(f); fseek(f, 0, SEEK_SET);
	char * b = malloc((size_t)sz + 1);
	*n = fread(b, 1, (size_t)sz, f); b[*n] = 0; fclose(f);
	return b;
}

static void pool_fields(void) {
	long s, nx; pool_state(&s, &nx);
	ev_int("pslabs", s); ev_int("pnext", nx);
}

static void counters_reset(void) { g_wrap_alloc_count = g_wrap_rng_count = g_wrap_rand_count = g_wrap_srand_count = 0; }

static void log_conv(const char * fam, const char * srcid, long fmt, unsigned long ext, long lang,
                     const char * out, size_t outlen, int isnull, int srcsame, int wrote) {
	ev_begin("conv");
	ev_str("fam", fam); ev_str("src", srcid); ev_int("fmt", fmt); ev_int("ext", (long long)ext); ev_int("lang", lang);
	ev_bool("null", isnull); ev_int("len", (long long)outlen); ev_digest("digest", out, outlen);
	ev_bool("srcsame", srcsame); ev_bool("wrote", wrote);
	ev_int("rng", g_wrap_rng_count); ev_int("rand", g_wrap_rand_count); ev_int("srand", g_wrap_srand_count); ev_int("allocs", g_wrap_alloc_count);
	diag_field();
	pool_fields();
	lemon_field();
	if (g_wantout && out) ev_bytes("out", out, outlen);
	ev_end();
}

static int a0free(cmd_t * c) { return !strcmp(c->argv[0].s, "nopool") || !strcmp(c->argv[1].s, "free"); }

int scen_pool(cmd_t * c) {
	const char * n = c->name;
	if (!strcmp(n, "pinit")) { p_init(); pool_count++; pool_exists = 1; ev_begin("pool"); ev_str("op", "init"); ev_int("count", pool_count); pool_fields(); ev_end(); return 1; }
	if (!strcmp(n, "pdrain")) { p_drain(); pool_count--; ev_begin("pool"); ev_str("op", "drain"); ev_int("count", pool_count); pool_fields(); ev_end(); return 1; }
	if (!strcmp(n, "pfree")) { p_free(); if (pool_count == 0) { pool_exists = 0; pool_forget(); } ev_begin("pool"); ev_str("op", "free"); ev_int("count", pool_count); diag_field(); ev_end(); return 1; }
	if (!strcmp(n, "seg")) {
		/* standard start of an independent execution: release engines, give the pool a fresh epoch */
		for (int i = 0; i < MAXENG; i++) if (eng[i].used) { mmd_engine_free(eng[i].e, false); d_string_free(eng[i].d, true); eng[i].used = 0; }
		while (pool_count > 0) { p_drain(); pool_count--; }
		if (pool_exists && a0free(c)) { p_free(); pool_exists = 0; pool_forget(); }
		if (!strcmp(c->argv[0].s, "nopool")) { ev_begin("reset"); ev_str("tag", c->argv[0].s); ev_end(); return 1; }
		p_init(); pool_count = 1; pool_exists = 1;
		ev_begin("reset"); ev_str("tag", c->argv[0].s); ev_end();
		return 1;
	}
	return 0;
}

int scen_convert(cmd_t * c) {
	const char * n = c->name;
	arg_t * a = c->argv;
	if (!strcmp(n, "wantout")) { g_wantout = (int)arg_long(&a[0]); return 1; }
	if (!strcmp(n, "ptrace")) {
#ifdef VARIANT_TRACE
		if (arg_long(&a[0])) { if (!g_lemon) g_lemon = open_memstream(&g_lemon_buf, &g_lemon_len); ParseTrace(g_lemon, ""); }
		else { ParseTrace(NULL, ""); }
#endif
		return 1;
	}
	if (!strcmp(n, "conv")) {
		const char * fam = a[0].s;
		srcbuf * sb = src_get(a[1].s);
		if (!sb) return 0;
		long fmt = arg_long(&a[2]); unsigned long ext = strtoul(a[3].s, NULL, 10); long lang = arg_long(&a[4]);
		const char * dir = a[5].n ? a[5].s : NULL;
		const char * path = a[6].n ? a[6].s : NULL;
		char * copy = malloc(sb->n + 1); memcpy(copy, sb->s, sb->n + 1);   /* the caller's buffer */
		char * out = NULL; size_t outlen = 0; int isnull = 0, wrote = 0, srcsame = 1;
		DString * ds = NULL, * res = NULL;
		counters_reset(); lemon_reset();
		if (!strcmp(fam, "s_conv")) {
			out = mmd_string_convert(copy, ext, (short)fmt, (short)lang);
			if (out) outlen = strlen(out); else isnull = 1;
			srcsame = !memcmp(copy, sb->s, sb->n + 1);
		} else if (!strcmp(fam, "d_conv")) {
			ds = d_string_new(copy);
			out = mmd_d_string_convert(ds, ext, (short)fmt, (short)lang);
			if (out) outlen = strlen(out); else isnull = 1;
			srcsame = (ds->currentStringLength == sb->n) && !memcmp(ds->str, sb->s, sb->n + 1);
		} else if (!strcmp(fam, "e_conv")) {
			ds = d_string_new(copy);
			mmd_engine * e = mmd_engine_create_with_dstring(ds, ext);
			mmd_engine_set_language(e, (short)lang);
			out = mmd_engine_convert(e, (short)fmt);
			if (out) outlen = strlen(out); else isnull = 1;
			srcsame = (ds->currentStringLength == sb->n) && !memcmp(ds->str, sb->s, sb->n + 1);
			mmd_engine_free(e, false);
		} else if (!strcmp(fam, "s_data")) {
			res = mmd_string_convert_to_data(copy, ext, (short)fmt, (short)lang, dir);
			srcsame = !memcmp(copy, sb->s, sb->n + 1);
		} else if (!strcmp(fam, "d_data")) {
			ds = d_string_new(copy);
			res = mmd_d_string_convert_to_data(ds, ext, (short)fmt, (short)lang, dir);
			srcsame = (ds->currentStringLength == sb->n) && !memcmp(ds->str, sb->s, sb->n + 1);
		} else if (!strcmp(fam, "e_data")) {
			ds = d_string_new(copy);
			mmd_engine * e = mmd_engine_create_with_dstring(ds, ext);
			mmd_engine_set_language(e, (short)lang);
			res = mmd_engine_convert_to_data(e, (short)fmt, dir);
			srcsame = (ds->currentStringLength == sb->n) && !memcmp(ds->str, sb->s, sb->n + 1);
			mmd_engine_free(e, false);
		} else if (!strcmp(fam, "s_file") || !strcmp(fam, "d_file") || !strcmp(fam, "e_file")) {
			if (!path) return 0;
			unlink(path);
			if (fam[0] == 's') {
				mmd_string_convert_to_file(copy, ext, (short)fmt, (short)lang, dir, path);
				srcsame = !memcmp(copy, sb->s, sb->n + 1);
			} else if (fam[0] == 'd') {
				ds = d_string_new(copy);
				mmd_d_string_convert_to_file(ds, ext, (short)fmt, (short)lang, dir, path);
				srcsame = (ds->currentStringLength == sb->n) && !memcmp(ds->str, sb->s, sb->n + 1);
			} else {
				ds = d_string_new(copy);
				mmd_engine * e = mmd_engine_create_with_dstring(ds, ext);
				mmd_engine_set_language(e, (short)lang);
				mmd_engine_convert_to_file(e, (short)fmt, dir, path);
				srcsame = (ds->currentStringLength == sb->n) && !memcmp(ds->str, sb->s, sb->n + 1);
				mmd_engine_free(e, false);
			}
			out = read_file(path, &outlen);
			wrote = out != NULL; isnull = out == NULL;
			unlink(path);
		} else return 0;
		if (res) { out = res->str; outlen = res->currentStringLength; }
		else if (!out) isnull = 1;
		log_conv(fam, a[1].s, fmt, ext, lang, out, outlen, isnull, srcsame, wrote);
		if (res) d_string_free(res, true); else free(out);
		if (ds) d_string_free(ds, true);
		free(copy);
		return 1;
	}
	/* ---- reusable engine objects ---- */
	if (!strcmp(n, "e_new")) {
		int i = (int)arg_long(&a[0]) % MAXENG; srcbuf * sb = src_get(a[1].s); if (!sb) return 0;
		if (eng[i].used) { mmd_engine_free(eng[i].e, false); d_string_free(eng[i].d, true); }
		eng[i].d = d_string_new(sb->s);
		eng[i].ext = strtoul(a[2].s, NULL, 10); eng[i].lang = (short)arg_long(&a[3]);
		eng[i].e = mmd_engine_create_with_dstring(eng[i].d, eng[i].ext);
		mmd_engine_set_language(eng[i].e, eng[i].lang);
		snprintf(eng[i].src, sizeof eng[i].src, "%s", a[1].s);
		eng[i].used = 1;
		ev_begin("eng"); ev_str("op", "new"); ev_int("eid", i); ev_str("src", a[1].s); ev_end();
		return 1;
	}
	if (!strcmp(n, "e_lang")) {
		/* the language of a live engine is changed between conversions */
		int i = (int)arg_long(&a[0]) % MAXENG; if (!eng[i].used) return 0;
		eng[i].lang = (short)arg_long(&a[1]);
		mmd_engine_set_language(eng[i].e, eng[i].lang);
		ev_begin("eng"); ev_str("op", "lang"); ev_int("eid", i); ev_int("lang", eng[i].lang); ev_end();
		return 1;
	}
	if (!strcmp(n, "e_opml2text")) {
		/* the outline held by a live engine is turned into text (the engine keeps its source and its options): e_opml2text <eid> [itmz] */
		int i = (int)arg_long(&a[0]) % MAXENG; if (!eng[i].used) return 0;
		DString * r = (a[1].n && !strcmp(a[1].s, "itmz")) ? mmd_engine_convert_itmz_to_text(eng[i].e) : mmd_engine_convert_opml_to_text(eng[i].e);
		ev_begin("eng"); ev_str("op", "opml2text"); ev_int("eid", i); ev_bool("null", r == NULL); if (r) ev_digest("digest", r->str, r->currentStringLength); ev_end();
		if (r) d_string_free(r, true);
		return 1;
	}
	if (!strcmp(n, "e_settext")) {
		int i = (int)arg_long(&a[0]) % MAXENG; srcbuf * sb = src_get(a[1].s); if (!sb || !eng[i].used) return 0;
		d_string_erase(eng[i].d, 0, (size_t)-1);
		d_string_append_c_array(eng[i].d, sb->s, sb->n);
		snprintf(eng[i].src, sizeof eng[i].src, "%s", a[1].s);
		ev_begin("eng"); ev_str("op", "settext"); ev_int("eid", i); ev_str("src", a[1].s); ev_end();
		return 1;
	}
	if (!strcmp(n, "e_conv") || !strcmp(n, "e_parse") || !strcmp(n, "e_export") || !strcmp(n, "e_data")) {
		int i = (int)arg_long(&a[0]) % MAXENG; if (!eng[i].used) return 0;
		long fmt = arg_long(&a[1]);
		srcbuf * sb = src_get(eng[i].src);
		counters_reset();
		if (!strcmp(n, "e_parse")) {
			mmd_engine_parse_string(eng[i].e);
			ev_begin("eng"); ev_str("op", "parse"); ev_int("eid", i); ev_str("src", eng[i].src); ev_int("allocs", g_wrap_alloc_count); diag_field(); pool_fields(); ev_end();
			return 1;
		}
		char * out = NULL; size_t outlen = 0; DString * res = NULL;
		const char * fam = "e_reuse";
		if (!strcmp(n, "e_conv")) { out = mmd_engine_convert(eng[i].e, (short)fmt); if (out) outlen = strlen(out); }
		else if (!strcmp(n, "e_data")) { res = mmd_engine_convert_to_data(eng[i].e, (short)fmt, NULL); fam = "e_reuse_data"; }
		else { res = d_string_new(""); mmd_engine_export_token_tree(res, eng[i].e, (short)fmt); d_string_append_c(res, '\n'); fam = "e_export"; }
		if (res) { out = res->str; outlen = res->currentStringLength; }
		int srcsame = sb && (eng[i].d->currentStringLength == sb->n) && !memcmp(eng[i].d->str, sb->s, sb->n + 1);
		log_conv(fam, eng[i].src, fmt, eng[i].ext, eng[i].lang, out, outlen, out == NULL, srcsame, 0);
		if (res) d_string_free(res, true); else free(out);
		return 1;
	}
	if (!strcmp(n, "e_free")) {
		int i = (int)arg_long(&a[0]) % MAXENG; if (!eng[i].used) return 0;
		mmd_engine_free(eng[i].e, false); d_string_free(eng[i].d, true); eng[i].used = 0;
		ev_begin("eng"); ev_str("op", "free"); ev_int("eid", i); ev_end();
		return 1;
	}
	return 0;
}

mmd_engine * harness_engine(int i) { return eng[i % MAXENG].used ? eng[i % MAXENG].e : NULL; }
DString * harness_engine_dstr(int i) { return eng[i % MAXENG].used ? eng[i % MAXENG].d : NULL; }
