/* Replay harness core: script reader, ndjson event writer, crash/exit/timeout capture. */
#ifndef VERIF_CORE_H
#define VERIF_CORE_H
#include <stddef.h>
#include <stdint.h>
#include <stdio.h>
#include <setjmp.h>

#define MAXARGS 16

typedef struct {
	char  *  s;      /* decoded bytes (NUL terminated for convenience) */
	size_t   n;
} arg_t;

typedef struct {
	const char * name;
	int          argc;
	arg_t        argv[MAXARGS];
	long         lineno;
} cmd_t;

/* event writer */
void ev_begin(const char * name);
void ev_int(const char * k, long long v);
void ev_bool(const char * k, int v);
void ev_str(const char * k, const char * s);                 /* NUL terminated */
void ev_bytes(const char * k, const char * s, size_t n);     /* arbitrary bytes, latin-1 escaped */
void ev_digest(const char * k, const char * s, size_t n);    /* fnv1a-64 hex */
void ev_raw(const char * k, const char * json);              /* pre-formatted json value */
void ev_end(void);

uint64_t fnv1a(const char * s, size_t n);
size_t   arg_size(const arg_t * a);   /* decimal, or "M" = (size_t)-1 */
long     arg_long(const arg_t * a);

/* stderr captured during the current command (valid until next command) */
const char * captured_stderr(size_t * n);

/* scenario dispatchers: return 1 if handled */
int scen_dstring(cmd_t * c);
int scen_convert(cmd_t * c);
int scen_pool(cmd_t * c);
int scen_meta(cmd_t * c);
int scen_critic(cmd_t * c);
int scen_tree(cmd_t * c);
int scen_transclude(cmd_t * c);
int scen_opml(cmd_t * c);
int scen_chain(cmd_t * c);
int scen_pairs(cmd_t * c);
int scen_ac(cmd_t * c);
int scen_cost(cmd_t * c);
int scen_threads(cmd_t * c);

/* named source buffers */
typedef struct { char * s; size_t n; } srcbuf;
srcbuf * src_get(const char * id);
void     src_set(const char * id, const char * s, size_t n);

void pool_state(long * slabs, long * next);   /* slabs on the pool, object offset of pool.next in the newest slab (-1: NULL) */
void pool_forget(void);
extern long g_wrap_alloc_count;      /* pool_allocate_object calls since last reset */
extern long g_wrap_rng_count;        /* ran_num_next calls */
extern long g_wrap_rand_count;       /* rand() calls */
extern long g_wrap_srand_count;      /* srand() calls */
extern int  g_log_allocs;            /* emit an event per pool allocation */
extern int  g_quiet_tree;

#endif
