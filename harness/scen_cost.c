/* C07: recursion depth, stack extent and executed-basic-block counts of a conversion (variant "plain":
 * library compiled with -finstrument-functions -fsanitize-coverage=trace-pc-guard, no sanitizer red zones). */
#define _GNU_SOURCE
#include <pthread.h>
#include <signal.h>
#include <stdlib.h>
#include <string.h>
#include <stdint.h>
#include "core.h"
#include "libMultiMarkdown.h"
#include "d_string.h"
#include "critic_markup.h"

#define NI __attribute__((no_instrument_function))

static volatile long cur_depth = 0, max_depth = 0;
static volatile uintptr_t stack_lo = (uintptr_t) -1, stack_hi = 0;
static volatile unsigned long long blocks = 0;
static volatile int measuring = 0;

/* frames of one function that are active at the same time: a walker that carries a depth guard never has more than the guard's limit */
#define FT 8192
static struct { void * fn; long cur, max; } ft[FT];
static NI int ft_slot(void * fn) {
	size_t h = (size_t)((((uintptr_t)fn) >> 3) * 2654435761u) % FT;
	while (ft[h].fn && ft[h].fn != fn) h = (h + 1) % FT;
	ft[h].fn = fn;
	return (int)h;
}

NI void __cyg_profile_func_enter(void * fn, void * site) {
	(void)site;
	if (!measuring) return;
	int fs = ft_slot(fn);
	if (++ft[fs].cur > ft[fs].max) ft[fs].max = ft[fs].cur;
	cur_depth++;
	if (cur_depth > max_depth) max_depth = cur_depth;
	uintptr_t sp = (uintptr_t) __builtin_frame_address(0);
	if (sp < stack_lo) stack_lo = sp;
	if (sp > stack_hi) stack_hi = sp;
}
NI void __cyg_profile_func_exit(void * fn, void * site) { (void)site; if (measuring) { cur_depth--; ft[ft_slot(fn)].cur--; } }
NI void __sanitizer_cov_trace_pc_guard_init(uint32_t * start, uint32_t * stop) { for (uint32_t * x = start; x < stop; x++) *x = 1; }
NI void __sanitizer_cov_trace_pc_guard(uint32_t * guard) { (void)guard; if (measuring) blocks++; }

typedef struct { const char * src; unsigned long ext; short fmt; char * out; } job_t;
static NI void * worker(void * p) {
	job_t * j = p;
	static char alt[1 << 16];
	stack_t ss = { .ss_sp = alt, .ss_size = sizeof alt, .ss_flags = 0 };
	sigaltstack(&ss, NULL);          /* so that exhausting this thread's stack is reported, not silent */
	if (j->fmt >= 100) {
		/* format 101 / 102: the CriticMarkup accept / reject pass on the text (what the command line does for -a / -r before anything is parsed) */
		DString * d = d_string_new(j->src);
		measuring = 1;
		if (j->fmt == 101) mmd_critic_markup_accept(d); else mmd_critic_markup_reject(d);
		measuring = 0;
		j->out = d->str; d_string_free(d, false);
		return NULL;
	}
	if (j->fmt == FORMAT_EPUB || j->fmt == FORMAT_ODT || j->fmt == FORMAT_ITMZ || j->fmt == FORMAT_TEXTBUNDLE_COMPRESSED) {
		/* packaged formats: the package documents (navigation, manifest, map) are only written by the data entry point */
		measuring = 1;
		DString * r = mmd_string_convert_to_data(j->src, j->ext, j->fmt, 0, NULL);
		measuring = 0;
		j->out = r ? strdup("package") : NULL;
		if (r) d_string_free(r, true);
		return NULL;
	}
	measuring = 1;
	j->out = mmd_string_convert(j->src, j->ext, j->fmt, 0);
	measuring = 0;
	return NULL;
}

/* cost <srcid> <fmt> <ext> [stack_kib] */
int scen_cost(cmd_t * c) {
	if (strcmp(c->name, "cost")) return 0;
	arg_t * a = c->argv;
	srcbuf * sb = src_get(a[0].s); if (!sb) return 0;
	job_t j = { sb->s, strtoul(a[2].s, NULL, 10), (short)arg_long(&a[1]), NULL };
	size_t stack = (a[3].n ? (size_t)arg_long(&a[3]) : 8192) * 1024;
	cur_depth = 0; max_depth = 0; stack_lo = (uintptr_t) -1; stack_hi = 0; blocks = 0;
	memset(ft, 0, sizeof ft);
	pthread_attr_t at; pthread_attr_init(&at); pthread_attr_setstacksize(&at, stack);
	pthread_t th;
	if (pthread_create(&th, &at, worker, &j)) return 0;
	pthread_join(th, NULL);
	ev_begin("cost"); ev_str("src", a[0].s); ev_int("fmt", j.fmt); ev_int("srclen", (long long)sb->n);
	ev_int("blocks", (long long)blocks); ev_int("kblocks", (long long)(blocks / 1000)); ev_int("maxdepth", max_depth);
	ev_int("stackkib", (long long)(stack_hi > stack_lo ? (stack_hi - stack_lo) / 1024 : 0)); ev_int("limitkib", (long long)(stack / 1024));
	ev_bool("null", j.out == NULL); ev_int("len", j.out ? (long long)strlen(j.out) : 0);
	{
		/* functions with more than 1500 frames active at once, as offsets from mmd_string_convert (resolved against the symbol table by the caller) */
		static char buf[4096]; size_t o = 0; int first = 1;
		buf[o++] = '[';
		for (int i = 0; i < FT && o + 64 < sizeof buf; i++) if (ft[i].fn && ft[i].max > 1500) {
			o += (size_t)snprintf(buf + o, sizeof buf - o, "%s[%lld,%ld]", first ? "" : ",", (long long)((intptr_t)ft[i].fn - (intptr_t)&mmd_string_convert), ft[i].max);
			first = 0;
		}
		buf[o++] = ']'; buf[o] = 0;
		ev_raw("deep", buf);
	}
	ev_end();
	free(j.out);
	return 1;
}
