/* Token-tree observation: walking (C18 inspect) and dumping (C15) the tree an engine exposes. */
#include <stdlib.h>
#include <string.h>
#include "core.h"
#include "libMultiMarkdown.h"
#include "mmd.h"
#include "token.h"

mmd_engine * harness_engine(int i);
DString * harness_engine_dstr(int i);

static uint64_t walk(token * t, long * n, int depth) {
	uint64_t h = 1469598103934665603ULL;
	while (t) {
		(*n)++;
		h = (h ^ t->type) * 1099511628211ULL; h = (h ^ t->start) * 1099511628211ULL; h = (h ^ t->len) * 1099511628211ULL;
		h ^= (uint64_t)(t->mate != NULL) + 2 * (uint64_t)(t->prev != NULL) + 4 * (uint64_t)(t->tail != NULL);
		if (t->child && depth < 5000) h = (h * 31) ^ walk(t->child, n, depth + 1);
		t = t->next;
	}
	return h;
}

int scen_tree(cmd_t * c) {
	const char * n = c->name; arg_t * a = c->argv;
	if (!strcmp(n, "e_inspect")) {
		mmd_engine * e = harness_engine((int)arg_long(&a[0])); if (!e) return 0;
		long cnt = 0; uint64_t h = walk(mmd_engine_root(e), &cnt, 0);
		char b[32]; snprintf(b, sizeof b, "\"%016llx\"", (unsigned long long)h);
		ev_begin("inspect"); ev_int("eid", arg_long(&a[0])); ev_int("tokens", cnt); ev_raw("sum", b); ev_end();
		return 1;
	}
	return 0;
}
