/* Token-tree observation: walking (C18 inspect) and dumping (C15) the tree an engine exposes. */
#include <stdlib.h>
#include <string.h>
#include "core.h"
#include "libMultiMarkdown.h"
#include "d_string.h"
#include "mmd.h"
#include "token.h"

mmd_engine * harness_engine(int i);
DString * harness_engine_dstr(int i);

static long g_dirty = 0;      /* tokens whose writer-owned fields (out_start, out_len) are not zero */
static uint64_t walk(token * t, long * n, int depth) {
	uint64_t h = 1469598103934665603ULL;
	while (t) {
		(*n)++;
		if (t->out_start != 0 || t->out_len != 0) g_dirty++;
		h = (h ^ t->type) * 1099511628211ULL; h = (h ^ t->start) * 1099511628211ULL; h = (h ^ t->len) * 1099511628211ULL;
		h ^= (uint64_t)(t->mate != NULL) + 2 * (uint64_t)(t->prev != NULL) + 4 * (uint64_t)(t->tail != NULL);
		if (t->child && depth < 5000) h = (h * 31) ^ walk(t->child, n, depth + 1);
		t = t->next;
	}
	return h;
}

int scen_tree_dump(cmd_t * c);
int scen_tree(cmd_t * c) {
	const char * n = c->name; arg_t * a = c->argv;
	if (scen_tree_dump(c)) return 1;
	if (!strcmp(n, "e_inspect")) {
		mmd_engine * e = harness_engine((int)arg_long(&a[0])); if (!e) return 0;
		long cnt = 0; g_dirty = 0; uint64_t h = walk(mmd_engine_root(e), &cnt, 0);
		char b[32]; snprintf(b, sizeof b, "\"%016llx\"", (unsigned long long)h);
		ev_begin("inspect"); ev_int("eid", arg_long(&a[0])); ev_int("tokens", cnt); ev_int("dirty", g_dirty); ev_raw("sum", b); ev_end();
		return 1;
	}
	return 0;
}

/* ---- tree dump for TreeInv (C15): every pointer field as a node id (preorder), 0 = NULL, -1 = points outside the tree ---- */
typedef struct { token ** keys; int * vals; size_t cap, n; } pmap;
static void pm_init(pmap * m, size_t cap) { m->cap = cap; m->n = 0; m->keys = calloc(cap, sizeof(token *)); m->vals = calloc(cap, sizeof(int)); }
static size_t pm_slot(pmap * m, token * k) { size_t h = ((size_t)k >> 4) * 11400714819323198485ULL; h %= m->cap; while (m->keys[h] && m->keys[h] != k) h = (h + 1) % m->cap; return h; }
static int pm_get(pmap * m, token * k) { if (!k) return 0; size_t s = pm_slot(m, k); return m->keys[s] ? m->vals[s] : -1; }
static void pm_grow(pmap * m) {
	pmap b; pm_init(&b, m->cap * 2);
	for (size_t i = 0; i < m->cap; i++) if (m->keys[i]) { size_t s = pm_slot(&b, m->keys[i]); b.keys[s] = m->keys[i]; b.vals[s] = m->vals[i]; b.n++; }
	free(m->keys); free(m->vals); *m = b;
}
static int pm_put(pmap * m, token * k, int v) { if (m->n * 2 >= m->cap) pm_grow(m); size_t s = pm_slot(m, k); if (m->keys[s]) return 0; m->keys[s] = k; m->vals[s] = v; m->n++; return 1; }

static token ** order = NULL; static size_t norder = 0, caporder = 0;
static int shared = 0;   /* a node reached twice: not a tree (cycle or sharing) */
static void assign(pmap * m, token * t, int depth) {
	/* iterative over siblings, recursive over children (depth is bounded by the parser's own recursion guards) */
	while (t) {
		if (!pm_put(m, t, (int)norder + 1)) { shared = 1; return; }
		if (norder == caporder) { caporder = caporder ? caporder * 2 : 1024; order = realloc(order, caporder * sizeof(token *)); }
		order[norder++] = t;
		if (norder > 3000000) { shared = 1; return; }
		if (t->child && depth < 20000) assign(m, t->child, depth + 1);
		t = t->next;
	}
}

/* TLC's integers have 32 bits (and its JSON reader wraps silently): an offset or length beyond 10^9 is reported as 10^9 -- far outside any source either way */
#define CLAMP31(v) ((size_t)((v) > (size_t)1000000000 ? (size_t)1000000000 : (v)))
static void dump_tree(const char * when, token * root, size_t srclen, long base, long span) {
	pmap m; pm_init(&m, 4096); norder = 0; shared = 0;
	if (root) { pm_put(&m, root, 1); order = realloc(order, (caporder = caporder ? caporder : 1024) * sizeof(token *)); order[norder++] = root; if (root->child) assign(&m, root->child, 1); }
	ev_begin("tree"); ev_str("when", when); ev_int("srclen", (long long)srclen); ev_int("base", base); ev_int("span", span);
	ev_bool("shared", shared); ev_int("n", (long long)norder);
	/* nodes: [type,start,len,next,prev,child,mate] ; only emitted in full when asked (TLC evaluates TreeOK on them) */
	size_t need = norder * 80 + 16; char * b = malloc(need); size_t o = 0;
	b[o++] = '[';
	for (size_t i = 0; i < norder; i++) {
		token * t = order[i];
		o += (size_t)snprintf(b + o, need - o, "%s[%u,%zu,%zu,%d,%d,%d,%d]", i ? "," : "", t->type, CLAMP31(t->start), CLAMP31(t->len),
		                      (i == 0) ? 0 : pm_get(&m, t->next), (i == 0) ? 0 : pm_get(&m, t->prev), pm_get(&m, t->child), pm_get(&m, t->mate));
	}
	b[o++] = ']'; b[o] = 0;
	ev_raw("nodes", b);
	ev_end();
	free(b); free(m.keys); free(m.vals);
}

int scen_tree_dump(cmd_t * c) {
	const char * n = c->name; arg_t * a = c->argv;
	if (!strcmp(n, "e_tree")) {          /* e_tree <eid> <when> */
		mmd_engine * e = harness_engine((int)arg_long(&a[0])); if (!e) return 0;
		DString * d = harness_engine_dstr((int)arg_long(&a[0]));
		dump_tree(a[1].s, mmd_engine_root(e), d->currentStringLength, 0, (long)d->currentStringLength);
		return 1;
	}
	if (!strcmp(n, "e_subtree")) {       /* e_subtree <eid> <start> <len> : mmd_engine_parse_substring */
		mmd_engine * e = harness_engine((int)arg_long(&a[0])); if (!e) return 0;
		DString * d = harness_engine_dstr((int)arg_long(&a[0]));
		size_t st = arg_size(&a[1]), ln = arg_size(&a[2]);
		token * t = mmd_engine_parse_substring(e, st, ln);
		dump_tree("substring", t, d->currentStringLength, (long)st, (long)ln);
		return 1;
	}
	return 0;
}
