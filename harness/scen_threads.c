/* C17: T threads, each converting its own queue of documents (own engine per conversion), pool disabled (variant tsan / nopool). */
#define _GNU_SOURCE
#include <pthread.h>
#include <sched.h>
#include <stdlib.h>
#include <string.h>
#include "core.h"
#include "libMultiMarkdown.h"

#define MAXT 16
#define MAXJ 4096
typedef struct { char src[24]; const char * text; short fmt; unsigned long ext; uint64_t digest; size_t len; int null; } tjob_t;
static tjob_t jobs[MAXT][MAXJ / MAXT];
static int njobs[MAXT];
static pthread_barrier_t bar;
static unsigned yield_seed = 1;

static void * run_thread(void * p) {
	int t = (int)(intptr_t)p;
	unsigned s = yield_seed * 2654435761u + (unsigned)t;
	pthread_barrier_wait(&bar);
	for (int k = 0; k < njobs[t]; k++) {
		tjob_t * j = &jobs[t][k];
		char * out = mmd_string_convert(j->text, j->ext, j->fmt, 0);
		j->null = out == NULL; j->len = out ? strlen(out) : 0; j->digest = out ? fnv1a(out, j->len) : 0;
		free(out);
		s = s * 1103515245u + 12345u;
		if ((s >> 16) % 3 == 0) sched_yield();
	}
	return NULL;
}

int scen_threads(cmd_t * c) {
	arg_t * a = c->argv;
	if (!strcmp(c->name, "tjob")) {       /* tjob <thread> <srcid> <fmt> <ext> */
		int t = (int)arg_long(&a[0]) % MAXT; if (njobs[t] >= MAXJ / MAXT) return 1;
		srcbuf * sb = src_get(a[1].s); if (!sb) return 0;
		tjob_t * j = &jobs[t][njobs[t]++];
		snprintf(j->src, sizeof j->src, "%s", a[1].s); j->text = sb->s; j->fmt = (short)arg_long(&a[2]); j->ext = strtoul(a[3].s, NULL, 10);
		return 1;
	}
	if (!strcmp(c->name, "trun")) {       /* trun <T> <seed> */
		int T = (int)arg_long(&a[0]); if (T > MAXT) T = MAXT;
		yield_seed = (unsigned)arg_long(&a[1]);
		pthread_t th[MAXT];
		pthread_barrier_init(&bar, NULL, (unsigned)T);
		for (int t = 0; t < T; t++) pthread_create(&th[t], NULL, run_thread, (void *)(intptr_t)t);
		for (int t = 0; t < T; t++) pthread_join(th[t], NULL);
		pthread_barrier_destroy(&bar);
		for (int t = 0; t < T; t++) {
			for (int k = 0; k < njobs[t]; k++) {
				tjob_t * j = &jobs[t][k]; char d[24]; snprintf(d, sizeof d, "\"%016llx\"", (unsigned long long)j->digest);
				ev_begin("tconv"); ev_int("thread", t); ev_int("seq", k); ev_str("src", j->src); ev_int("fmt", j->fmt); ev_int("ext", (long long)j->ext);
				ev_bool("null", j->null); ev_int("len", (long long)j->len); ev_raw("digest", d); ev_end();
			}
			njobs[t] = 0;
		}
		return 1;
	}
	return 0;
}
