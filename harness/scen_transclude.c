/* C13: transclusion over a materialised file system.  transclude <rootpath> <search> <fmt> <api:src|s|d|e> */
#include <stdlib.h>
#include <string.h>
#include "core.h"
#include "libMultiMarkdown.h"
#include "d_string.h"
#include "stack.h"
#include "transclude.h"

static void log_manifest(stack * m) {
	size_t need = 16; for (size_t i = 0; m && i < m->size; i++) need += strlen((char *)m->element[i]) * 6 + 8;
	char * b = malloc(need); size_t o = 0; b[o++] = '[';
	for (size_t i = 0; m && i < m->size; i++) {
		if (i) b[o++] = ',';
		b[o++] = '"';
		for (const char * p = (char *)m->element[i]; *p; p++) { if (*p == '"' || *p == '\\') b[o++] = '\\'; b[o++] = *p; }
		b[o++] = '"';
	}
	b[o++] = ']'; b[o] = 0;
	ev_raw("manifest", b); free(b);
}

int scen_transclude(cmd_t * c) {
	const char * n = c->name; arg_t * a = c->argv;
	if (strcmp(n, "transclude")) return 0;
	const char * root = a[0].s, * search = a[1].s; short fmt = (short)arg_long(&a[2]); const char * api = a[3].s;
	DString * d = scan_file(root);
	if (!d) { ev_begin("transclude"); ev_str("api", api); ev_bool("null", 1); ev_end(); return 1; }
	stack * manifest = NULL; int owned = 1;
	if (!strcmp(api, "src")) {
		manifest = stack_new(0);
		mmd_transclude_source(d, search, root, fmt, NULL, manifest);
	} else if (!strcmp(api, "s")) { manifest = mmd_string_transclusion_manifest(d->str, search, root); owned = 1; }
	else if (!strcmp(api, "d")) { manifest = mmd_d_string_transclusion_manifest(d, search, root); }
	else {
		mmd_engine * e = mmd_engine_create_with_dstring(d, 0);
		manifest = mmd_engine_transclusion_manifest(e, search, root);
		mmd_engine_free(e, false);
	}
	ev_begin("transclude"); ev_str("api", api); ev_bool("null", 0); ev_int("fmt", fmt);
	ev_bytes("out", d->str, d->currentStringLength); ev_int("len", (long long)d->currentStringLength); ev_int("strlen", (long long)strlen(d->str));
	log_manifest(manifest);
	ev_end();
	if (manifest && owned) { for (size_t i = 0; i < manifest->size; i++) free(manifest->element[i]); stack_free(manifest); }
	d_string_free(d, true);
	return 1;
}
