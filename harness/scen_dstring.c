/* C19: DString operation histories.  One event per call with the full observable state. */
#define _GNU_SOURCE
#include <malloc.h>
#include <stdlib.h>
#include <string.h>
#include "core.h"
#include "d_string.h"

static DString * D = NULL;

static void log_state(const char * op, const char * ret, long delta, int has_delta) {
	ev_begin("ds");
	ev_str("op", op);
	if (D) {
		size_t sl = strnlen(D->str, D->currentStringBufferSize + 8 < (size_t)malloc_usable_size(D->str) ? D->currentStringBufferSize + 8 : (size_t)malloc_usable_size(D->str));
		ev_bytes("s", D->str, D->currentStringLength);
		ev_int("len", (long long)D->currentStringLength);
		ev_int("cap", (long long)D->currentStringBufferSize);
		ev_int("strlen", (long long)sl);
		ev_bool("nul", D->str[D->currentStringLength] == 0);
		ev_int("usable", (long long)malloc_usable_size(D->str));
	}
	if (ret) ev_str("ret", ret); else ev_raw("ret", "\"NULL\"");
	if (has_delta) ev_int("delta", delta);
	ev_end();
}

int scen_dstring(cmd_t * c) {
	const char * n = c->name;
	arg_t * a = c->argv;
	if (strncmp(n, "ds_", 3)) return 0;
	n += 3;
	if (!strcmp(n, "new")) {
		if (D) d_string_free(D, true);
		D = d_string_new(a[0].s);
		log_state("new", "", 0, 0);
	} else if (!D) {
		return 0;
	} else if (!strcmp(n, "append")) { d_string_append(D, a[0].s); log_state(n, "", 0, 0);
	} else if (!strcmp(n, "append_c")) { d_string_append_c(D, (char)arg_long(&a[0])); log_state(n, "", 0, 0);
	} else if (!strcmp(n, "append_ca")) { d_string_append_c_array(D, a[0].s, arg_size(&a[1])); log_state(n, "", 0, 0);
	} else if (!strcmp(n, "append_pf")) {
		if (!strcmp(a[0].s, "d")) d_string_append_printf(D, "%d", (int)arg_long(&a[1]));
		else if (!strcmp(a[0].s, "s")) d_string_append_printf(D, "<%s>", a[1].s);
		else if (!strcmp(a[0].s, "l")) d_string_append_printf(D, a[1].s);			/* the payload is the format: no conversion in it */
		else if (!strcmp(a[0].s, "pp")) { char * f = malloc(2 * a[1].n + 3); sprintf(f, "%s%%%%%s", a[1].s, a[1].s); d_string_append_printf(D, f); free(f); }
		else d_string_append_printf(D, "%s%d", a[1].s, (int)arg_long(&a[2]));
		log_state(n, "", 0, 0);
	} else if (!strcmp(n, "prepend")) { d_string_prepend(D, a[0].s); log_state(n, "", 0, 0);
	} else if (!strcmp(n, "insert")) { d_string_insert(D, arg_size(&a[0]), a[1].s); log_state(n, "", 0, 0);
	} else if (!strcmp(n, "insert_c")) { d_string_insert_c(D, arg_size(&a[0]), (char)arg_long(&a[1])); log_state(n, "", 0, 0);
	} else if (!strcmp(n, "insert_ca")) { d_string_insert_c_array(D, arg_size(&a[0]), a[1].s, arg_size(&a[2])); log_state(n, "", 0, 0);
	} else if (!strcmp(n, "insert_pf")) {
		if (!strcmp(a[1].s, "d")) d_string_insert_printf(D, arg_size(&a[0]), "%d", (int)arg_long(&a[2]));
		else if (!strcmp(a[1].s, "l")) d_string_insert_printf(D, arg_size(&a[0]), a[2].s);
		else if (!strcmp(a[1].s, "pp")) { char * f = malloc(2 * a[2].n + 3); sprintf(f, "%s%%%%%s", a[2].s, a[2].s); d_string_insert_printf(D, arg_size(&a[0]), f); free(f); }
		else d_string_insert_printf(D, arg_size(&a[0]), "<%s>", a[2].s);
		log_state(n, "", 0, 0);
	} else if (!strcmp(n, "erase")) { d_string_erase(D, arg_size(&a[0]), arg_size(&a[1])); log_state(n, "", 0, 0);
	} else if (!strcmp(n, "copy")) {
		char * r = d_string_copy_substring(D, arg_size(&a[0]), arg_size(&a[1]));
		log_state(n, r, 0, 0);
		free(r);
	} else if (!strcmp(n, "replace")) {
		long d = d_string_replace_text_in_range(D, arg_size(&a[0]), arg_size(&a[1]), a[2].s, a[3].s);
		log_state(n, "", d, 1);
	} else if (!strcmp(n, "free")) { d_string_free(D, true); D = NULL; ev_begin("ds"); ev_str("op", "free"); ev_end();
	} else return 0;
	return 1;
}
