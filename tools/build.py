#!/usr/bin/env python3
"""Out-of-tree builds of /repo's current working tree for the replay harness.

Every variant is compiled from /repo/src/*.c *as they are now* (no cmake: cmake's configure_file
rewrites /repo/README.md).  Object files are cached by a content hash of (source, all headers, flags),
so an unchanged tree rebuilds in well under a second and an edited file rebuilds alone.
"""
import hashlib, os, subprocess, sys, glob, shutil, concurrent.futures

VERIF = os.path.dirname(os.path.dirname(os.path.abspath(__file__)))
REPO = os.environ.get("MMD6_REPO", "/repo")
BUILD = os.environ.get("VERIF_BUILD") or os.path.join(VERIF, ".build")      # (VERIF_BUILD: private build directory for runs against a scratch tree)
GUARD = "MMD6_VERIF"

SAN = ["-fsanitize=address,undefined", "-fno-sanitize-recover=undefined", "-fno-omit-frame-pointer"]
VARIANTS = {
    # default replay vehicle (pool on, as shipped: NDEBUG)
    "asan":   dict(cflags=["-O1", "-g", "-DNDEBUG", "-D" + GUARD] + SAN, ldflags=SAN, cli=False),
    # real frees (C01, C15, C17 precondition)
    "nopool": dict(cflags=["-O1", "-g", "-DNDEBUG", "-DDISABLE_OBJECT_POOL", "-D" + GUARD] + SAN, ldflags=SAN, cli=False),
    # lemon's ParseTrace seam needs NDEBUG off
    "trace":  dict(cflags=["-O1", "-g", "-D" + GUARD] + SAN, ldflags=SAN, cli=False),
    "tsan":   dict(cflags=["-O1", "-g", "-DNDEBUG", "-DDISABLE_OBJECT_POOL", "-D" + GUARD, "-fsanitize=thread"],
                   ldflags=["-fsanitize=thread"], cli=False),
    # cost / stack measurements must not be inflated by sanitizer red zones
    "plain":  dict(cflags=["-O1", "-g", "-DNDEBUG", "-D" + GUARD, "-finstrument-functions",
                           "-fsanitize-coverage=trace-pc-guard"], ldflags=["-fsanitize-coverage=trace-pc-guard"], cli=False),
    # the command line tool, sanitized
    "cli":    dict(cflags=["-O1", "-g", "-DNDEBUG", "-D" + GUARD] + SAN, ldflags=SAN, cli=True),
}
# vendored zip library: deliberately unaligned loads / memcpy(NULL,0) -- configuration of miniz, not MMD code
MINIZ_EXTRA = ["-fno-sanitize=alignment,nonnull-attribute,pointer-overflow"]
LIB_EXCLUDE = {"main.c", "argtable3.c", "char_lookup.c"}
CLI_EXCLUDE = {"char_lookup.c"}


def sh(cmd, **kw):
    return subprocess.run(cmd, stdout=subprocess.PIPE, stderr=subprocess.STDOUT, text=True, **kw)


def _hash(*parts):
    h = hashlib.sha1()
    for p in parts:
        h.update(p if isinstance(p, bytes) else p.encode())
        h.update(b"\0")
    return h.hexdigest()[:16]


def version_h(incdir):
    os.makedirs(incdir, exist_ok=True)
    tmpl = open(os.path.join(REPO, "templates", "version.h.in")).read()
    import re
    s = tmpl.replace("@My_Project_Title_Caps@", "LIBMULTIMARKDOWN").replace("@My_Project_Version@", "6.7.0")
    s = re.sub(r"@[A-Za-z_]*@", "x", s)
    p = os.path.join(incdir, "version.h")
    if not os.path.exists(p) or open(p).read() != s:
        open(p, "w").write(s)
    return incdir


def headers_digest(src):
    h = hashlib.sha1()
    for f in sorted(glob.glob(os.path.join(src, "*.h"))):
        h.update(os.path.basename(f).encode())
        h.update(open(f, "rb").read())
    return h.hexdigest()


def compile_one(args):
    cfile, obj, flags = args
    if os.path.exists(obj):
        return (cfile, True, "")
    tmp = obj + ".tmp%d" % os.getpid()
    r = sh(["clang", "-w", "-c", cfile, "-o", tmp] + flags)
    if r.returncode != 0:
        return (cfile, False, r.stdout)
    os.replace(tmp, obj)
    return (cfile, True, "")


def build_objects(variant, src=None, extra_cflags=()):
    """Compile the library (or CLI) objects of `variant`; returns list of object paths."""
    src = src or os.path.join(REPO, "src")
    v = VARIANTS[variant]
    inc = version_h(os.path.join(BUILD, "include"))
    objdir = os.path.join(BUILD, variant, "obj")
    os.makedirs(objdir, exist_ok=True)
    hd = headers_digest(src)
    jobs, objs = [], []
    excl = CLI_EXCLUDE if v["cli"] else LIB_EXCLUDE
    for c in sorted(glob.glob(os.path.join(src, "*.c"))):
        b = os.path.basename(c)
        if b in excl:
            continue
        flags = list(v["cflags"]) + list(extra_cflags) + ["-I" + inc, "-I" + src]
        if b == "miniz.c" and any("undefined" in f for f in flags):
            flags += MINIZ_EXTRA
        if b in ("miniz.c",) and "-finstrument-functions" in flags:
            pass
        key = _hash(open(c, "rb").read(), hd, " ".join(flags))
        obj = os.path.join(objdir, "%s-%s.o" % (b[:-2], key))
        jobs.append((c, obj, flags))
        objs.append(obj)
    with concurrent.futures.ThreadPoolExecutor(16) as ex:
        res = list(ex.map(compile_one, jobs))
    bad = [(c, out) for c, ok, out in res if not ok]
    if bad:
        raise BuildError("compile failed: " + bad[0][0] + "\n" + bad[0][1][-3000:])
    # prune stale objects of this variant (keep cache small)
    keep = set(objs)
    for f in glob.glob(os.path.join(objdir, "*.o")):
        if f not in keep and (len(glob.glob(os.path.join(objdir, "*.o"))) > 400):
            try:
                os.remove(f)
            except OSError:
                pass
    return objs


class BuildError(Exception):
    pass


WRAPS = ["exit", "pool_allocate_object", "ran_num_next", "rand", "srand"]


def build_harness(variant, name="mmdreplay", sources=None, wraps=WRAPS, extra_cflags=(), extra_ld=()):
    """Build harness/<sources> + library objects of the variant; returns path of the executable."""
    v = VARIANTS[variant]
    if variant == "tsan":
        wraps = ["exit"]
    elif variant == "nopool":
        wraps = [w for w in wraps if w != "pool_allocate_object"]
    objs = build_objects(variant)
    hdir = os.path.join(VERIF, "harness")
    sources = sources or sorted(glob.glob(os.path.join(hdir, "*.c")))
    inc = os.path.join(BUILD, "include")
    src = os.path.join(REPO, "src")
    hflags = [f for f in v["cflags"] if f not in ("-finstrument-functions", "-fsanitize-coverage=trace-pc-guard")]
    hflags += list(extra_cflags) + ["-I" + inc, "-I" + src, "-I" + hdir, "-DVARIANT_" + variant.upper()]
    key = _hash(*[open(s, "rb").read() for s in sources], *[open(h, "rb").read() for h in sorted(glob.glob(os.path.join(hdir, "*.h")))],
                " ".join(hflags), " ".join(objs), " ".join(wraps), " ".join(extra_ld))
    exe = os.path.join(BUILD, variant, "%s-%s" % (name, key))
    if os.path.exists(exe):
        return exe
    for old in glob.glob(os.path.join(BUILD, variant, name + "-*")):
        try:
            os.remove(old)
        except OSError:
            pass
    hobjs = []
    for s in sources:
        o = os.path.join(BUILD, variant, "h_" + os.path.basename(s)[:-2] + ".o")
        r = sh(["clang", "-Wall", "-Wno-unused-function", "-c", s, "-o", o] + hflags)
        if r.returncode != 0:
            raise BuildError("harness compile failed: %s\n%s" % (s, r.stdout[-4000:]))
        hobjs.append(o)
    ld = ["clang", "-o", exe + ".tmp"] + hobjs + objs + v["ldflags"] + ["-lm", "-lpthread"] + list(extra_ld)
    for w in wraps:
        ld.append("-Wl,--wrap=" + w)
    r = sh(ld)
    if r.returncode != 0:
        raise BuildError("link failed\n" + r.stdout[-4000:])
    os.replace(exe + ".tmp", exe)
    return exe


def build_cli():
    objs = build_objects("cli")
    v = VARIANTS["cli"]
    key = _hash(" ".join(objs))
    exe = os.path.join(BUILD, "cli", "multimarkdown-" + key)
    if os.path.exists(exe):
        return exe
    for old in glob.glob(os.path.join(BUILD, "cli", "multimarkdown-*")):
        os.remove(old)
    r = sh(["clang", "-o", exe] + objs + v["ldflags"] + ["-lm", "-lpthread"])
    if r.returncode != 0:
        raise BuildError("cli link failed\n" + r.stdout[-4000:])
    return exe


if __name__ == "__main__":
    for var in sys.argv[1:] or ["asan"]:
        if var == "cli":
            print(build_cli())
        else:
            print(build_harness(var))
