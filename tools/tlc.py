#!/usr/bin/env python3
"""Thin driver around TLC: exhaustive runs, behaviour generation, trace validation with re-synchronisation."""
import json, os, re, shutil, subprocess, tempfile, time

VERIF = os.path.dirname(os.path.dirname(os.path.abspath(__file__)))
SPEC = os.path.join(VERIF, "spec")
BUILD = os.environ.get("VERIF_BUILD") or os.path.join(VERIF, ".build")      # (VERIF_BUILD: private build directory for runs against a scratch tree)
JAR = "/opt/veriftools/tla/tla2tools.jar:/opt/veriftools/tla/CommunityModules-deps.jar"


class TlcError(Exception):
    """framework failure (parse error, TLC crash): never reported as a violation"""


class TlcResult:
    def __init__(self):
        self.rc = None; self.out = ""; self.generated = 0; self.distinct = 0; self.depth = 0
        self.violated = None      # name of violated invariant / property, or None
        self.printed = []         # values PrintT'ed as JSON strings
        self.coverage = {}        # action -> (taken, generated)   (with coverage=True)
        self.wall = 0.0
        self.postcondition_failed = False
        self.deadlock = False
        self.trace_states = []

    def ok(self):
        return self.rc == 0


_seq = [0]
# trace validations whose rejection budget ran out: the rest of such a trace was not examined.  A check that found violations reports them; a check that
# found none must not pass on a partly examined trace (vlib.Check.finish turns that into a framework error).
TRUNCATED = []


def run(module, cfg, workers=8, simulate=None, depth=None, seed=None, env=None, timeout=1100, coverage=False,
        spec_dirs=(), heap="8g", dfs=False, extra=(), want_printed=True, workdir=None):
    """Run TLC on spec/<module>.tla with config file `cfg` (path or text). Returns TlcResult."""
    _seq[0] += 1
    wd = workdir or tempfile.mkdtemp(prefix="tlc_%s_" % module, dir=os.path.join(BUILD, "tlc"))
    os.makedirs(wd, exist_ok=True)
    # copy all specs (hand written + generated) into the work dir: TLC resolves EXTENDS next to the root module
    for d in (SPEC,) + tuple(spec_dirs):
        for f in os.listdir(d):
            if f.endswith(".tla"):
                shutil.copy(os.path.join(d, f), os.path.join(wd, f))
    if os.path.exists(cfg):
        cfgpath = os.path.join(wd, os.path.basename(cfg)); shutil.copy(cfg, cfgpath)
    else:
        cfgpath = os.path.join(wd, module + "_run.cfg"); open(cfgpath, "w").write(cfg)
    cmd = ["java", "-XX:+UseParallelGC", "-Xmx" + heap, "-Xss64m"]
    if dfs:
        cmd.append("-Dtlc2.tool.queue.IStateQueue=StateDeque")
    cmd += ["-cp", JAR, "tlc2.TLC", "-workers", str(workers), "-metadir", os.path.join(wd, "md"),
            "-config", cfgpath, "-noGenerateSpecTE"]
    if simulate:
        cmd += ["-simulate", "num=%d" % simulate]
        if seed is not None:
            cmd += ["-seed", str(seed)]
    if depth:
        cmd += ["-depth", str(depth)]
    if coverage:
        cmd += ["-coverage", "1"]
    cmd += list(extra) + [os.path.join(wd, module + ".tla")]
    e = dict(os.environ); e.update(env or {})
    t0 = time.time()
    try:
        p = subprocess.run(cmd, cwd=wd, env=e, stdout=subprocess.PIPE, stderr=subprocess.STDOUT, text=True, timeout=timeout)
    except subprocess.TimeoutExpired as ex:
        raise TlcError("TLC timeout on %s after %ss" % (module, timeout))
    r = TlcResult(); r.rc = p.returncode; r.out = p.stdout; r.wall = time.time() - t0
    for line in p.stdout.splitlines():
        if want_printed and line.startswith('"') and line.endswith('"'):
            try:
                r.printed.append(json.loads(json.loads(line)))
                continue
            except Exception:
                pass
        m = re.match(r"(\d+) states generated, (\d+) distinct states found", line)
        if m:
            r.generated, r.distinct = int(m.group(1)), int(m.group(2))
        m = re.match(r"The depth of the complete state graph search is (\d+)", line)
        if m:
            r.depth = int(m.group(1))
        m = re.match(r"Error: Invariant (\S+) is violated", line)
        if m:
            r.violated = m.group(1)
        m = re.match(r"Error: (Action property|Temporal properties) (\S*)", line)
        if m:
            r.violated = r.violated or (m.group(2) or "property")
        if "Temporal properties were violated" in line:
            r.violated = r.violated or "temporal"
        if "POSTCONDITION" in line.upper() and ("false" in line.lower() or "violated" in line.lower()):
            r.postcondition_failed = True
        if line.startswith("Error: Deadlock reached"):
            r.deadlock = True
        m = re.match(r"<(\w+) line \d+, col \d+ to line \d+, col \d+ of module (\w+)>: (\d+):(\d+)", line)
        if m:
            k = m.group(1)
            t, g = int(m.group(3)), int(m.group(4))
            a = r.coverage.get(k, (0, 0)); r.coverage[k] = (a[0] + t, a[1] + g)
    # counterexample (if any): the "State n:" blocks
    if "Error:" in p.stdout:
        i = p.stdout.find("Error:")
        j = p.stdout.find("The coverage statistics", i)
        r.cex = p.stdout[i:(j if j > 0 else i + 20000)][:20000]
    else:
        r.cex = ""
    # TLC's workers print in no fixed order: a canonical order keeps everything derived from positions (samples, rotations of options) reproducible
    if workers > 1 and len(r.printed) > 1:
        r.printed.sort(key=lambda v: json.dumps(v, sort_keys=True))
    if simulate and r.generated == 0:
        m = re.search(r"(\d+) states checked", p.stdout)
        if m:
            r.generated = int(m.group(1)); r.distinct = r.generated
    # rc: 0 ok, 12 safety violation, 13 liveness violation, 11 deadlock; anything else = framework failure
    if r.rc not in (0, 10, 11, 12, 13):
        raise TlcError("TLC failed on %s (rc=%s)\n%s" % (module, r.rc, (r.cex[:3000] if r.cex else p.stdout[-3000:])))
    if r.rc != 0 and not (r.violated or r.postcondition_failed or r.deadlock):
        if "Assumption" in p.stdout and "is false" in p.stdout:
            r.violated = "ASSUME"
        elif r.rc == 12 or r.rc == 13:
            r.violated = r.violated or "unknown"
        else:
            raise TlcError("TLC failed on %s (rc=%s)\n%s" % (module, r.rc, p.stdout[-3000:]))
    if not workdir:
        shutil.rmtree(wd, ignore_errors=True)
    return r


def write_ndjson(path, events):
    with open(path, "w") as f:
        for e in events:
            f.write(json.dumps(e, separators=(",", ":")) + "\n")


def validate_trace(module, cfg, events, seg_key="reset", max_rejects=12, workers=1, dfs=False, timeout=1100, spec_dirs=(), heap="8g", independent=False, parallel=8):
    """see _validate_trace.  Traces whose segments do not share state (independent=True) are cut at segment boundaries into `parallel` chunks that are
    validated concurrently (one JVM each), each with its own rejection budget: rejections caused by listed findings cannot use up the budget of the rest."""
    if independent and parallel > 1 and len(events) > 400:
        bounds = [i for i, e in enumerate(events) if e.get("e") == seg_key]
        if not bounds or bounds[0] != 0: bounds = [0] + bounds
        per = max(1, len(bounds) // parallel)
        cuts = [bounds[i] for i in range(0, len(bounds), per)][:parallel] + [len(events)]
        chunks = [events[cuts[i]:cuts[i + 1]] for i in range(len(cuts) - 1) if cuts[i] < cuts[i + 1]]
        import concurrent.futures
        with concurrent.futures.ThreadPoolExecutor(len(chunks)) as ex:
            outs = list(ex.map(lambda c: _validate_trace(module, cfg, c, seg_key, max_rejects, workers, dfs, timeout, spec_dirs, "4g", True), chunks))
        info = dict(runs=sum(o[3]["runs"] for o in outs), wall=max(o[3]["wall"] for o in outs), chunks=len(chunks))
        if any(o[3].get("truncated") for o in outs):
            info["truncated"] = True; TRUNCATED.append("%s (budget %d per chunk)" % (module, max_rejects))
        return sum(o[0] for o in outs), sum((o[1] for o in outs), []), sum(o[2] for o in outs), info
    out = _validate_trace(module, cfg, events, seg_key, max_rejects, workers, dfs, timeout, spec_dirs, heap, independent)
    if out[3].get("truncated"):
        TRUNCATED.append("%s (budget %d)" % (module, max_rejects))
    return out


def _validate_trace(module, cfg, events, seg_key="reset", max_rejects=12, workers=1, dfs=False, timeout=1100, spec_dirs=(), heap="8g", independent=False):
    """Validate a recorded trace (list of event dicts) against spec/<module>.tla.

    The trace spec consumes one event per step (variable l) and is accepted iff l runs off the end
    (POSTCONDITION).  Executions are concatenated with `reset` events; when the spec refuses an event the
    execution (segment) containing it is set aside as *rejected* and the remainder is validated again, so one
    rejection never leaves the rest of the trace unexamined.  Returns (accepted_events, rejected_segments, states, info)
    where rejected_segments = [(segment_events, index_in_segment_of_refused_event)].
    """
    os.makedirs(os.path.join(BUILD, "tlc"), exist_ok=True)
    rejected = []
    total_states = 0
    done_prefix = 0
    info = dict(runs=0, wall=0.0)
    evs = list(events)
    while True:
        if not evs:
            return done_prefix, rejected, total_states, info
        fd, path = tempfile.mkstemp(prefix="trace_", suffix=".ndjson", dir=os.path.join(BUILD, "tlc")); os.close(fd)
        write_ndjson(path, evs)
        try:
            r = run(module, cfg, workers=workers, env={"TRACE": path}, dfs=dfs, timeout=timeout, spec_dirs=spec_dirs, want_printed=False, heap=heap)
        finally:
            os.remove(path)
        info["runs"] += 1; info["wall"] += r.wall
        total_states += r.distinct
        accepted = (r.rc == 0 and not r.postcondition_failed and not r.violated)
        if accepted:
            return done_prefix + len(evs), rejected, total_states, info
        if r.violated and r.violated != "unknown" and not r.postcondition_failed:
            # an invariant of the spec failed on the recorded behaviour: the refused event is at depth-1
            m = re.findall(r"^State (\d+):", r.out, re.M)
            consumed = (max(int(x) for x in m) - 1) if m else r.depth
            bad = max(consumed - 1, 0)
        else:
            # linear trace: depth = 1 (initial) + consumed events ; the refused event has 0-based index depth-1
            bad = max(r.depth - 1, 0)
        if bad >= len(evs):
            raise TlcError("trace validation of %s: cannot locate refused event (depth %d, %d events)\n%s" % (module, r.depth, len(evs), r.out[-2000:]))
        # segment boundaries
        lo = bad
        while lo > 0 and evs[lo].get("e") != seg_key:
            lo -= 1
        hi = bad + 1
        while hi < len(evs) and evs[hi].get("e") != seg_key:
            hi += 1
        if evs[bad].get("e") == seg_key:
            raise TlcError("trace validation of %s refused a reset event\n%s" % (module, r.out[-2000:]))
        rejected.append((evs[lo:hi], bad - lo))
        if independent:
            # segments do not share state: the accepted prefix needs no second look
            done_prefix += lo
            evs = evs[hi:]
        else:
            evs = evs[:lo] + evs[hi:]
        if len(rejected) >= max_rejects:
            info["truncated"] = True
            return done_prefix + len(evs), rejected, total_states, info


def sany(path):
    p = subprocess.run(["java", "-cp", JAR, "tla2sany.SANY", path], stdout=subprocess.PIPE, stderr=subprocess.STDOUT, text=True,
                       cwd=os.path.dirname(path))
    return p.returncode == 0 and "Semantic errors" not in p.stdout and "Parsing or semantic analysis failed" not in p.stdout, p.stdout
