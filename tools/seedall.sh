#!/bin/bash
# run every seeded change against the quick check of its property; one line per seed (caught / MISSED)
cd /verif
for d in seeded/*/; do
  s=$(basename $d); id=${s%-*}
  [ -f $d/patch.diff ] || continue
  if ! git -C /repo apply --check $(realpath $d/patch.diff) 2>/dev/null; then echo "$s patch-does-not-apply"; continue; fi
  out=$(tools/seedrun.sh $d $id quick 2>&1)
  key=$(echo "$out" | grep -m1 "^  key=" | cut -c1-160)
  rc=$(echo "$out" | grep -o "check_rc=[0-9]*")
  echo "$s $rc $key"
done
git -C /repo status --short | grep -v _build
