#!/bin/bash
# My own regression over all seeded changes, in parallel: each seed gets a scratch worktree of /repo (MMD6_REPO), a private build
# directory (VERIF_BUILD) and a private output directory (VERIF_OUT); /repo, evidence/ and replays/ are not touched.
# usage: seedpar.sh [jobs] [seed-dir...]      (the documented single-seed procedure on /repo itself is tools/seedrun.sh)
J=${1:-5}; shift; cd /verif
SEEDS=${@:-seeded/*/}
one() {
  d=$1; s=$(basename $d); id=${s%-*}
  [ -f $d/patch.diff ] || exit 0
  W=/tmp/seedpar/$s; rm -rf $W; mkdir -p /tmp/seedpar
  git -C /repo worktree add -q --detach $W/tree HEAD 2>/dev/null || { echo "$s worktree-failed"; exit 0; }
  if ! git -C $W/tree apply $(realpath $d/patch.diff) 2>/dev/null; then echo "$s patch-does-not-apply"; git -C /repo worktree remove --force $W/tree; rm -rf $W; exit 0; fi
  out=$(MMD6_REPO=$W/tree VERIF_BUILD=$W/build VERIF_OUT=$W/out VERIF_JOBS=6 /verif/tools/vcheck $id --tier quick 2>&1); rc=$?
  key=$(echo "$out" | grep -m1 "^  key=" | cut -c1-170)
  echo "$s rc=$rc $key"
  git -C /repo worktree remove --force $W/tree; rm -rf $W
}
export -f one
printf '%s\n' $SEEDS | xargs -P $J -I{} bash -c 'one {}'
git -C /repo worktree prune
