#!/usr/bin/env python3
"""Shared runtime of all checks: harness execution, evidence, triage against KNOWN_FINDINGS.txt, reporting."""
import concurrent.futures, glob, hashlib, json, os, re, shutil, subprocess, sys, tempfile, time

VERIF = os.path.dirname(os.path.dirname(os.path.abspath(__file__)))
sys.path.insert(0, os.path.join(VERIF, "tools"))
import build, tlc  # noqa: E402

BUILD = os.environ.get("VERIF_BUILD") or os.path.join(VERIF, ".build")      # (VERIF_BUILD: private build directory for runs against a scratch tree)
EVID = os.path.join(os.environ.get("VERIF_OUT") or VERIF, "evidence")
REPLAYS = os.path.join(os.environ.get("VERIF_OUT") or VERIF, "replays")
REPO = build.REPO
NCPU = int(os.environ.get("VERIF_JOBS", "16"))


class FrameworkError(Exception):
    pass


def hexarg(b):
    if isinstance(b, str):
        b = b.encode("latin-1") if all(ord(ch) < 256 for ch in b) else b.encode("utf-8")
    return "=" + b.hex() if len(b) else "-"


def line(*fields):
    out = []
    for f in fields:
        if isinstance(f, (bytes, bytearray)):
            out.append(hexarg(bytes(f)))
        elif isinstance(f, int):
            out.append("M" if f == -1 else str(f))
        else:
            out.append(str(f))
    return "\t".join(out)


def sx(s):
    """script argument for a text payload (always hex)"""
    return hexarg(s if isinstance(s, (bytes, bytearray)) else s.encode("utf-8"))


def scratch(prefix="vrf"):
    d = os.path.join(BUILD, "scratch")
    os.makedirs(d, exist_ok=True)
    return tempfile.mkdtemp(prefix=prefix + "_", dir=d)


def san_env(logbase):
    e = dict(os.environ)
    opts = "log_path=%s:abort_on_error=0:detect_leaks=0:allocator_may_return_null=1:handle_abort=1:print_stacktrace=1" % logbase
    e["ASAN_OPTIONS"] = opts + ":detect_stack_use_after_return=0:malloc_context_size=8"
    if os.environ.get("VERIF_MALLOC_FILL"):
        # what a fresh heap block holds is no part of any result: a run may be given another fill byte than the default 0xbe (C05 does so for its reference executions)
        e["ASAN_OPTIONS"] += ":malloc_fill_byte=%s:max_malloc_fill_size=1048576" % os.environ["VERIF_MALLOC_FILL"]
    e["UBSAN_OPTIONS"] = "log_path=%s:print_stacktrace=1:halt_on_error=1" % logbase
    e["TSAN_OPTIONS"] = "log_path=%s:halt_on_error=0:second_deadlock_stack=1:report_signal_unsafe=0" % logbase
    return e


def _run_one(args):
    exe, lines, wd, idx, timeout, cwd = args
    sp = os.path.join(wd, "s%d.script" % idx); tp = os.path.join(wd, "s%d.ndjson" % idx)
    with open(sp, "w") as f:
        f.write("\n".join(lines) + "\n")
    logbase = os.path.join(wd, "s%d.san" % idx)
    t0 = time.time()
    try:
        p = subprocess.run([exe, sp, tp, str(timeout)], env=san_env(logbase), stdout=subprocess.PIPE, stderr=subprocess.PIPE,
                           timeout=max(600, timeout * 4), cwd=cwd)
        rc = p.returncode
    except subprocess.TimeoutExpired:
        rc = -9
    evs = []
    if os.path.exists(tp):
        with open(tp, encoding="utf-8", errors="replace") as f:
            for ln in f:
                try:
                    evs.append(json.loads(ln))
                except Exception:
                    pass
    san = ""
    for lf in sorted(glob.glob(logbase + ".*")):
        san += open(lf, errors="replace").read()
    return dict(events=evs, rc=rc, san=san, wall=time.time() - t0, nlines=len(lines))


def run_harness(exe, segments, shards=None, timeout=20, cwd=None):
    """Run independent script segments (each a list of script lines) through the harness, sharded over processes.

    When a shard dies (sanitizer abort / timeout / crash) the segment that was executing is recorded with its
    truncated events and the *remaining* segments of that shard are re-run in a fresh process, so one failure
    never leaves the rest unexecuted.  Returns list (one per segment) of dict(events=[...], status, san).
    """
    shards = shards or NCPU
    wd = scratch("run")
    results = [None] * len(segments)
    pending = [list(range(i, len(segments), shards)) for i in range(min(shards, max(1, len(segments))))]
    pending = [p for p in pending if p]
    rnd = 0
    try:
        while pending:
            jobs = []
            for si, seglist in enumerate(pending):
                lines, owner = [], []
                for s in seglist:
                    for ln in segments[s]:
                        lines.append(ln); owner.append(s)
                jobs.append((exe, lines, wd, rnd * 1000 + si, timeout, cwd))
                pending[si] = (seglist, owner)
            with concurrent.futures.ThreadPoolExecutor(NCPU) as ex:
                outs = list(ex.map(_run_one, jobs))
            nxt = []
            for (seglist, owner), o in zip(pending, outs):
                per = {s: [] for s in seglist}
                last_seg = None
                for ev in o["events"]:
                    ln = ev.get("line", 0)
                    if ev.get("e") == "done":
                        continue
                    if 1 <= ln <= len(owner):
                        ev["sline"] = ln - owner.index(owner[ln - 1])       # line number inside its own segment (1-based)
                        per[owner[ln - 1]].append(ev); last_seg = owner[ln - 1]
                finished = any(ev.get("e") == "done" for ev in o["events"])
                if finished:
                    for s in seglist:
                        # reports of a sanitizer that does not stop the process (TSan) belong to the whole shard
                        results[s] = dict(events=per[s], status="ok", san="", shard_san=o["san"])
                else:
                    # find the segment being executed when the process died
                    term = [ev for ev in o["events"] if ev.get("e") in ("aborted", "timeout")]
                    if term:
                        ln = term[-1].get("line", 0)
                        dead = owner[ln - 1] if 1 <= ln <= len(owner) else last_seg
                        kind = term[-1]["e"]
                    else:
                        dead = last_seg if last_seg is not None else seglist[0]
                        kind = "killed"
                        # the event of the dying command was never written: it is the next segment line
                    if dead is None:
                        dead = seglist[0]
                    k = seglist.index(dead)
                    for s in seglist[:k]:
                        results[s] = dict(events=per[s], status="ok", san="")
                    results[dead] = dict(events=per[dead], status=kind, san=o["san"], rc=o["rc"])
                    if seglist[k + 1:]:
                        nxt.append(seglist[k + 1:])
            pending = nxt
            rnd += 1
    finally:
        shutil.rmtree(wd, ignore_errors=True)
    return results


def san_signature(san):
    """(error kind, innermost frame inside the repository's src/) of a sanitizer report."""
    kind = "unknown"
    m = re.search(r"ERROR: AddressSanitizer: ([\w-]+)", san)
    if m:
        kind = m.group(1)
    else:
        m = re.search(r"runtime error: (.*)", san)
        if m:
            kind = "ubsan:" + re.sub(r"0x[0-9a-f]+|\d+", "N", m.group(1))[:60]
        elif "ThreadSanitizer: data race" in san:
            kind = "data-race"
    frame = "?"
    for m in re.finditer(r"#\d+ 0x[0-9a-f]+ in (\w+) (\S+?):(\d+)", san):
        if "/src/" in m.group(2) and "/harness/" not in m.group(2):
            frame = "%s@%s" % (m.group(1), os.path.basename(m.group(2)))
            break
    if frame == "?":
        m = re.search(r"(\w+\.c):(\d+):\d+: runtime error", san)
        if m:
            frame = m.group(1)
    return kind, frame


# ---------------------------------------------------------------------------------------------------------
class Known:
    """KNOWN_FINDINGS.txt:  finding: property=<ID> key=<signature> :: <what fails>
                            fixed:   property=<ID> <commit> <what failed>"""

    def __init__(self):
        self.findings = []
        p = os.path.join(VERIF, "KNOWN_FINDINGS.txt")
        if os.path.exists(p):
            for ln in open(p):
                m = re.match(r"finding:\s+property=(\S+)\s+key=(\S+)\s+::\s+(.*)", ln.strip())
                if m:
                    self.findings.append((m.group(1), m.group(2), m.group(3)))

    def match(self, pid, key):
        for (p, k, text) in self.findings:
            if p == pid and k == key:
                return text
        return None


class Check:
    """One run of one property's check."""

    def __init__(self, pid, level, tier, seed):
        self.pid, self.level, self.tier, self.seed = pid, level, tier, seed
        self.t0 = time.time()
        self.cov = dict(samples=[])
        self.assumptions = []
        self.violations = []   # (key, description, replay dict)
        self.known_hits = {}
        self.known = Known()
        self.notes = []

    def add(self, key, n=1):
        self.cov[key] = self.cov.get(key, 0) + n

    def sample(self, s, limit=6):
        if len(self.cov["samples"]) < limit:
            self.cov["samples"].append(s)

    def report(self, key, what, replay):
        """A reproduced violation with cause signature `key`."""
        text = self.known.match(self.pid, key)
        if text is not None:
            self.known_hits.setdefault(key, [text, 0])[1] += 1
            return False
        self.violations.append((key, what, replay))
        return True

    def finish(self):
        os.makedirs(EVID, exist_ok=True)
        import tlc as _tlc
        if _tlc.TRUNCATED and not self.violations:
            raise FrameworkError("the rejection budget of a trace validation ran out (%s) and everything examined so far is a listed finding: part of the trace was not examined" % ", ".join(_tlc.TRUNCATED))
        for key, (text, n) in sorted(self.known_hits.items()):
            print("KNOWN-FINDING: property=%s %s [key=%s, %d witness(es) this run]" % (self.pid, text, key, n))
        paths = []
        seen = set()
        for key, what, replay in self.violations:
            if key in seen and len(paths) >= 1:
                continue
            seen.add(key)
            d = os.path.join(REPLAYS, self.pid); os.makedirs(d, exist_ok=True)
            body = json.dumps(dict(property=self.pid, key=key, what=what, replay=replay), indent=1, sort_keys=True)
            p = os.path.join(d, hashlib.sha1(body.encode()).hexdigest()[:12] + ".json")
            open(p, "w").write(body)
            paths.append(p)
            print("VIOLATION property=%s replay=%s" % (self.pid, p))
            print("  key=%s :: %s" % (key, what[:400]))
        cov = dict(self.cov)
        cov.setdefault("evaluations", 0)
        cov.setdefault("distinct_nontrivial", 0)
        cov["known_findings_seen"] = {k: v[1] for k, v in self.known_hits.items()}
        if self.notes:
            cov["notes"] = self.notes
        ev = dict(property_id=self.pid, tier=self.tier, seed=int(self.seed), level=self.level, coverage=cov,
                  assumptions=self.assumptions, wall_s=round(time.time() - self.t0, 2), violations=len(self.violations))
        open(os.path.join(EVID, self.pid + ".json"), "w").write(json.dumps(ev, indent=1, sort_keys=True) + "\n")
        return 1 if self.violations else 0


def uniq(seq, key=lambda x: json.dumps(x, sort_keys=True)):
    seen, out = set(), []
    for x in seq:
        k = key(x)
        if k not in seen:
            seen.add(k); out.append(x)
    return out
