#!/usr/bin/env python3
"""Prepare a seeding round: for every property a scratch worktree /tmp/wt/<ID> of /repo HEAD and a prompt file
/tmp/wt/prompts/<ID>.txt for a sub-agent.  The prompt holds the property text and the one-line titles of the changes kept from
earlier rounds (so that a new change goes elsewhere) -- nothing about the checks.   usage: mkround.py <n> [ID...]"""
import sys, os, json, glob, subprocess, re
n = sys.argv[1]
ids = sys.argv[2:]
props = [json.loads(l) for l in open('/verif/properties.jsonl')]
os.makedirs('/tmp/wt/prompts', exist_ok=True)
for p in props:
    pid = p['id']
    if ids and pid not in ids:
        continue
    wt = f'/tmp/wt/{pid}'
    if not os.path.isdir(wt):
        subprocess.run(['git', '-C', '/repo', 'worktree', 'add', '-q', '--detach', wt, 'HEAD'], check=True)
    taken = []
    for d in sorted(glob.glob(f'/verif/seeded/{pid}-*')):
        t = ''
        rd = os.path.join(d, 'README.txt')
        if os.path.exists(rd):
            for line in open(rd, errors='replace'):
                if line.strip():
                    t = line.strip(); break
        fn = set()
        for line in open(os.path.join(d, 'patch.diff'), errors='replace'):
            m = re.match(r'^@@[^@]*@@\s*(.*)', line)
            if m and m.group(1):
                g = re.search(r'(\w+)\s*\(', m.group(1))
                if g: fn.add(g.group(1))
            m = re.match(r'^\+\+\+ b/(\S+)', line)
            if m: fn.add(m.group(1))
        taken.append(f'- {t[:150]}  [{", ".join(sorted(fn))}]')
    prompt = f"""You are helping to evaluate a verification framework for the C project fletcher/MultiMarkdown-6 (a Markdown/MultiMarkdown
parser and converter; library + command line).  You have your own scratch git worktree of the project at {wt} (it is at the
project's current HEAD).  Work ONLY inside {wt} and /tmp/wt/{pid}_scratch (create it if you need it).  Never touch /repo or /verif, do not read
anything under /verif, and do not commit.

PROPERTY (this is a property the project is supposed to satisfy):

  id: {pid}
  title: {p['title']}
  statement: {p['statement']}
  quantifier: {p.get('quantifier','')}
  anchors (where it lives in the code): {json.dumps(p.get('anchors'))}

TASK.  Write ONE realistic change to the project's source (under {wt}/src; keep .y/.re and their generated .c consistent if you touch
a generated file, i.e. edit the generated .c by hand in the same way) that BREAKS this property, while
  (a) the project still compiles without new warnings,
  (b) the project's own test suite still passes: run  /verif/tools/run_repo_tests.sh {wt}  (you may execute this one script, do
      not read it or anything else in /verif); it must print "PASSED 345 FAILED 0",
  (c) the change looks like something a maintainer could plausibly write (a refactoring slip, an optimisation with a missed case, a
      wrong boundary, a cache that is not invalidated, an early return, a copy-paste of a neighbouring case ...), not sabotage,
  (d) it needs SOMETHING SPECIFIC to manifest: an unusual input class, a particular size boundary, a multi-step sequence of API
      calls, a particular combination of options / formats / entry points, state that survives between calls, or two cooperating
      sites that each look fine alone.  Ordinary use must NOT expose it at once.
Be subtle and inventive: prefer semantic slips deep in rarely exercised paths over crashes in hot paths.

The following changes were already made in earlier rounds -- stay away from these functions/ideas and from their close neighbours
(choose a different function, a different input class and a different trigger idea):
{chr(10).join(taken)}

DELIVERABLE, in the directory {wt}/_mut/{n}/ (create it):
  patch.diff  -- output of `git -C {wt} diff -- src` (only source files; must apply with `git apply` to a clean HEAD)
  demo.sh     -- usage: demo.sh <TREE>; builds the library from <TREE>/src out of tree in a mktemp directory (never inside TREE), runs
                 a small demonstration (a C program demo.c next to it using the public API in <TREE>/src/libMultiMarkdown.h etc., or
                 the command line), exits 0 when the property holds and non-zero when it is broken; removes its temp directory.
                 Build recipe that works here: generate version.h with
                   sed -e 's/@My_Project_Title_Caps@/LIBMULTIMARKDOWN/g' -e 's/@My_Project_Version@/6.7.0/g' -e 's/@[A-Za-z_]*@/x/g' "$TREE/templates/version.h.in" > "$BD/version.h"
                 compile every $TREE/src/*.c except char_lookup.c (and except main.c and argtable3.c when linking your own main) with
                   cc -O1 -DNDEBUG -w -I"$BD" -I"$TREE/src" -c ...     and link with -lm -lpthread.
  README.txt  -- first line: a one-line title of the change; then: what was changed, why it breaks the property, what it needs to
                 manifest, and what you ran.
Before you finish: verify yourself that demo.sh exits 0 on a clean HEAD tree (use `git -C {wt} stash` / `stash pop`, or a second
`git worktree add --detach /tmp/wt/{pid}_scratch/clean HEAD` of {wt}, removed afterwards) and non-zero with your change, and that
the test suite passes with your change.  Leave your change applied in {wt}.  If during your work you notice that the UNCHANGED project
already violates the property on some input, add a section "OBSERVATION ON THE UNCHANGED TREE" to README.txt with the exact input.
Report briefly: the title, the files changed, and the results of the three verifications.
"""
    open(f'/tmp/wt/prompts/{pid}.txt', 'w').write(prompt)
    print(pid, len(taken), 'taken')
