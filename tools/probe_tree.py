#!/usr/bin/env python3
"""Diagnostic (not a registered check): dump the token tree of one source after a sequence of engine calls and name the first
TreeOK conjunct it breaks.   usage: probe_tree.py <ext> <ops,comma separated: parse|conv:<fmt>|export:<fmt>|data:<fmt>> <source (python escapes)>"""
import os, sys
sys.path.insert(0, os.path.dirname(os.path.abspath(__file__)))
from vlib import *  # noqa
import build, docs
from props.c15 import witness

ext = int(sys.argv[1]); ops = sys.argv[2].split(","); src = sys.argv[3].encode().decode("unicode_escape").encode("latin-1")
s = ["seg\ttree", line("src", "d", sx(src)), line("e_new", 0, "d", ext, 0)]
for o in ops:
    k, _, f = o.partition(":")
    if k == "parse": s.append(line("e_parse", 0))
    else: s.append(line({"conv": "e_conv", "export": "e_export", "data": "e_data"}[k], 0, docs.FMT[f]))
    s.append(line("e_tree", 0, o))
s.append(line("e_free", 0))
r = run_harness(build.build_harness("asan"), [s], timeout=60)[0]
print("status", r["status"], r.get("san", "")[:600])
for ev in r["events"]:
    if ev.get("e") == "tree":
        print(ev["when"], "nodes", ev["n"], "->", witness(ev))
