"""Turn lemon's own ParseTrace output into per-parser-instance event sequences (nested parses are properly bracketed in the stream)."""
import re


class TraceShapeError(Exception):
    pass


def sessions(text, tables):
    tok = {n: i for i, n in enumerate(tables["yyTokenName"])}
    rule = {}
    for i, n in enumerate(tables["yyRuleName"]):
        rule.setdefault(n, []).append(i)
    done, st = [], []     # finished sessions, stack of open sessions: dict(calls=[...], cur=call or None)
    for ln in text.split("\n"):
        if not ln:
            continue
        m = re.match(r"Input '(.*)'$", ln)
        if m:
            if st and st[-1]["cur"] is None:
                s = st[-1]
            else:
                s = dict(calls=[], cur=None); st.append(s)
            s["cur"] = dict(tok=tok[m.group(1)], fb=[], rules=[], out="ok", ret=None, shifts=[])
            continue
        if not st or st[-1]["cur"] is None:
            raise TraceShapeError("line outside a Parse call: " + ln)
        c = st[-1]["cur"]
        m = re.match(r"FALLBACK (\S+) => (\S+)$", ln)
        if m:
            c["fb"].append(tok[m.group(2)]); continue
        m = re.match(r"Reduce \[(.*)\], go to state (\d+)\.$", ln)
        if m:
            ids = rule.get(m.group(1))
            if not ids: raise TraceShapeError("unknown rule " + ln)
            c["rules"].append(ids if len(ids) > 1 else ids[0]); continue
        m = re.match(r"Shift '(.*)'(?:, go to state (\d+))?$", ln)
        if m:
            c["shifts"].append([tok[m.group(1)], int(m.group(2)) if m.group(2) else -1]); continue
        if ln == "Accept!": c["out"] = "accept"; continue
        if ln == "Syntax Error!": c["out"] = "syntax"; continue
        if ln == "Fail!": c["out"] = "fail"; continue
        if ln == "Stack Overflow!": c["out"] = "overflow"; continue
        if ln.startswith("Popping ") or ln.startswith("Stack grows") or ln.startswith("Discard input"):
            continue
        m = re.match(r"Return\. Stack=\[?(.*)\]$", ln)
        if m:
            names = m.group(1).split() if m.group(1) else []
            c["ret"] = [tok[x] for x in names]
            s = st[-1]; s["calls"].append(c); s["cur"] = None
            if c["tok"] == 0 or c["out"] in ("accept", "fail"):
                done.append(st.pop()["calls"])
            continue
        raise TraceShapeError("unrecognised trace line: " + ln)
    for s in st:     # sessions that never saw end of input (should not happen)
        if s["cur"] is not None:
            raise TraceShapeError("Parse call without Return")
        done.append(s["calls"] + [dict(tok=-1, fb=[], rules=[], out="open", ret=[], shifts=[])])
    return done


def own_trace(text, prefix="parser >>"):
    """the lines a parser wrote to stderr through its own <Name>Trace(stderr, prefix) call, prefix removed"""
    return "\n".join(ln[len(prefix):] for ln in text.split("\n") if ln.startswith(prefix))
