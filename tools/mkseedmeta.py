#!/usr/bin/env python3
"""(re)write seeded/<ID>-<n>/meta.json from the seed's files and a result log of tools/seedpar.sh / tools/seedall.sh (lines '<seed> rc=<n> key=...')"""
import json, os, re, sys
VERIF = os.path.dirname(os.path.dirname(os.path.abspath(__file__)))
log = {}
for ln in open(sys.argv[1]):
    m = re.match(r"(C\d\d-\d+) (?:check_)?rc=(\d+)\s*(?:key=(.*))?", ln.strip())
    if m: log[m.group(1)] = (int(m.group(2)), (m.group(3) or "").strip())
    m = re.match(r"(C\d\d-\d+) (patch-does-not-apply)", ln.strip())
    if m: log[m.group(1)] = (-1, m.group(2))
for s in sorted(os.listdir(os.path.join(VERIF, "seeded"))):
    d = os.path.join(VERIF, "seeded", s)
    if not os.path.isfile(os.path.join(d, "patch.diff")): continue
    mp = os.path.join(d, "meta.json")
    meta = json.load(open(mp)) if os.path.exists(mp) else {}
    meta.setdefault("seed", s); meta.setdefault("property", s.split("-")[0])
    meta["files"] = sorted(set(re.findall(r"^\+\+\+ b/(\S+)", open(os.path.join(d, "patch.diff")).read(), re.M)))
    if "needs" not in meta:
        rd = open(os.path.join(d, "README.txt"), errors="replace").read() if os.path.exists(os.path.join(d, "README.txt")) else ""
        m = re.search(r"(?is)(what it needs.*?|trigger.*?|needs.*?)\n\s*\n(.*?)(\n\s*\n|\Z)", rd)
        meta["needs"] = " ".join((m.group(2) if m else rd[:600]).split())[:700]
    n = int(s.split("-")[1])
    if not isinstance(meta.get("round"), str): meta["round"] = ((n + 1) // 2 if n <= 8 else n - 4)         # seeds 1-2: round 1, 3-4: round 2, 5-6: round 3, 7-8: round 4 (own seeds carry a text)
    meta.setdefault("confirmed", "tools/confirm_seed.sh: demo passes on /repo HEAD, patch applies, tools/run_repo_tests.sh prints PASSED 345 FAILED 0 with the patch, demo fails with the patch")
    if s in log:
        rc, key = log[s]
        if str(meta.get("result", "")).startswith("obsolete") and rc == 0: pass           # (a recorded reason why the change no longer has an effect stays)
        elif rc == 1: meta["result"] = "caught"; meta["first_signature"] = "key=" + key[:200]
        elif rc == 0: meta["result"] = "MISSED"
        elif rc == -1: meta["result"] = "obsolete: the patch no longer applies (the code it changes was repaired by a later fix: commit)"
        else: meta["result"] = "check-error rc=%d" % rc
        meta["ran"] = "tools/seedpar.sh (scratch worktree of /repo HEAD + patch, MMD6_REPO/VERIF_BUILD/VERIF_OUT private) -- same as tools/seedrun.sh on /repo"
    json.dump(meta, open(mp, "w"), indent=1); open(mp, "a").write("\n")
print("ok")
