#!/bin/bash
# import seeds written under /tmp/wt/<ID>/_mut/<n> into seeded/<ID>-<n>, confirm each (scratch worktree), then run the property's quick
# check against each with tools/seedpar.sh (scratch worktrees; /repo is not touched).   usage: importpar.sh <jobs> <ID>:<n> ...
J=$1; shift; cd /verif; dirs=""
for x in "$@"; do
  ID=${x%%:*}; n=${x##*:}; src=/tmp/wt/$ID/_mut/$n; dst=seeded/$ID-$n
  [ -f $src/patch.diff ] || { echo "$ID-$n no-patch"; continue; }
  mkdir -p $dst; cp -r $src/. $dst/
  c=$(tools/confirm_seed.sh $dst 2>&1 | tail -2 | tr '\n' ' ')
  if echo "$c" | grep -q CONFIRMED; then dirs="$dirs $dst"; else echo "$ID-$n NOT-CONFIRMED $c"; fi
done
[ -n "$dirs" ] && tools/seedpar.sh $J $dirs
