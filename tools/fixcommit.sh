#!/bin/bash
# commit the working-tree change of /repo as a fix: only when the repository's unedited suite passes.  usage: fixcommit.sh <message-file>
r=$(/verif/tools/run_repo_tests.sh /repo | tail -1)
[ "$r" = "PASSED 345 FAILED 0" ] || { echo "NOT COMMITTED: $r"; exit 1; }
git -C /repo commit -qa -F "$1" && git -C /repo log --oneline | head -1
