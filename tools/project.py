"""Oracle-free projections of outputs into events: zip archives, XML, UTF-8.  Deterministic functions of the bytes."""
import hashlib, io, re, zipfile, zlib
import xml.parsers.expat

UUID = re.compile(rb"[0-9a-fA-F]{8}-[0-9a-fA-F]{4}-[0-9a-fA-F]{4}-[0-9a-fA-F]{4}-[0-9a-fA-F]{12}")
DATE = re.compile(rb"\d{4}-\d\d-\d\dT\d\d:\d\d:\d\dZ?")
DCDATE = re.compile(rb"<dc:date>[^<]*</dc:date>")


def mask(b):
    b = UUID.sub(b"UUID", b)
    b = DATE.sub(b"DATE", b)
    b = DCDATE.sub(b"<dc:date>DATE</dc:date>", b)
    return b


def fnv(b):
    h = 1469598103934665603
    for c in b:
        h = ((h ^ c) * 1099511628211) & 0xFFFFFFFFFFFFFFFF
    return "%016x" % h


def sha(b):
    return hashlib.sha1(b).hexdigest()[:16]


def zip_members(data):
    """-> (ok, [dict(name, method, crc_ok, data)], error)"""
    try:
        z = zipfile.ZipFile(io.BytesIO(data))
    except Exception as ex:
        return False, [], "not a zip archive: %s" % ex
    out = []
    for zi in z.infolist():
        try:
            content = z.read(zi)      # verifies the CRC
            ok = True
        except Exception as ex:
            content = b""; ok = False
        out.append(dict(name=zi.filename, method="stored" if zi.compress_type == 0 else "deflated", crc_ok=ok, data=content, size=zi.file_size))
    return True, out, ""


def canon_pkg(data):
    """canonical digest of an archive: member names, in order, with uuid/date-masked contents"""
    ok, mem, err = zip_members(data)
    if not ok:
        return "notzip:" + sha(data), []
    h = hashlib.sha1()
    for m in mem:
        h.update(m["name"].encode()); h.update(b"\0"); h.update(m["method"].encode()); h.update(b"\0")
        h.update(hashlib.sha1(mask(m["data"])).digest())
    return "zip:" + h.hexdigest()[:16], mem


def xml_events(data, limit=200000):
    """well-formedness by expat; returns (ok, events, error). events: ('open', name, attrs) ('close', name) ('text', s)"""
    evs = []
    p = xml.parsers.expat.ParserCreate()
    p.StartElementHandler = lambda n, a: evs.append(("open", n, a))
    p.EndElementHandler = lambda n: evs.append(("close", n))
    p.CharacterDataHandler = lambda s: evs.append(("text", s))
    try:
        p.Parse(data, True)
        return True, evs, ""
    except xml.parsers.expat.ExpatError as ex:
        return False, evs, "%s (line %d col %d)" % (xml.parsers.expat.errors.messages[ex.code], ex.lineno, ex.offset)


def lat1(s):
    """harness strings are latin-1 views of bytes"""
    return s.encode("latin-1") if s is not None else None
