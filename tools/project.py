"""Oracle-free projections of outputs into events: zip archives, XML, UTF-8.  Deterministic functions of the bytes."""
import hashlib, io, re, zipfile, zlib
import xml.parsers.expat

UUID = re.compile(rb"[0-9a-fA-F]{8}-[0-9a-fA-F]{4}-[0-9a-fA-F]{4}-[0-9a-fA-F]{4}-[0-9a-fA-F]{12}")
DATE = re.compile(rb"\d{4}-\d\d-\d\dT\d\d:\d\d:\d\dZ?")
DCDATE = re.compile(rb"<dc:date>[^<]*</dc:date>")


def mask(b):
    b = UUID.sub(b"UUID", b)
    b = DATE.sub(b"DATE", b)
    b = DCDATE.sub(b"<dc:date>DATE</dc:date>", b)
    return b


def fnv(b):
    h = 1469598103934665603
    for c in b:
        h = ((h ^ c) * 1099511628211) & 0xFFFFFFFFFFFFFFFF
    return "%016x" % h


def sha(b):
    return hashlib.sha1(b).hexdigest()[:16]


def zip_members(data):
    """-> (ok, [dict(name, method, crc_ok, data)], error)"""
    try:
        z = zipfile.ZipFile(io.BytesIO(data))
    except Exception as ex:
        return False, [], "not a zip archive: %s" % ex
    out = []
    for zi in z.infolist():
        try:
            content = z.read(zi)      # verifies the CRC
            ok = True
        except Exception as ex:
            content = b""; ok = False
        out.append(dict(name=zi.filename, method="stored" if zi.compress_type == 0 else "deflated", crc_ok=ok, data=content, size=zi.file_size))
    return True, out, ""


def canon_pkg(data):
    """canonical digest of an archive: member names, in order, with uuid/date-masked contents"""
    ok, mem, err = zip_members(data)
    if not ok:
        return "notzip:" + sha(data), []
    h = hashlib.sha1()
    for m in mem:
        h.update(m["name"].encode()); h.update(b"\0"); h.update(m["method"].encode()); h.update(b"\0")
        h.update(hashlib.sha1(mask(m["data"])).digest())
    return "zip:" + h.hexdigest()[:16], mem


def xml_events(data, limit=200000):
    """well-formedness by expat; returns (ok, events, error). events: ('open', name, attrs) ('close', name) ('text', s)"""
    evs = []
    p = xml.parsers.expat.ParserCreate()
    p.StartElementHandler = lambda n, a: evs.append(("open", n, a))
    p.EndElementHandler = lambda n: evs.append(("close", n))
    p.CharacterDataHandler = lambda s: evs.append(("text", s))
    try:
        p.Parse(data, True)
        return True, evs, ""
    except xml.parsers.expat.ExpatError as ex:
        return False, evs, "%s (line %d col %d)" % (xml.parsers.expat.errors.messages[ex.code], ex.lineno, ex.offset)


def lat1(s):
    """harness strings are latin-1 views of bytes"""
    return s.encode("latin-1") if s is not None else None


# ---- markup nesting events --------------------------------------------------------------------------------------
import html.parser as _hp, re as _re
VOID = {"br", "hr", "img", "meta", "col", "link", "input", "area", "base", "embed", "source", "track", "wbr"}


class _Nest(_hp.HTMLParser):
    def __init__(self):
        super().__init__(convert_charrefs=True); self.ev = []; self.text = []

    def handle_starttag(self, tag, attrs):
        if tag not in VOID: self.ev.append(["o", tag])

    def handle_startendtag(self, tag, attrs):
        pass

    def handle_endtag(self, tag):
        if tag not in VOID: self.ev.append(["c", tag])

    def handle_data(self, d):
        self.text.append(d)


def html_nesting(data):
    p = _Nest()
    try:
        p.feed(data.decode("utf-8", errors="replace")); p.close()
        return True, p.ev, "".join(p.text)
    except Exception as ex:
        return False, [], ""


def xml_nesting(data):
    ok, evs, err = xml_events(data)
    return ok, [["o", e[1]] if e[0] == "open" else ["c", e[1]] for e in evs if e[0] in ("open", "close")], "".join(e[1] for e in evs if e[0] == "text")


_TEX = _re.compile(r"\\begin\{([^}]*)\}|\\end\{([^}]*)\}|\\verb(.)|\\.|\$\$|\$|[{}]|%[^\n]*", _re.S)


def latex_nesting(data):
    """\\begin/\\end environments and brace groups; escaped braces and comments skipped; verbatim-like environments opaque"""
    s = data.decode("utf-8", errors="replace"); ev = []; i = 0; verb = None
    while i < len(s):
        m = _TEX.search(s, i)
        if not m: break
        tok = m.group(0); i = m.end()
        if verb:
            if m.group(2) == verb: ev.append(["c", verb]); verb = None
            continue
        if m.group(1) is not None:
            ev.append(["o", m.group(1)])
            if m.group(1) in ("verbatim", "lstlisting", "Verbatim", "adjustwidth"): verb = m.group(1) if m.group(1) != "adjustwidth" else None
        elif m.group(2) is not None: ev.append(["c", m.group(2)])
        elif m.group(3) is not None:
            j = s.find(m.group(3), i); i = (j + 1) if j >= 0 else len(s)
        elif tok in ("\\(", "\\[", "$", "$$"):
            # math is the author's own LaTeX, passed through as written: opaque up to its closing delimiter
            close = {"\\(": "\\)", "\\[": "\\]", "$": "$", "$$": "$$"}[tok]
            j = s.find(close, i)
            while j > 0 and close[0] == "$" and s[j - 1] == "\\": j = s.find(close, j + 1)
            i = (j + len(close)) if j >= 0 else len(s)
        elif tok == "{": ev.append(["o", "{"])
        elif tok == "}": ev.append(["c", "{"])
    return True, ev, s


def skeleton(data):
    ok, evs, err = xml_events(data)
    if not ok: return False, "", err
    return True, sha(("/".join((e[0][0] + e[1]) for e in evs if e[0] in ("open", "close"))).encode()), ""
