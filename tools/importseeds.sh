#!/bin/bash
# import round-N seeds produced under /tmp/wt/<ID>/_mut/<n> into seeded/<ID>-<n>, confirm each, run the property's quick check against it
# usage: importseeds.sh <ID> <n>...
ID=$1; shift; cd /verif
for n in "$@"; do
  src=/tmp/wt/$ID/_mut/$n; dst=seeded/$ID-$n
  [ -f $src/patch.diff ] || { echo "$ID-$n no-patch"; continue; }
  mkdir -p $dst; cp -r $src/. $dst/
  c=$(tools/confirm_seed.sh $dst 2>&1 | tail -2 | tr '\n' ' ')
  if ! echo "$c" | grep -q CONFIRMED; then echo "$ID-$n NOT-CONFIRMED $c"; continue; fi
  out=$(tools/seedrun.sh $dst $ID quick 2>&1)
  key=$(echo "$out" | grep -m1 "^  key=" | cut -c1-200)
  rc=$(echo "$out" | grep -o "check_rc=[0-9]*")
  echo "$ID-$n confirmed $rc $key"
done
git -C /repo status --short | grep -v _build
