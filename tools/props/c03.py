"""C03 -- HTML rendering agrees with the documented Markdown/MultiMarkdown semantics; compositionality.

Html.tla is an executable reference for the unambiguous subset (paragraphs, ATX/Setext headings with ids, emphasis/strong, code spans, fenced and indented
code, block quotes, tight and loose bulleted/numbered lists, rules, hard breaks, inline and automatic links, images and figures, backslash escapes, entities,
super/subscript, smart punctuation), written from the syntax guides.  TLC enumerates every single block x inline x spelling, every (container, child) pair,
every ordered pair of independent blocks, and simulates random documents; each spelling x {MMD, compatibility} x smart on/off x {LF, CRLF} is rendered by the real
code, canonicalised (line breaks between elements removed outside <pre>) and compared by TLC with Render(doc).  Compositionality is checked directly: the
rendering of a document of independent blocks equals the concatenation of the renderings of its blocks, for every order.
"""
import itertools, json, os, random, re
from vlib import *  # noqa
import docs, project

LEVEL = "model_checking"
GEN = "CONSTANTS Sim = %s\n MaxBlocks = %d\n Family = \"%s\"\nINIT Init\nNEXT Next\nINVARIANTS CompLaw Emit\nCHECK_DEADLOCK FALSE\n"
E = docs.EXT
MODES = [("mmd", True, docs.STD), ("mmd", False, E["NOTES"] | E["CRITIC"]), ("compat", False, docs.COMPAT & ~E["OBFUSCATE"])]


def canon(b):
    s = (b or b"").decode("utf-8", errors="replace").replace("\r", "")
    out = []; i = 0
    def flat(x):
        x = re.sub(r"\n\t*", "", x)
        # white space at the edges of a table cell has no meaning in HTML: the cell's content is compared without it
        return re.sub(r"(<t[hd](?: [^>]*)?>)\s*(.*?)\s*(</t[hd]>)", r"\1\2\3", x)
    for m in re.finditer(r"<pre>.*?</pre>", s, re.S):
        out.append(flat(s[i:m.start()])); out.append(m.group(0)); i = m.end()
    out.append(flat(s[i:]))
    return "".join(out)


def has_inl(v, kinds):
    if isinstance(v, dict):
        return (v.get("k") in kinds and "x" in v) or any(has_inl(x, kinds) for x in v.values())
    if isinstance(v, list):
        return any(has_inl(x, kinds) for x in v)
    return False


def has_kind(d, kinds):
    for b in d:
        if b["k"] in kinds: return True
        if b["d"] and has_kind(b["d"], kinds): return True
    return False


def run(tier, seed):
    chk = Check("C03", LEVEL, tier, seed)
    rnd = random.Random(seed)
    chk.assumptions += ["oracle covers the constructs listed in the module header; outside the reference: nested lists, tables inside quotes, a footnote called twice, reference-style images",
                        "projection: canonical form = carriage returns removed, line feeds removed outside <pre>...</pre>", "compatibility mode has no fenced code, figures, super/subscript or heading ids; those constructs are compared in MMD mode only",
                        "adjacent blocks that merge by the syntax rules (list+list, list+indented, quote+quote, paragraph + '---') are excluded by the generator (Unambiguous)"]
    gs = tlc.run("Html", GEN % ("FALSE", 0, "single"), workers=NCPU, timeout=900)
    gp = tlc.run("Html", GEN % ("FALSE", 0, "pair"), workers=NCPU, timeout=900)
    gn = tlc.run("Html", GEN % ("FALSE", 0, "notes"), workers=NCPU, timeout=900)
    gb = tlc.run("Html", GEN % ("FALSE", 0, "big"), workers=4, timeout=900)
    if gb.violated or len(gb.printed) < 10: raise FrameworkError("Html(big): %s, %d documents" % (gb.violated, len(gb.printed)))
    gr = tlc.run("Html", GEN % ("TRUE", 5, "random"), workers=4, simulate=(100 if tier == "quick" else 1500), depth=7, seed=seed, timeout=900)
    if gs.violated or gp.violated or gr.violated or gn.violated: raise FrameworkError("Html: CompLaw violated on the reference itself")
    chk.cov["states"] = gs.distinct + gp.distinct; chk.cov["transitions"] = max(gs.generated + gp.generated, 1)
    cases = uniq(gs.printed + gp.printed + gn.printed + gb.printed + gr.printed, key=lambda c: c["src"])
    exe = build.build_harness("asan")
    segs = []; per = 12; meta = []
    for i in range(0, len(cases), per):
        s = ["seg\thtml", "wantout\t1"]
        for j, c in enumerate(cases[i:i + per]):
            s.append(line("src", "h%d" % j, sx(c["src"].encode())))
            s.append(line("src", "r%d" % j, sx(c["src"].replace("\n", "\r\n").encode())))
            for (mode, smart, x) in MODES:
                s.append(line("conv", "s_conv", "h%d" % j, 0, x, 0))
            s.append(line("conv", "s_conv", "r%d" % j, 0, docs.STD, 0))
        segs.append(s)
    # compositionality: documents of independent blocks, every permutation of 3, against the renderings of the single blocks
    indep = [c for c in gp.printed if len(c["d"]) == 2]
    singles = {}
    for c in indep:
        for b, srcb in zip(c["d"], c["src"].split("\n\n")):
            pass
    blocksrc = {}
    for c in gs.printed:
        if len(c["d"]) == 1 and c["sp"]["us"] is False and c["sp"]["lead"] == 0 and c["sp"]["closed"] == 0 and c["sp"]["ul"] == 5 and c["sp"]["fence"] == 3 and c["sp"]["hr"] == 1 and c["sp"]["bullet"] == "*" and c["sp"]["pipes"] is True:
            blocksrc[json.dumps(c["d"][0], sort_keys=True)] = c["src"]
    ib = sorted({json.dumps(b, sort_keys=True) for c in indep for b in c["d"]})
    ib = [k for k in ib if k in blocksrc]
    perms = []
    for tri in itertools.permutations(ib, 3):
        ks = [json.loads(k)["k"] for k in tri]
        if any(ks[a] == "para" and ks[a + 1] == "hr" for a in range(2)) or any(ks[a] == "indented" and ks[a + 1] == "indented" for a in range(2)) or any(ks[a] == "quote" and ks[a + 1] == "quote" for a in range(2)): continue
        perms.append(tri)
    if tier == "quick": perms = rnd.sample(perms, min(len(perms), 150))
    csegs = []
    for i in range(0, len(perms), per):
        s = ["seg\tcomp", "wantout\t1"]
        for j, tri in enumerate(perms[i:i + per]):
            s.append(line("src", "w%d" % j, sx("\n".join(blocksrc[k] for k in tri).encode())))
            s.append(line("conv", "s_conv", "w%d" % j, 0, docs.STD, 0))
            for q, k in enumerate(tri):
                s.append(line("src", "p%d_%d" % (j, q), sx(blocksrc[k].encode()))); s.append(line("conv", "s_conv", "p%d_%d" % (j, q), 0, docs.STD, 0))
        csegs.append(s)
    res = run_harness(exe, segs + csegs, timeout=30)
    trace = []; problems = []; n = 0
    for si, (seg, r) in enumerate(zip(segs, res[:len(segs)])):
        if r["status"] != "ok": problems.append(("crash", seg, r))
        trace.append(dict(e="reset"))
        for ev in r["events"]:
            if ev.get("e") != "conv": continue
            c = cases[si * per + int(ev["src"][1:])]
            crlf = ev["src"].startswith("r")
            mode, smart = ("mmd", True) if crlf else [(m, s2) for (m, s2, x) in MODES if x == ev["ext"]][0]
            if mode == "compat" and (has_kind(c["d"], ("fenced", "table", "deflist")) or has_inl(c["d"], ("math", "fn"))): continue
            n += 1
            trace.append(dict(e="html", null=ev["null"], d=c["d"], sp=c["sp"], src=c["src"], mode=mode, smart=smart, crlf=crlf, out=canon(project.lat1(ev.get("out")))))
    for si, (seg, r) in enumerate(zip(csegs, res[len(segs):])):
        if r["status"] != "ok": problems.append(("crash", seg, r))
        trace.append(dict(e="reset"))
        outs = {ev["src"]: canon(project.lat1(ev.get("out"))) for ev in r["events"] if ev.get("e") == "conv"}
        for j in range(per):
            if ("w%d" % j) not in outs: continue
            n += 1
            trace.append(dict(e="comp", null=False, whole=outs["w%d" % j], parts=[outs.get("p%d_%d" % (j, q), "?") for q in range(3)], src="\n".join(blocksrc[k] for k in perms[si * per + j])))
    acc, rejected, states, info = tlc.validate_trace("HtmlTrace", os.path.join(VERIF, "spec", "HtmlTrace.cfg"), trace, max_rejects=60, timeout=1500, independent=True, heap="12g")
    chk.add("traces_validated_against_impl", len(segs) + len(csegs) - len(problems))
    chk.add("trace_events_validated", acc)
    chk.cov["evaluations"] = n; chk.cov["distinct_nontrivial"] = len(cases) + len(perms)
    chk.cov["rule"] = "documents: every single block (23 inline forms alone and between words; headings x levels; code blocks) x its spelling variants; containers (quotes, tight/loose bulleted/numbered lists, list in quote, quote in list); every ordered pair of 9 independent blocks; simulated documents of <= 5 blocks; each x {MMD smart, MMD plain, compatibility} + CRLF spelling; compositionality: permutations of 3 independent blocks vs their single renderings"
    chk.sample(dict(src=cases[40]["src"])); chk.sample(dict(src=gr.printed[-1]["src"]))
    seen = {}
    for seg, idx in rejected:
        ev = seg[idx]
        if ev["e"] == "html":
            kinds = sorted({b["k"] for b in ev["d"]} | {b2["k"] for b in ev["d"] for b2 in b["d"]}); ik = sorted({i["k"] + ("/" + i["a"] if i["k"] in ("smart", "esc", "ent") else "") for b in ev["d"] for i in b["il"]} | {k for k in ("math", "fn", "ref") if has_inl(ev["d"], (k,))})
            causes = []
            if any(b["k"] == "setext" for b in ev["d"]) and ev["sp"]["ul"] == 1: causes.append("setext-underline-of-one-character")
            def q_ind(d): return any((b["k"] == "quote" and any(c["k"] == "indented" for c in b["d"])) or q_ind(b["d"]) for b in d)
            if q_ind(ev["d"]): causes.append("indented-code-in-quote")
            def has_list(d): return any(b["k"] == "list" or has_list(b["d"]) for b in d)
            if has_list(ev["d"]) and ev["sp"]["lead"] > 0: causes.append("indented-list-marker")
            key = ("html-differs:" + "+".join(causes)) if causes else "html-differs:%s%s:%s:%s" % (ev["mode"], "+crlf" if ev["crlf"] else ("+smart" if ev["smart"] else ""), "+".join(kinds), "+".join(k for k in ik if k != "t")[:60])
            desc = "rendering of %r [%s smart=%s crlf=%s] is %r" % (ev["src"], ev["mode"], ev["smart"], ev["crlf"], ev["out"][:300])
        else:
            key = "not-compositional"; desc = "document %r renders to %r but its blocks render to %s" % (ev["src"], ev["whole"][:200], ev["parts"])
        if key in seen: seen[key] += 1; continue
        seen[key] = 1
        chk.report(key, desc, dict(src=ev["src"], event={k: v for k, v in ev.items() if k not in ("d",)}))
    for kind, a, b in problems:
        k, f = san_signature(b.get("san", "")); key = "%s:%s:%s" % (b["status"], k, f)
        if key in seen: continue
        seen[key] = 1
        chk.report(key, "process ended :: %s" % b.get("san", "")[:300].replace("\n", " | "), dict(script=[x[:200] for x in a[:20]]))
    chk.cov["rejections_by_signature"] = seen
    return chk.finish()


def replay(path):
    print(open(path).read()[:3000]); return 0
