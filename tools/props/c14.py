"""C14 -- outline export is lossless and re-import reproduces the document.

Outline.tla: documents as outlines; Expected(doc) = the items the OPML must contain (title, depth by the open-level stack, note = source verbatim);
Partition/DepthOK are laws model-checked on the specification; Proper(doc) is the condition for the round trip.  TLC enumerates all level sequences
(<= 3 quick / <= 5 thorough sections over levels 1-4) with varied titles, bodies (every XML-reserved and whitespace character), preamble and metadata and
simulates larger ones.  The real -t opml output is parsed (expat: unescaping is the parser's) into items; the re-imported text is rendered; OutlineTrace
decides.  ITMZ mapdata gets the same item comparison.
"""
import json, os, random
from vlib import *  # noqa
import docs, project

LEVEL = "model_checking"
GEN = "CONSTANTS MaxSecs = %d\n MaxLevel = %d\n Sim = %s\nINIT Init\nNEXT Next\nINVARIANTS DepthOK Partition EmitInv\nCHECK_DEADLOCK FALSE\n"
UMAP = {"~E": "é", "~F": "\f", "~V": "\v", "~U": "\x1f"}


def enc(s):
    for k, v in UMAP.items(): s = s.replace(k, v)
    return s.encode("utf-8")


def dec(b):
    s = b.decode("utf-8", errors="replace") if isinstance(b, (bytes, bytearray)) else b
    for k, v in UMAP.items(): s = s.replace(v, k)
    return s


def opml_items(data):
    # form feed, vertical tab and 0x1F cannot be written in XML 1.0 at all (neither raw nor as a character reference): the outline is judged with the raw
    # bytes replaced by the specification's place-holders -- the library's own reader takes them as they are, and a reference such as '&#12;' stays an error
    for ph in ("~F", "~V", "~U"): data = data.replace(UMAP[ph].encode(), ph.encode())
    ok, evs, err = project.xml_events(data)
    if not ok: return False, [], err
    items = []; depth = 0; inbody = False
    for e in evs:
        if e[0] == "open":
            if e[1] == "body": inbody = True
            elif e[1] == "outline" and inbody:
                depth += 1
                items.append([depth, dec(e[2].get("text", "")), dec(e[2].get("_note", ""))])
        elif e[0] == "close":
            if e[1] == "outline" and inbody: depth -= 1
            elif e[1] == "body": inbody = False
    return True, items, ""


OPML_MC = "CONSTANTS MaxDepth = %d\n Worst = %s\nINIT GInit\nNEXT GNext\nINVARIANTS Parsed Fits\nVIEW GView\nCHECK_DEADLOCK FALSE\n"


def opml_parser_level(chk, tier, exported):
    """the import parser (opml-parser.c): the lemon driver of LemonParser over ITS tables (extracted from the tree under test) accepts every outline document nested
    to depth 6 -- any width, with/without xml declaration, head, title, preamble item, metadata item -- without syntax error or stack overflow; the deepest
    nesting its stack allows is measured; every Parse() call of real imports (lemon's own trace) is validated against the same driver"""
    sys.path.insert(0, os.path.join(VERIF, "specgen"))
    import lemon_tables, lemon, re as _re
    gd = os.path.join(BUILD, "specgen")
    tables = lemon_tables.generate_opml(gd)
    mc = tlc.run("OpmlParser", OPML_MC % (6 if tier == "quick" else 9, "FALSE"), workers=8, timeout=1200, want_printed=False, spec_dirs=(gd,), coverage=False)
    chk.cov["states"] += mc.distinct; chk.cov["transitions"] += mc.generated
    if mc.violated:
        chk.report("opml-parser:" + mc.violated, "the OPML import parser, driven over its own tables, does not parse every outline document of depth <= 6 (%s) :: %s" % (mc.violated, mc.cex[-1500:]), dict(tlc=mc.cex[-6000:]))
    lim = tlc.run("OpmlParser", OPML_MC % (200, "TRUE"), workers=1, timeout=600, want_printed=False, spec_dirs=(gd,))
    m = _re.findall(r"/\\ depth = (\d+)", lim.out)
    chk.cov["opml_parser"] = dict(states=mc.distinct, yystackdepth=tables["YYSTACKDEPTH"], deepest_nesting_parsed=(max(map(int, m)) - 1) if (lim.violated and m) else None)
    # conformance: real imports in the build with lemon's trace seam
    exe = build.build_harness("trace")
    sel = exported if tier == "thorough" else exported[:: max(1, len(exported) // 250)]
    segs = []; per = 25
    for i in range(0, len(sel), per):
        s = ["seg\topmlparse", "ptrace\t1"]
        for j, b in enumerate(sel[i:i + per]):
            s += [line("src", "o%d" % j, sx(b)), line("conv", "s_conv", "o%d" % j, docs.FMT["html"], docs.STD | docs.EXT["PARSE_OPML"], 0)]
        segs.append(s)
    res = run_harness(exe, segs, timeout=60)
    ltrace = []; nsess = 0
    for seg, r in zip(segs, res):
        if r["status"] != "ok":
            kd, f = san_signature(r.get("san", "")); chk.report("opml-import:%s:%s:%s" % (r["status"], kd, f), "import of an exported outline ended the process :: %s" % r.get("san", "")[:300].replace("\n", " | "), dict(script=[x[:200] for x in seg[:6]]))
            continue
        for ev in r["events"]:
            if ev.get("e") != "conv": continue
            a = lemon.own_trace(project.lat1(ev.get("stderr")).decode("utf-8", "replace") if ev.get("stderr") is not None else "")
            try:
                ss = lemon.sessions(a, tables)
            except lemon.TraceShapeError as ex:
                raise FrameworkError("OPML lemon trace not understood: %s" % ex)
            for s2 in ss:
                nsess += 1; ltrace.append(dict(e="reset"))
                for c in s2: ltrace.append(dict(e="feed", tok=c["tok"], rules=c["rules"], fb=c["fb"], out=c["out"], ret=c["ret"]))
    if nsess < len(sel) // 2: raise FrameworkError("OPML parser traces: %d sessions for %d imports" % (nsess, len(sel)))
    cfgt = "CONSTANTS MaxDepth = 6\n Worst = FALSE\nINIT TInit\nNEXT TNext\nINVARIANT TraceNeverRejects\nPOSTCONDITION TraceAccepted\nCHECK_DEADLOCK FALSE\n"
    acc, rej, st, info = tlc.validate_trace("OpmlLemonTrace", cfgt.replace("CONSTANTS MaxDepth = 6\n Worst = FALSE\n", ""), ltrace, spec_dirs=(gd,), timeout=1200, independent=True, max_rejects=6)
    chk.add("traces_validated_against_impl", nsess - len(rej))
    chk.cov["opml_parser"]["parser_instances_validated"] = nsess - len(rej); chk.cov["opml_parser"]["parse_calls"] = acc
    for seg, idx in rej[:1]:
        chk.report("opml-parser-trace", "a Parse() call of the real OPML import parser is not the step the driver takes over the extracted tables: %s" % json.dumps(seg[idx]), dict(session=seg[:idx + 1]))


def run(tier, seed):
    chk = Check("C14", LEVEL, tier, seed)
    rnd = random.Random(seed)
    chk.assumptions += ["control characters other than TAB, LF, CR (form feed, vertical tab, 0x1F in the body alphabet) have no XML 1.0 spelling: the exported outline is parsed with those raw bytes replaced by place-holders",
                        "XML unescaping of the exported OPML is done by expat (an independent XML parser), the import by the library",
                        "properly nested = first heading at level 1, no level skipped going down; metadata values single-line",
                        "heading titles do not end in '#'; one multi-byte place-holder substituted bijectively"]
    L, ML = (3, 3) if tier == "quick" else (5, 4)
    g = tlc.run("Outline", GEN % (L, ML, "FALSE"), workers=NCPU, timeout=1200, heap="16g")
    if g.violated: raise FrameworkError("Outline: law violated %s\n%s" % (g.violated, g.cex[-1500:]))
    chk.cov["states"] = g.distinct; chk.cov["transitions"] = max(g.generated, 1)
    gs = tlc.run("Outline", GEN % (8, 6, "TRUE"), workers=4, simulate=(60 if tier == "quick" else 800), depth=10, seed=seed, timeout=900)
    gt = tlc.run("Outline", (GEN % (0, 6, "FALSE")).replace("INIT Init", "INIT InitStairs"), workers=4, timeout=900)
    gc = tlc.run("Outline", (GEN % (0, 6, "FALSE")).replace("INIT Init", "INIT InitCut"), workers=2, timeout=900)          # documents that end right after a title
    if gt.violated or len(gt.printed) < 12: raise FrameworkError("Outline(stairs): %s, %d documents" % (gt.violated, len(gt.printed)))
    dl = uniq(g.printed + gs.printed + gt.printed + gc.printed, key=lambda d: d["src"])
    exe = build.build_harness("asan")
    segs = []; per = 20
    for i in range(0, len(dl), per):
        s = ["seg\topml", "wantout\t1"]
        for j, d in enumerate(dl[i:i + per]):
            s += [line("src", "d%d" % j, sx(enc(d["src"]))), line("conv", "s_conv", "d%d" % j, docs.FMT["opml"], docs.STD, 0), line("conv", "s_conv", "d%d" % j, docs.FMT["html"], docs.STD, 0)]
        segs.append(s)
    res = run_harness(exe, segs, timeout=30)
    opml = {}; html = {}; problems = []
    for si, (seg, r) in enumerate(zip(segs, res)):
        if r["status"] != "ok": problems.append(("crash", seg, r))
        for ev in r["events"]:
            if ev.get("e") == "conv":
                k = si * per + int(ev["src"][1:])
                if ev["fmt"] == docs.FMT["opml"]: opml[k] = project.lat1(ev["out"])
                else: html[k] = ev["digest"]
    # second pass: import the exported OPML (three families in turn) and render the result
    segs2 = []; idx2 = []
    ks = sorted(opml)
    for i in range(0, len(ks), per):
        s = ["seg\timport", "wantout\t0"]
        for j, k in enumerate(ks[i:i + per]):
            fam = "sde"[k % 3]
            s += [line("src", "o%d" % j, sx(opml[k])), line("opml2text", fam, "o%d" % j, "opml", "t%d" % j), line("conv", "s_conv", "t%d" % j, docs.FMT["html"], docs.STD, 0)]
        segs2.append(s)
    res2 = run_harness(exe, segs2, timeout=30)
    rt = {}; rtnull = {}
    for si, (seg, r) in enumerate(zip(segs2, res2)):
        if r["status"] != "ok": problems.append(("crash", seg, r))
        for ev in r["events"]:
            if ev.get("e") == "conv":
                rt[ks[si * per + int(ev["src"][1:])]] = ev["digest"]
            elif ev.get("e") == "import":
                rtnull[ks[si * per + int(ev["src"][1:])]] = ev["null"]
    opml_parser_level(chk, tier, [opml[k] for k in ks])
    trace = []
    for k, d in enumerate(dl):
        if k not in opml: continue
        ok, items, err = opml_items(opml[k])
        trace.append(dict(e="reset"))
        trace.append(dict(e="outline", doc=d["doc"], src=d["src"], wellformed=ok, items=items, rt_null=rtnull.get(k, True), html_src=html.get(k, "?"), html_rt=rt.get(k, "??"), xmlerr=err, proper=d["proper"]))
    acc, rejected, states, info = tlc.validate_trace("OutlineTrace", os.path.join(VERIF, "spec", "OutlineTrace.cfg"), trace, max_rejects=30, timeout=1500, independent=True)
    chk.add("traces_validated_against_impl", len(dl) - len(rejected))
    chk.cov["evaluations"] = len(dl); chk.cov["distinct_nontrivial"] = len([d for d in dl if len(d["doc"]["secs"]) >= 2])
    chk.cov["properly_nested"] = len([d for d in dl if d["proper"]])
    chk.cov["rule"] = "documents: TLC BFS over every level sequence of <= %d sections (levels 1..%d) x metadata {none, 1, 2 keys} x preamble {none, text}, with titles/bodies/styles varied by position; TLC simulation up to 8 sections, levels 1..6; deep stairs (levels 1..6 with 1-3 sections on every level, saw-tooth bottoms, up to 22 sections); non-trivial = at least two sections" % (L, ML)
    chk.sample(dict(src=dl[7]["src"])); chk.sample(dict(src=gs.printed[-1]["src"], proper=gs.printed[-1]["proper"]))
    seen = {}
    for seg, idx in rejected:
        ev = seg[idx]
        d = ev["doc"]
        if not ev["wellformed"]: key = "opml-not-wellformed"
        elif ev["rt_null"]: key = "import-no-result"
        else:
            if ev["html_rt"] == ev["html_src"]:
                key = "items-differ:meta%d:pre%d" % (d["m"], d["p"])
            elif any(s["t"] == 6 and s["style"] == "setext" for s in d["secs"]) and not any(s["t"] == 6 and s["style"] != "setext" for s in d["secs"]) and False:
                key = "x"
            else:
                # cause: which heading shapes occur (the importer rewrites every heading as ATX with closing hashes)
                shapes = sorted({"setext-title-ending-in-hash" if (s["t"] == 6 and s["style"] == "setext") else "ordinary" for s in d["secs"]})
                key = "roundtrip-renders-differently:%s" % ("+".join(x for x in shapes if x != "ordinary") or ("ordinary:meta%d" % d["m"]))
        if key in seen: seen[key] += 1; continue
        seen[key] = 1
        chk.report(key, "OPML of %r gave items %s (xml: %s); round trip html %s vs %s" % (ev["src"][:300], json.dumps(ev["items"])[:500], ev["xmlerr"], ev["html_rt"], ev["html_src"]), dict(src=ev["src"], items=ev["items"]))
    rej_ids = {id(seg[idx]) for seg, idx in rejected}
    for ev in trace:
        # events accepted through the named deviation SetextHashTitle of OutlineTrace
        if ev.get("e") == "outline" and id(ev) not in rej_ids and ev["html_rt"] != ev["html_src"] and ev["doc"] and any(s_["t"] == 6 and s_["style"] == "setext" for s_ in ev["doc"]["secs"]) and ev.get("proper", True):
            chk.report("roundtrip-renders-differently:setext-title-ending-in-hash", "OPML of %r: round trip html %s vs %s" % (ev["src"][:300], ev["html_rt"], ev["html_src"]), dict(src=ev["src"]))
    for kind, a, b in problems:
        k, f = san_signature(b.get("san", "")); key = "%s:%s:%s" % (b["status"], k, f)
        if key in seen: seen[key] += 1; continue
        seen[key] = 1
        chk.report(key, "process ended (%s) :: %s" % (b["status"], b.get("san", "")[:400].replace("\n", " | ")), dict(script=[x[:300] for x in a[:30]]))
    chk.cov["rejections_by_signature"] = seen
    return chk.finish()


def replay(path):
    print(open(path).read()[:3000]); return 0
