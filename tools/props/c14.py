"""C14 -- outline export is lossless and re-import reproduces the document.

Outline.tla: documents as outlines; Expected(doc) = the items the OPML must contain (title, depth by the open-level stack, note = source verbatim);
Partition/DepthOK are laws model-checked on the specification; Proper(doc) is the condition for the round trip.  TLC enumerates all level sequences
(<= 3 quick / <= 5 thorough sections over levels 1-4) with varied titles, bodies (every XML-reserved and whitespace character), preamble and metadata and
simulates larger ones.  The real -t opml output is parsed (expat: unescaping is the parser's) into items; the re-imported text is rendered; OutlineTrace
decides.  ITMZ mapdata gets the same item comparison.
"""
import json, os, random
from vlib import *  # noqa
import docs, project

LEVEL = "model_checking"
GEN = "CONSTANTS MaxSecs = %d\n MaxLevel = %d\n Sim = %s\nINIT Init\nNEXT Next\nINVARIANTS DepthOK Partition EmitInv\nCHECK_DEADLOCK FALSE\n"
UMAP = {"~E": "é"}


def enc(s):
    for k, v in UMAP.items(): s = s.replace(k, v)
    return s.encode("utf-8")


def dec(b):
    s = b.decode("utf-8", errors="replace") if isinstance(b, (bytes, bytearray)) else b
    for k, v in UMAP.items(): s = s.replace(v, k)
    return s


def opml_items(data):
    ok, evs, err = project.xml_events(data)
    if not ok: return False, [], err
    items = []; depth = 0; inbody = False
    for e in evs:
        if e[0] == "open":
            if e[1] == "body": inbody = True
            elif e[1] == "outline" and inbody:
                depth += 1
                items.append([depth, dec(e[2].get("text", "")), dec(e[2].get("_note", ""))])
        elif e[0] == "close":
            if e[1] == "outline" and inbody: depth -= 1
            elif e[1] == "body": inbody = False
    return True, items, ""


def run(tier, seed):
    chk = Check("C14", LEVEL, tier, seed)
    rnd = random.Random(seed)
    chk.assumptions += ["XML unescaping of the exported OPML is done by expat (an independent XML parser), the import by the library",
                        "properly nested = first heading at level 1, no level skipped going down; metadata values single-line",
                        "heading titles do not end in '#'; one multi-byte place-holder substituted bijectively"]
    L, ML = (3, 3) if tier == "quick" else (5, 4)
    g = tlc.run("Outline", GEN % (L, ML, "FALSE"), workers=NCPU, timeout=1200, heap="16g")
    if g.violated: raise FrameworkError("Outline: law violated %s\n%s" % (g.violated, g.cex[-1500:]))
    chk.cov["states"] = g.distinct; chk.cov["transitions"] = max(g.generated, 1)
    gs = tlc.run("Outline", GEN % (8, 6, "TRUE"), workers=4, simulate=(60 if tier == "quick" else 800), depth=10, seed=seed, timeout=900)
    gt = tlc.run("Outline", (GEN % (0, 6, "FALSE")).replace("INIT Init", "INIT InitStairs"), workers=4, timeout=900)
    if gt.violated or len(gt.printed) < 12: raise FrameworkError("Outline(stairs): %s, %d documents" % (gt.violated, len(gt.printed)))
    dl = uniq(g.printed + gs.printed + gt.printed, key=lambda d: d["src"])
    exe = build.build_harness("asan")
    segs = []; per = 20
    for i in range(0, len(dl), per):
        s = ["seg\topml", "wantout\t1"]
        for j, d in enumerate(dl[i:i + per]):
            s += [line("src", "d%d" % j, sx(enc(d["src"]))), line("conv", "s_conv", "d%d" % j, docs.FMT["opml"], docs.STD, 0), line("conv", "s_conv", "d%d" % j, docs.FMT["html"], docs.STD, 0)]
        segs.append(s)
    res = run_harness(exe, segs, timeout=30)
    opml = {}; html = {}; problems = []
    for si, (seg, r) in enumerate(zip(segs, res)):
        if r["status"] != "ok": problems.append(("crash", seg, r))
        for ev in r["events"]:
            if ev.get("e") == "conv":
                k = si * per + int(ev["src"][1:])
                if ev["fmt"] == docs.FMT["opml"]: opml[k] = project.lat1(ev["out"])
                else: html[k] = ev["digest"]
    # second pass: import the exported OPML (three families in turn) and render the result
    segs2 = []; idx2 = []
    ks = sorted(opml)
    for i in range(0, len(ks), per):
        s = ["seg\timport", "wantout\t0"]
        for j, k in enumerate(ks[i:i + per]):
            fam = "sde"[k % 3]
            s += [line("src", "o%d" % j, sx(opml[k])), line("opml2text", fam, "o%d" % j, "opml", "t%d" % j), line("conv", "s_conv", "t%d" % j, docs.FMT["html"], docs.STD, 0)]
        segs2.append(s)
    res2 = run_harness(exe, segs2, timeout=30)
    rt = {}; rtnull = {}
    for si, (seg, r) in enumerate(zip(segs2, res2)):
        if r["status"] != "ok": problems.append(("crash", seg, r))
        for ev in r["events"]:
            if ev.get("e") == "conv":
                rt[ks[si * per + int(ev["src"][1:])]] = ev["digest"]
            elif ev.get("e") == "import":
                rtnull[ks[si * per + int(ev["src"][1:])]] = ev["null"]
    trace = []
    for k, d in enumerate(dl):
        if k not in opml: continue
        ok, items, err = opml_items(opml[k])
        trace.append(dict(e="reset"))
        trace.append(dict(e="outline", doc=d["doc"], src=d["src"], wellformed=ok, items=items, rt_null=rtnull.get(k, True), html_src=html.get(k, "?"), html_rt=rt.get(k, "??"), xmlerr=err))
    acc, rejected, states, info = tlc.validate_trace("OutlineTrace", os.path.join(VERIF, "spec", "OutlineTrace.cfg"), trace, max_rejects=30, timeout=1500, independent=True)
    chk.add("traces_validated_against_impl", len(dl) - len(rejected))
    chk.cov["evaluations"] = len(dl); chk.cov["distinct_nontrivial"] = len([d for d in dl if len(d["doc"]["secs"]) >= 2])
    chk.cov["properly_nested"] = len([d for d in dl if d["proper"]])
    chk.cov["rule"] = "documents: TLC BFS over every level sequence of <= %d sections (levels 1..%d) x metadata {none, 1, 2 keys} x preamble {none, text}, with titles/bodies/styles varied by position; TLC simulation up to 8 sections, levels 1..6; deep stairs (levels 1..6 with 1-3 sections on every level, saw-tooth bottoms, up to 22 sections); non-trivial = at least two sections" % (L, ML)
    chk.sample(dict(src=dl[7]["src"])); chk.sample(dict(src=gs.printed[-1]["src"], proper=gs.printed[-1]["proper"]))
    seen = {}
    for seg, idx in rejected:
        ev = seg[idx]
        d = ev["doc"]
        if not ev["wellformed"]: key = "opml-not-wellformed"
        elif ev["rt_null"]: key = "import-no-result"
        else:
            if ev["html_rt"] == ev["html_src"]:
                key = "items-differ:meta%d:pre%d" % (d["m"], d["p"])
            elif any(s["t"] == 6 and s["style"] == "setext" for s in d["secs"]) and not any(s["t"] == 6 and s["style"] != "setext" for s in d["secs"]) and False:
                key = "x"
            else:
                # cause: which heading shapes occur (the importer rewrites every heading as ATX with closing hashes)
                shapes = sorted({"setext-title-ending-in-hash" if (s["t"] == 6 and s["style"] == "setext") else "ordinary" for s in d["secs"]})
                key = "roundtrip-renders-differently:%s" % ("+".join(x for x in shapes if x != "ordinary") or ("ordinary:meta%d" % d["m"]))
        if key in seen: seen[key] += 1; continue
        seen[key] = 1
        chk.report(key, "OPML of %r gave items %s (xml: %s); round trip html %s vs %s" % (ev["src"][:300], json.dumps(ev["items"])[:500], ev["xmlerr"], ev["html_rt"], ev["html_src"]), dict(src=ev["src"], items=ev["items"]))
    for kind, a, b in problems:
        k, f = san_signature(b.get("san", "")); key = "%s:%s:%s" % (b["status"], k, f)
        if key in seen: seen[key] += 1; continue
        seen[key] = 1
        chk.report(key, "process ended (%s) :: %s" % (b["status"], b.get("san", "")[:400].replace("\n", " | ")), dict(script=[x[:300] for x in a[:30]]))
    chk.cov["rejections_by_signature"] = seen
    return chk.finish()


def replay(path):
    print(open(path).read()[:3000]); return 0
