"""C16 -- valid UTF-8 in, valid UTF-8 out.

Utf8.tla: the well-formedness DFA, proved (TLC, all byte strings <= 3 over a representative alphabet) equivalent to the declarative definition by
encodings of scalar values; the code points whose encodings contain the bytes the lexer special-cases.  Utf8Gen: every such code point at every
character position of 31 construct spellings (with / without final newline), plus random pairs.  Each document x 6 textual formats x smart on/off x
rotating language is converted; the output is projected to its runs of non-ASCII bytes and TLC runs the DFA over every run (Utf8Trace).
"""
import json, os, random
from vlib import *  # noqa
import docs, project

LEVEL = "model_checking"
E = docs.EXT


def runs_of(b):
    out = []; cur = []
    for x in b:
        if x >= 128: cur.append(x)
        elif cur: out.append(cur); cur = []
    if cur: out.append(cur)
    return out


def run(tier, seed):
    chk = Check("C16", LEVEL, tier, seed)
    rnd = random.Random(seed)
    chk.assumptions += ["projection: outputs are cut into maximal runs of bytes >= 0x80 (an ill-formed sequence cannot span an ASCII byte); the DFA verdict on each run is TLC's"]
    law = tlc.run("Utf8", "INIT Init\nNEXT Next\nINVARIANTS DfaLaw EncLaw Export\nCHECK_DEADLOCK FALSE\n", workers=NCPU, timeout=600)
    if law.violated: raise FrameworkError("Utf8: DFA law violated: %s" % law.cex[:800])
    chk.cov["states"] = law.distinct; chk.cov["transitions"] = max(law.generated, 1)
    cps = {k: bytes(v) for k, v in [p for p in law.printed if isinstance(p, dict) and "cps" in p][0]["cps"].items()}
    g = tlc.run("Utf8Gen", "CONSTANT Sim = FALSE\nINIT GInit\nNEXT GNext\nINVARIANT Emit\nCHECK_DEADLOCK FALSE\n", workers=NCPU, timeout=900, heap="16g")
    gs = tlc.run("Utf8Gen", "CONSTANT Sim = TRUE\nINIT GInit\nNEXT GNext\nINVARIANT Emit\nCHECK_DEADLOCK FALSE\n", workers=4, simulate=(200 if tier == "quick" else 3000), depth=8, seed=seed, timeout=600)
    cases = [p for p in g.printed if "pre" in p]
    if tier == "quick":
        allc = cases; cases = rnd.sample(cases, 5000)
        # the metadata-for-packages and outline-import templates (the last two) are replayed at every position
        have = {(c["t"], c["p"], c["cp"], c["nl"]) for c in cases}
        cases += [c for c in allc if c["t"] >= 38 and c["nl"] and (c["t"], c["p"], c["cp"], c["nl"]) not in have]
    cases = cases + [p for p in gs.printed if "pre" in p]
    # long runs of multi-byte characters: headings, link titles and labels of 450-620 bytes travel through formatted writes (buffers of 256 / 512 / 1024 bytes)
    anycp = sorted(cps)[0]
    for n in list(range(80, 90)) + list(range(150, 210)) + list(range(335, 345)):
        for ch in ("\u4e2d", "\u00e9\u4e2d"):
            cases.append(dict(t=0, p=0, cp=anycp, cp2="", nl=True, pre="# " + ch * n + " ", post="\n\n[t](http://u.rl \"" + ch * n + "\") ![" + ch * (n // 2) + "](i.png)"))
    def body(c):
        return c["pre"].encode() + cps[c["cp"]] + (cps[c["cp2"]] if c["cp2"] else b"") + c["post"].encode() + (b"\n" if c["nl"] else b"")
    exe = build.build_harness("asan")
    fm = ["html", "latex", "beamer", "memoir", "fodt", "opml"]
    segs = []; per = 40
    for i in range(0, len(cases), per):
        s = ["seg\tutf8", "wantout\t1"]
        for j, c in enumerate(cases[i:i + per]):
            k = i + j
            s.append(line("src", "u%d" % j, sx(body(c))))
            for f in ((fm[k % 6], fm[(k + 3) % 6]) if tier == "quick" else fm):
                x = (docs.STD if (k + len(f)) % 2 else (E["NOTES"] | E["CRITIC"])) | (E["COMPLETE"] if k % 5 == 0 else 0)
                if body(c).startswith(b"<opml"): x |= E["PARSE_OPML"]          # (the text is an outline: imported first, then rendered)
                s.append(line("conv", "s_conv", "u%d" % j, docs.FMT[f], x, k % 7))
            if b"{~~" in body(c) or b"{++" in body(c):
                # the CriticMarkup accept / reject passes rewrite the text itself (what -a / -r do before anything is parsed)
                s.append(line("critic", "acc", "u%d" % j)); s.append(line("critic", "rej", "u%d" % j))
            if body(c).startswith((b"Title:", b"Key:")):
                # the packaged formats quote metadata in members of their own (package document, meta.xml, info.json, map data)
                for f in ("epub", "odt", "itmz", "bundlezip"):
                    s.append(line("conv", "s_data", "u%d" % j, docs.FMT[f], docs.STD, 0))
                # the metadata API rewrites the source: replace the value of the last key, of the first key, add a key -- the rewritten text must stay well formed
                for fam, key, val in (("s", "Author", "Bj\u00f6rk"), ("d", "other key", "x"), ("s", "Title", "\u4e2d"), ("d", "New", "caf\u00e9")):
                    s.append(line("meta", fam, "u%d" % j, "upd", sx(key), sx(val.encode("utf-8")), "v%d" % j))
        segs.append(s)
    res = run_harness(exe, segs, timeout=30)
    trace = []; problems = []; nconv = 0
    for si, (seg, r) in enumerate(zip(segs, res)):
        if r["status"] != "ok": problems.append(("crash", seg, r))
        trace.append(dict(e="reset"))
        for ev in r["events"]:
            if ev.get("e") == "meta" and ev.get("op") == "upd":
                k = si * per + int(ev["src"][1:]); c = cases[k]
                trace.append(dict(e="out", null=ev.get("text") is None, runs=runs_of((ev.get("text") or "").encode("latin-1")), srcruns=runs_of(body(c)) + [[0xc3, 0xb6], [0xe4, 0xb8, 0xad], [0xc3, 0xa9]], case=k, fmt=-1, ext=0))
                continue
            if ev.get("e") == "critic":
                k = si * per + int(ev["src"][1:]); c = cases[k]
                trace.append(dict(e="out", null=False, runs=runs_of((ev.get("text") or "").encode("latin-1")), srcruns=runs_of(body(c)), case=k, fmt=-2, ext=0))
                continue
            if ev.get("e") != "conv": continue
            k = si * per + int(ev["src"][1:]); c = cases[k]
            out = project.lat1(ev.get("out")) if ev.get("out") is not None else b""
            if docs.FMTNAME.get(ev["fmt"]) in ("epub", "odt", "itmz", "bundlezip"):
                # a package: every text member must be well-formed UTF-8 (member names, too)
                okz, mem, errz = project.zip_members(out)
                out = b"\x00".join([m["name"].encode("utf-8", "surrogateescape") + b"\x00" + m["data"] for m in mem if m["name"].endswith((".xml", ".xhtml", ".opf", ".json", ".markdown", ".html", ".ncx", "mimetype"))]) if okz else b"\xff"
            src = body(c)
            trace.append(dict(e="out", null=ev["null"], runs=runs_of(out), srcruns=runs_of(src), case=k, fmt=ev["fmt"], ext=ev["ext"]))
            nconv += 1
    acc, rejected, states, info = tlc.validate_trace("Utf8Trace", os.path.join(VERIF, "spec", "Utf8Trace.cfg"), trace, max_rejects=40, timeout=1500, independent=True)
    chk.add("traces_validated_against_impl", len(segs) - len(problems) - len({id(s) for s, i in rejected}))
    chk.cov["evaluations"] = nconv; chk.cov["distinct_nontrivial"] = len(cases)
    chk.cov["rule"] = "cases = (template, position, code point, final newline) for 37 construct spellings (metadata templates additionally through the metadata-update API) x every character position x 15 code points (quick: 5000 sampled) + random pairs of adjacent code points; x 2 (thorough 6) textual formats x smart on/off x 7 languages rotating"
    chk.sample(dict(doc=body(cases[0]).decode("utf-8"))); chk.sample(dict(doc=body(cases[-1]).decode("utf-8", "replace")))
    seen = {}
    for seg, idx in rejected:
        ev = seg[idx]; c = cases[ev["case"]]
        fname = "critic-accept-reject" if ev["fmt"] == -2 else docs.FMTNAME.get(ev["fmt"], "metadata-update")
        key = "invalid-utf8:%s:%s" % (fname, c["cp"])
        k2 = "invalid-utf8:%s:%s" % (c["cp"], "upd" if ev["fmt"] < 0 else "conv")
        if k2 in seen: seen[k2] += 1; continue
        seen[k2] = 1
        chk.report(key, "output of %r (format %s, ext %d) contains ill-formed UTF-8; non-ASCII runs: %s" % (body(c), fname, ev["ext"], ev["runs"][:6]), dict(source=body(c).decode("latin-1"), fmt=ev["fmt"], ext=ev["ext"]))
    for kind, a, b in problems:
        k, f = san_signature(b.get("san", "")); key = "%s:%s:%s" % (b["status"], k, f)
        if key in seen: continue
        seen[key] = 1
        chk.report(key, "process ended :: %s" % b.get("san", "")[:300].replace("\n", " | "), dict(script=[x[:200] for x in a[:20]]))
    return chk.finish()


def replay(path):
    print(open(path).read()[:3000]); return 0
