"""C12 -- accepting or rejecting CriticMarkup yields exactly the edited text.

Critic.tla: edit scripts as trees, three serialisers (Src, Accept, Reject), sub-range semantics, idempotence laws.  TLC enumerates every script of
<= 2 top-level items (nesting depth 2) and simulates scripts of up to 5 items with nesting depth 3; each x {accept, reject} x {whole string, every
item-boundary sub-range}; the text the real code leaves behind is validated byte for byte by CriticTrace.  CLI -a / -r are related to the plain
rendering of the pre-edited text through the Session oracle.
"""
import json, os, random, subprocess
from vlib import *  # noqa
import docs, project

LEVEL = "model_checking"
GEN = "CONSTANTS Sim = %s\n Big = %s\nINIT Init\nNEXT Next\nINVARIANTS Idempotent WholeIsRange Emit\nCHECK_DEADLOCK FALSE\n"


AC_CFG = 'CONSTANTS Alphabet = {%s}\n MaxKeyLen = %d\n MaxKeys = %d\n MaxText = %d\n Sim = %s\nINIT %s\nNEXT Next\nINVARIANTS %s\nCHECK_DEADLOCK FALSE\n'
CRIT_ALPHA = '"{", "}", "+", "-", "~", ">", "<", "="'


def ac_level(chk, tier, exe, seed):
    """The marker search accept/reject rest on (aho-corasick.c): AhoCorasick.tla model-checked -- every occurrence reported, in reading order; the filter sound for every key
    set and exactly leftmost-longest for the CriticMarkup key set -- and the same cases replayed on the real trie (AhoCorasickTrace)."""
    jobs = [("general", AC_CFG % ('"a", "b"', 3, 2 if tier == "quick" else 3, 5 if tier == "quick" else 6, "FALSE", "Init", "SearchComplete SearchOrdered FilterSound Emit")),
            ("critic-keys", AC_CFG % (CRIT_ALPHA, 3, 11, 4 if tier == "quick" else 5, "FALSE", "InitCritic", "SearchComplete SearchOrdered FilterIsLeftmostLongest Emit")),
            ("abc", AC_CFG % ('"a", "b", "c"', 2, 2, 4, "FALSE", "Init", "SearchComplete SearchOrdered FilterSound Emit"))]
    with concurrent.futures.ThreadPoolExecutor(3) as ex:
        outs = list(ex.map(lambda j: tlc.run("AhoCorasick", j[1], workers=5, timeout=1500, heap="8g"), jobs))
    cases = []
    for (nm, _), r in zip(jobs, outs):
        chk.cov["states"] += r.distinct; chk.cov["transitions"] += max(r.generated, 1)
        chk.cov["ac_mc_" + nm] = dict(cases=r.distinct, violated=r.violated)
        if r.violated:
            chk.report("ac-model:%s:%s" % (nm, r.violated), "AhoCorasick (%s): %s fails :: %s" % (nm, r.violated, r.cex[:1200]), dict(tlc=r.cex[:5000]))
        cases += r.printed
    gs = tlc.run("AhoCorasick", (AC_CFG % (CRIT_ALPHA, 3, 11, 4, "TRUE", "InitCriticSim", "FilterIsLeftmostLongest SearchComplete Emit")).replace("NEXT Next", "NEXT NextCriticSim"), workers=4,
                 simulate=(150 if tier == "quick" else 2500), depth=6, seed=seed, timeout=600)
    if gs.violated: chk.report("ac-model:critic-sim:" + gs.violated, "AhoCorasick (simulated CriticMarkup texts): %s fails :: %s" % (gs.violated, gs.cex[:1200]), dict(tlc=gs.cex[:5000]))
    cases = uniq(cases + gs.printed)
    rnd = random.Random(seed)
    if tier == "quick" and len(cases) > 12000: cases = rnd.sample(cases, 12000)
    if len(cases) < 2000: raise FrameworkError("AhoCorasick generated %d cases" % len(cases))
    per = 500; segs = []
    for i in range(0, len(cases), per):
        segs.append(["seg\tac"] + [line("ac", sx(",".join(c["keys"])), sx(c["text"]), c["start"], c["len"]) for c in cases[i:i + per]])
    res = run_harness(exe, segs, timeout=60)
    trace = []
    for i, r in enumerate(res):
        trace.append(dict(e="reset"))
        evs = [e for e in r["events"] if e.get("e") == "ac"]
        for c, e in zip(cases[i * per:(i + 1) * per], evs):
            trace.append(dict(e="ac", keys=c["keys"], text=c["text"], start=c["start"], len=c["len"], all=e["all"], sel=e["sel"]))
        if r["status"] != "ok":
            kd, f = san_signature(r.get("san", ""))
            chk.report("ac:%s:%s:%s" % (r["status"], kd, f), "aho-corasick.c on a model-generated case ended the process :: %s" % r.get("san", "")[:300].replace("\n", " | "), dict(script=[x[:200] for x in segs[i][-4:]]))
    cfgt = open(os.path.join(VERIF, "spec", "AhoCorasickTrace.cfg")).read().replace('{"a", "b"}', '{"a", "b", "c", %s}' % CRIT_ALPHA)
    acc, rej, st, info = tlc.validate_trace("AhoCorasickTrace", cfgt, trace, independent=True, max_rejects=8, timeout=1200, parallel=12)
    chk.add("traces_validated_against_impl", len(cases) - len(rej))
    chk.cov["ac_cases_replayed"] = len(cases)
    seen = set()
    for seg, idx in rej:
        ev = seg[idx]; key = "ac:search-or-filter-differs"
        if key in seen: continue
        seen.add(key)
        chk.report(key, "keys %s on text %r [%d,+%d): the real trie reports %s and selects %s, which is not what AhoCorasick prescribes" % (ev["keys"], ev["text"], ev["start"], ev["len"], ev["all"], ev["sel"]), dict(ev=ev))


def run(tier, seed):
    chk = Check("C12", LEVEL, tier, seed)
    rnd = random.Random(seed)
    chk.assumptions += ["an unmatched marker is generated at top level only, at most one per script, and only when no mark of its family occurs in the script (so it really is unmatched)",
                        "substitution payloads and comments are plain text; nesting only inside additions, deletions and highlights (as the property says)",
                        "sub-ranges start and end on item boundaries"]
    g = tlc.run("Critic", GEN % ("FALSE", "FALSE"), workers=NCPU, timeout=900, coverage=True)
    if g.violated: raise FrameworkError("Critic: specification law violated: %s" % g.violated)
    chk.cov["states"] = g.distinct; chk.cov["transitions"] = max(g.generated, 1)
    scripts = g.printed
    gs = tlc.run("Critic", GEN % ("TRUE", "TRUE"), workers=4, simulate=(40 if tier == "quick" else 400), depth=12, seed=seed, timeout=900)
    if gs.violated: raise FrameworkError("Critic(sim): specification law violated: %s" % gs.violated)
    scripts = uniq(scripts + gs.printed, key=lambda s: s["src"])
    if tier == "thorough":
        gb = tlc.run("Critic", GEN % ("FALSE", "TRUE"), workers=NCPU, timeout=1500, heap="16g")
        chk.cov["scripts_enumerated_big"] = len(gb.printed)
        big = gb.printed if len(gb.printed) <= 12000 else random.Random(seed).sample(gb.printed, 12000)       # TLC enumerates all; a seeded sample is replayed
        scripts = uniq(scripts + big, key=lambda s: s["src"])
    gd = tlc.run("Critic", GEN.replace("INIT Init", "INIT InitDeep") % ("FALSE", "FALSE"), workers=4, timeout=900)
    if gd.violated or len(gd.printed) < 10: raise FrameworkError("Critic(deep): %s, %d scripts" % (gd.violated, len(gd.printed)))
    scripts = uniq(scripts + gd.printed, key=lambda s: s["src"])
    exe = build.build_harness("asan")
    ac_level(chk, tier, exe, seed)
    cases = []
    for s in scripts:
        n = len(s["sc"])
        ranges = [(0, n)] + [(a, b) for a in range(0, n + 1) for b in range(a, n + 1) if (a, b) != (0, n)][: (3 if tier == "quick" else 12)]
        for (a, b) in ranges:
            for op in ("acc", "rej"):
                cases.append((s, a, b, op))
    # sub-ranges that start deep in the text: a long stretch of ordinary text (no brace in it, longer than the range itself) in front of the marks
    LEAD = "An introductory sentence without any markup, a good deal longer than the marks that follow it; and then some more words. "
    for k, s in enumerate(scripts):
        n = len(s["sc"])
        if n == 0 or n > 4 or len(s["src"]) > len(LEAD) - 10 or k % (5 if tier == "quick" else 1): continue
        s2 = dict(s, sc=[dict(t="txt", s=LEAD, c=[], o="", n="")] + list(s["sc"]), src=LEAD + s["src"])
        for (a, b) in [(1, n + 1), (1, 2), (n, n + 1)]:
            for op in ("acc", "rej"):
                cases.append((s2, a, b, op))
    segs = []; per = 60
    def off(s, a, b):
        # item offsets are the spec's business: TLC re-derives and checks them; here they are taken from the spec's own Src of the prefix (lengths of item sources)
        return None
    # item source lengths: ask TLC? they are implied by src; compute by re-serialising with the same grammar (checked again by CriticTrace)
    def srci(i):
        t = i["t"]
        if t == "txt" or t == "stray": return i["s"]
        if t == "add": return "{++" + srcs(i["c"]) + "++}"
        if t == "del": return "{--" + srcs(i["c"]) + "--}"
        if t == "hi": return "{==" + srcs(i["c"]) + "==}"
        if t == "sub": return "{~~" + i["o"] + "~>" + i["n"] + "~~}"
        if t == "com": return "{>>" + i["s"] + "<<}"
    def srcs(sc): return "".join(srci(i) for i in sc)
    for i in range(0, len(cases), per):
        sl = ["seg\tcritic"]
        for j, (s, a, b, op) in enumerate(cases[i:i + per]):
            start = len(srcs(s["sc"][:a])); ln = len(srcs(s["sc"][a:b]))
            sl.append(line("src", "c%d" % j, sx(s["src"])))
            if (a, b) == (0, len(s["sc"])):
                sl.append(line("critic", op, "c%d" % j, "-", "-", "r%d" % j)); sl.append(line("critic", op, "r%d" % j))
            else:
                sl.append(line("critic", op, "c%d" % j, start, ln, "r%d" % j))
        segs.append(sl)
    res = run_harness(exe, segs, timeout=30)
    trace = []; problems = []
    for si, (seg, r) in enumerate(zip(segs, res)):
        if r["status"] != "ok":
            problems.append(("crash", seg, r)); continue
        evs = [e for e in r["events"] if e.get("e") == "critic"]
        k = 0
        trace.append(dict(e="reset"))
        for j, (s, a, b, op) in enumerate(cases[si * per:(si + 1) * per]):
            whole = (a, b) == (0, len(s["sc"]))
            e1 = evs[k]; k += 1
            tw = e1["text"]
            if whole:
                tw = evs[k]["text"]; k += 1
            trace.append(dict(e="critic", op=op, sc=s["sc"], src=s["src"], **{"from": a, "to": b}, start=len(srcs(s["sc"][:a])), len=len(srcs(s["sc"][a:b])),
                              text=e1["text"], twice=tw, strlen=e1["strlen"]))
    acc, rejected, states, info = tlc.validate_trace("CriticTrace", os.path.join(VERIF, "spec", "CriticTrace.cfg"), trace, max_rejects=40, timeout=1500, independent=True)
    chk.add("traces_validated_against_impl", len(segs) - len(problems) - len(rejected))
    chk.add("trace_events_validated", acc)
    # CLI: -a / -r render what the edited text renders to
    cli = build.build_cli(); wd = scratch("c12"); ctrace = []
    try:
        sel = rnd.sample(scripts, min(len(scripts), 120 if tier == "quick" else 1500))
        def one(a):
            i, s = a
            env = san_env(os.path.join(wd, "cli%d.san" % i)); out = []
            for extra in ([], ["-c"]):          # accept / reject combine with the other options (here: compatibility mode)
                for flag, op in (("-a", "acc"), ("-r", "rej")):
                    p1 = subprocess.run([cli] + extra + [flag], input=s["src"].encode(), stdout=subprocess.PIPE, stderr=subprocess.PIPE, env=env, timeout=30)
                    out.append((op + "".join(extra), p1.stdout, p1.returncode))
            return out
        with concurrent.futures.ThreadPoolExecutor(NCPU) as ex:
            couts = list(ex.map(one, list(enumerate(sel))))
        # the pre-edited text comes from the real accept/reject (already validated against the spec above) of the same source
        edited = {}
        for ev in trace:
            if ev["e"] == "critic" and ev["from"] == 0 and ev["to"] == len(ev["sc"]): edited[(ev["src"], ev["op"])] = ev["text"]
        def plain(a):
            i, s, op = a
            env = san_env(os.path.join(wd, "clip%d.san" % i))
            p = subprocess.run([cli] + (["-c"] if op.endswith("-c") else []), input=edited[(s["src"], op[:3])].encode("latin-1"), stdout=subprocess.PIPE, stderr=subprocess.PIPE, env=env, timeout=30)
            return p.stdout
        jobs = [(i, s, op) for i, s in enumerate(sel) for op in ("acc", "rej", "acc-c", "rej-c")]
        with concurrent.futures.ThreadPoolExecutor(NCPU) as ex:
            pouts = list(ex.map(plain, jobs))
        pi = 0
        for (i, s), outs in zip(enumerate(sel), couts):
            for (op, b, rc) in outs:
                ctrace.append(dict(e="reset"))
                key = "%s|%s" % (s["src"], op)
                ctrace.append(dict(e="conv", fam="plain_of_edited", src="", key=key, digest=project.fnv(pouts[pi]), det=True, null=False, srcsame=True, inplace=False, wrote=False, needfile=False, rng=0, rand=0, len=len(pouts[pi])))
                ctrace.append(dict(e="conv", fam="cli" + op, src="", key=key, digest=project.fnv(b), det=True, null=rc != 0, srcsame=True, inplace=False, wrote=False, needfile=False, rng=0, rand=0, len=len(b)))
                pi += 1
    finally:
        shutil.rmtree(wd, ignore_errors=True)
    acc2, rej2, st2, info2 = tlc.validate_trace("SessionTrace", os.path.join(VERIF, "spec", "SessionTrace.cfg"), ctrace, max_rejects=10)
    chk.add("traces_validated_against_impl", len(sel) * 4 - len(rej2))
    chk.cov["evaluations"] = len(cases) + 4 * len(sel)
    chk.cov["distinct_nontrivial"] = len(scripts)
    chk.cov["rule"] = ("scripts: TLC BFS of every script with <= 2 top-level items over text/comment/substitution leaves, additions/deletions/highlights of <= 1 leaf (thorough: <= 2 leaves, more texts), "
                       "doubly nested single marks, one unmatched marker; runs of 3..2500 unmatched opening markers followed by well-formed marks of the other families; TLC simulation of 1-5 items with nesting depth 3; cases = script x {accept, reject} x {whole, item-boundary sub-ranges}")
    chk.sample(dict(src=scripts[3]["src"])); chk.sample(dict(src=gs.printed[-1]["src"], sc=gs.printed[-1]["sc"]))
    seen = {}
    for seg, idx in rejected:
        ev = seg[idx]
        kinds = sorted({i["t"] for i in ev["sc"]} | {c["t"] for i in ev["sc"] for c in i["c"]})
        strays = [i["s"] for i in ev["sc"] if i["t"] == "stray"]
        idem = "not-idempotent" if (ev["text"] != ev["twice"]) else "wrong-text"
        key = "%s:%s:%s" % (idem, ev["op"], ("stray " + (strays[0] if len(strays[0]) < 8 else strays[0][:3] + "-run")) if strays else "+".join(k for k in kinds if k != "txt"))
        if key in seen: seen[key] += 1; continue
        seen[key] = 1
        chk.report(key, "%s of %r (items %d..%d) left %r" % (ev["op"], ev["src"], ev["from"], ev["to"], ev["text"]), dict(src=ev["src"], op=ev["op"], frm=ev["from"], to=ev["to"], got=ev["text"]))
    for seg, idx in rej2:
        ev = seg[idx]; key = "cli-differs:" + ev["fam"]
        if key in seen: seen[key] += 1; continue
        seen[key] = 1
        chk.report(key, "command line %s renders differently from the plain rendering of the edited text for %r" % (ev["fam"], ev["key"]), dict(key=ev["key"]))
    for kind, a, b in problems:
        k, f = san_signature(b.get("san", "")); key = "%s:%s:%s" % (b["status"], k, f)
        if key in seen: continue
        seen[key] = 1
        chk.report(key, "process ended (%s) :: %s" % (b["status"], b.get("san", "")[:300].replace("\n", " | ")), dict(script=a[:40]))
    chk.cov["rejections_by_signature"] = seen
    return chk.finish()


def replay(path):
    print(open(path).read()[:3000]); return 0
