"""C13 -- transclusion terminates on any include graph and substitutes exactly.

Transclude.tla mirrors mmd_transclude_source as a state machine with an explicit call stack.  TLC explores EVERY file system of the bounded shape
(2 files quick / 3 files thorough, each `text x text y` with x, y a marker to any file, to a missing file, or nothing; optional metadata): bounded
stack and output, termination (liveness under weak fairness), duplicate-free manifest, and for acyclic graphs equality with the declarative
substitution Subst and completeness of the manifest.  Every enumerated file system is then materialised in a scratch directory and run through
mmd_transclude_source, the three manifest API families and the command line under a watchdog; TranscludeTrace re-runs the machine on the same
file system and demands the same text and manifest.  Hand-written scenarios add nested directories, `transclude base`, absolute paths, `.*`
wildcards per format and marker lengths around the 1000-byte cap.
"""
import json, os, random, subprocess
from vlib import *  # noqa
import docs

LEVEL = "model_checking"
CFG = """CONSTANTS Names = {%s}
 Sim = %s
 Emitting = %s
%s
INVARIANTS StackBounded OutputBounded NoDupManifest ExactWhenAcyclic ManifestComplete Emit
%s
CHECK_DEADLOCK FALSE
"""
N2 = '"a.txt", "b.txt"'; N3 = '"a.txt", "b.txt", "c.txt"'


def T(s): return dict(k="t", s=s)
def M(s): return dict(k="m", s=s)


def hand_scenarios():
    """file systems with directories, transclude base, absolute paths, wildcards, long markers (fmt, root, fs)"""
    F = lambda atoms, meta=False, base="": dict(atoms=atoms, meta=meta, base=base)
    out = []
    out.append(("html", "R/a.txt", {"R/a.txt": F([T("A "), M("sub/b.txt"), T(" A2\n")]), "R/sub/b.txt": F([T("B "), M("c.txt"), T("\n")]), "R/c.txt": F([T("Ctop\n")]), "R/sub/c.txt": F([T("Csub\n")])}))
    out.append(("html", "R/a.txt", {"R/a.txt": F([T("A "), M("sub/b.txt"), T(" A2\n")]), "R/sub/b.txt": F([T("B "), M("c.txt"), T("\n")], True, "inner"), "R/c.txt": F([T("Ctop\n")]), "R/sub/c.txt": F([T("Csub\n")]), "R/sub/inner/c.txt": F([T("Cinner\n")])}))
    out.append(("html", "R/a.txt", {"R/a.txt": F([T("A "), M("b.txt"), T("\n")], True, "sub"), "R/sub/b.txt": F([T("Bsub\n")]), "R/b.txt": F([T("Btop\n")])}))
    for fmt in ("html", "latex", "fodt", "mmd", "opml", "beamer"):
        out.append((fmt, "R/a.txt", {"R/a.txt": F([T("A "), M("b.*"), T(" "), M("a.*"), T("\n")]), "R/b.html": F([T("Bhtml "), M("b.*")]), "R/b.tex": F([T("Btex")]), "R/b.fodt": F([T("Bfodt")]),
                                      "R/b.txt": F([T("Btxt")]), "R/b.*": F([T("Bstar")]), "R/a.html": F([T("loop "), M("a.*")]), "R/a.tex": F([T("looptex "), M("a.tex")])}))
    out.append(("html", "R/a.txt", {"R/a.txt": F([T("A "), M("@ABS@/R/deep/x.txt"), T("\n")]), "R/deep/x.txt": F([T("X "), M("y.txt")]), "R/y.txt": F([T("Ytop")]), "R/deep/y.txt": F([T("Ydeep")])}))
    for n in (996, 997, 998, 999, 1000, 1001, 1098, 1099, 1100, 1101, 1500):
        out.append(("html", "R/a.txt", {"R/a.txt": F([T("L "), M("n" * n), T(" after "), M("b.txt"), T("\n")]), "R/b.txt": F([T("B")])}))
    # size boundaries of included files: empty, one byte, exactly a newline; nested and shared
    out.append(("html", "R/a.txt", {"R/a.txt": F([T("A"), M("empty.txt"), T("B "), M("one.txt"), T(" "), M("nl.txt"), T("C "), M("mid.txt"), T("\n")]), "R/empty.txt": F([]), "R/one.txt": F([T("x")]),
                                    "R/nl.txt": F([T("\n")]), "R/mid.txt": F([M("empty.txt"), M("empty.txt"), T("m"), M("one.txt")])}))
    out.append(("latex", "R/a.txt", {"R/a.txt": F([M("e.*"), T("|"), M("e.*"), T("\n")]), "R/e.tex": F([])}))
    # base overrides that start with a dot but are not ".": resolved by the file system relative to the including file's folder
    for b in ("./sub", "../R/sub", "sub/../sub", "./", "."):
        out.append(("html", "R/a.txt", {"R/a.txt": F([T("A "), M("b.txt"), T(" end\n")], True, b), "R/sub/b.txt": F([T("Bsub "), M("c.txt")]), "R/b.txt": F([T("Btop "), M("c.txt")]), "R/sub/c.txt": F([T("Csub")]), "R/c.txt": F([T("Ctop")])}))
    out.append(("html", "R/doc/a.txt", {"R/doc/a.txt": F([T("A "), M("x.txt"), T(" end\n")], True, "../shared"), "R/shared/x.txt": F([T("SHARED")]), "R/doc/x.txt": F([T("DECOY")])}))
    # metadata with an un-indented continuation line before further keys (the base override among them)
    out.append(("html", "R/a.txt", {"R/a.txt": F([T("A "), M("m.txt"), T(" end\n")]), "R/m.txt": dict(F([T("M "), M("leaf.txt"), T("\n")], True, "sub"), cont=1), "R/sub/leaf.txt": F([T("LEAFSUB")]), "R/leaf.txt": F([T("LEAFTOP")])}))
    out.append(("latex", "R/a.txt", {"R/a.txt": F([T("A "), M("m.txt"), T(" end\n")]), "R/m.txt": dict(F([T("M body\n")], True), cont=1)}))
    # the base override as the first, or the only, key of the block -- in the top-level file and in an included one
    for fi in (1, 2):
        out.append(("html", "R/a.txt", {"R/a.txt": dict(F([T("A "), M("b.txt"), T(" end\n")], True, "sub"), first=fi), "R/sub/b.txt": F([T("Bsub")]), "R/b.txt": F([T("Btop")])}))
        out.append(("html", "R/a.txt", {"R/a.txt": F([T("A "), M("m.txt"), T(" end\n")]), "R/m.txt": dict(F([T("M "), M("leaf.txt"), T("\n")], True, "sub"), first=fi), "R/sub/leaf.txt": F([T("LEAFSUB")]), "R/leaf.txt": F([T("LEAFTOP")])}))
    # files whose first line starts with an address (scheme://...): that line has a colon in it but is text, not metadata -- as an included file and as the top-level one
    for sch in ("http://e.org/x", "ftp://host/f", "svn+ssh://h/r"):
        out.append(("html", "R/a.txt", {"R/a.txt": F([T("A "), M("u.txt"), T(" end\n")]), "R/u.txt": F([T(sch + " opens the first paragraph "), M("leaf.txt"), T("\nsecond line\n\nrest\n")]), "R/leaf.txt": F([T("LEAF")])}))
        out.append(("html", "R/a.txt", {"R/a.txt": F([T(sch + " first words "), M("leaf.txt"), T(" end\n\nmore "), M("leaf.txt"), T("\n")]), "R/leaf.txt": F([T("LEAF")])}))
    # included files with a large metadata block (its size must not matter): the base override comes after a long value
    for pad in (200, 3000, 4090, 5000, 9000):
        out.append(("html", "R/a.txt", {"R/a.txt": F([T("A "), M("big.txt"), T(" end\n")]), "R/big.txt": dict(F([T("B "), M("leaf.txt"), T("\n")], True, "sub"), pad=pad), "R/sub/leaf.txt": F([T("LEAFSUB")]), "R/leaf.txt": F([T("LEAFTOP")])}))
    # many files: a top-level file that refers to n distinct files (the manifest and the stack of files being parsed grow past their first allocation of 64 entries),
    # and chains n files deep whose last file refers back to files that are being parsed (near the top, in the middle, its own parent)
    for n in (63, 64, 65, 66, 129, 130):
        fsw = {"R/a.txt": F(sum([[M("w%03d.txt" % k), T(" ")] for k in range(1, n + 1)], []) + [T("end\n")])}
        for k in range(1, n + 1): fsw["R/w%03d.txt" % k] = F([T("W%d" % k)] + ([M("w001.txt")] if k == n else []))
        out.append(("html", "R/a.txt", fsw))
    for n in (62, 63, 64, 65, 66, 67, 130):
        fsc = {"R/a.txt": F([T("A["), M("c001.txt"), T("]\n")])}
        for k in range(1, n + 1):
            nxt = [M("c%03d.txt" % (k + 1))] if k < n else [M("c001.txt"), T("|"), M("c%03d.txt" % max(1, n // 2)), T("|"), M("c%03d.txt" % max(1, n - 1)), T("|"), M("a.txt")]
            fsc["R/c%03d.txt" % k] = F([T("c%d[" % k)] + nxt + [T("]")])
        out.append(("html", "R/a.txt", fsc))
    out.append(("html", "R/a.txt", {"R/a.txt": F([T("toc "), M("TOC"), T(" "), M("b.txt"), T("\n")]), "R/b.txt": F([T("B "), M("TOC")])}))
    out.append(("html", "R/a.txt", {"R/a.txt": F([T("A "), M("b.txt"), M("b.txt"), T(" "), M("c.txt")]), "R/b.txt": F([M("c.txt"), T("B")], True), "R/c.txt": F([T("C"), M("a.txt")], True)}))
    return out


def files_of(fs):
    out = {}
    for p, f in fs.items():
        if f["meta"] and "first" in f:
            out[p] = "Transclude Base: %s\n" % f["base"] + ("Title: t\n" if f["first"] == 2 else "") + "\n" + "".join(("{{%s}}" % a["s"]) if a["k"] == "m" else a["s"] for a in f["atoms"]); continue
        meta = ("Title: t\n" + ("Author: Jane\nDoe and others\nDate: 2020\n" if "cont" in f else "") + ("Abstract: %s\n" % ("x" * f["pad"]) if "pad" in f else "") + ("Transclude Base: %s\n" % f["base"] if f["base"] else "") + "\n") if f["meta"] else ""
        out[p] = meta + "".join(("{{%s}}" % a["s"]) if a["k"] == "m" else a["s"] for a in f["atoms"])
    return out


def run(tier, seed):
    chk = Check("C13", LEVEL, tier, seed)
    rnd = random.Random(seed)
    chk.assumptions += ["a 10 s watchdog per call stands for 'does not terminate'", "file names are ASCII; the scratch directory is replaced by the symbolic root R/ when comparing manifests",
                        "self-inclusion expands once: the root file itself is not on the parse stack (modelled as the code does it)"]
    names = N2 if tier == "quick" else N3
    mc = tlc.run("TranscludeMC", CFG % (names, "FALSE", "FALSE", "INIT Init\nNEXT Next", ""), workers=NCPU, timeout=1500, heap="24g", coverage=False)
    if mc.violated: raise FrameworkError("Transclude machine violates %s:\n%s" % (mc.violated, mc.cex[-1500:]))
    lv = tlc.run("TranscludeMC", CFG % (N2, "FALSE", "FALSE", "SPECIFICATION FairSpec", "PROPERTY Terminates"), workers=NCPU, timeout=1500)
    if lv.violated: raise FrameworkError("Transclude machine does not terminate: %s" % lv.cex[-1500:])
    chk.cov["states"] = mc.distinct; chk.cov["transitions"] = mc.generated
    chk.cov["mc"] = dict(file_systems_explored="all of the bounded shape over {%s}" % names, distinct=mc.distinct, depth=mc.depth, liveness_states=lv.distinct, exhaustive=True)
    g = tlc.run("TranscludeMC", CFG % (N2 if tier == "quick" else N3, "FALSE", "TRUE", "INIT Init\nNEXT Next", ""), workers=NCPU, timeout=1500, heap="24g")
    fss = [("html", "R/a.txt", p["fs"], p["files"]) for p in g.printed]
    if tier == "quick":
        g3 = tlc.run("TranscludeMC", CFG % (N3, "TRUE", "TRUE", "INIT Init\nNEXT Next", ""), workers=4, simulate=100, depth=60, seed=seed, timeout=600)
        fss += [("html", "R/a.txt", p["fs"], p["files"]) for p in g3.printed]
    elif len(fss) > 6000:
        fss = rnd.sample(fss, 6000)
    gd = tlc.run("TranscludeRich", "CONSTANT Mode = \"diamond\"\nINIT Init\nNEXT Next\nINVARIANTS StackBounded NoDupManifest Emit\nCHECK_DEADLOCK FALSE\n", workers=NCPU, timeout=900)
    if gd.violated: raise FrameworkError("TranscludeRich(diamond): machine violates %s\n%s" % (gd.violated, gd.cex[-1200:]))
    gr = tlc.run("TranscludeRich", "CONSTANT Mode = \"random\"\nINIT Init\nNEXT Next\nINVARIANTS StackBounded NoDupManifest Emit\nCHECK_DEADLOCK FALSE\n", workers=4, simulate=(100 if tier == "quick" else 1500), depth=80, seed=seed, timeout=900)
    if gr.violated: raise FrameworkError("TranscludeRich: machine violates %s\n%s" % (gr.violated, gr.cex[-1200:]))
    dia = gd.printed if tier == "thorough" else rnd.sample(gd.printed, 600)
    rich = [("html", "/R/a.txt", p["fs"], p["files"]) for p in gr.printed + dia]
    hs = hand_scenarios()
    exe = build.build_harness("asan"); cli = build.build_cli()
    wd = scratch("c13")
    trace = []; problems = []
    try:
        cases = []
        for i, (fmt, root, fs, files) in enumerate([(a, b, c, None) for a, b, c in hs] + fss + rich):
            d = os.path.join(wd, "f%d" % i)
            files = files or files_of(fs)
            fs2 = {}; 
            for p, content in files.items():
                rp = p.replace("@ABS@", d)
                content = content.replace("@ABS@", d).replace("{{/R/", "{{" + d + "/R/")
                if rp.startswith("/R/"): rp = rp[1:]
                fp = os.path.join(d, rp) if not rp.startswith("/") else rp
                if len(os.path.basename(fp)) > 250: continue
                os.makedirs(os.path.dirname(fp), exist_ok=True)
                open(fp, "w").write(content)
            cases.append((i, fmt, root, fs, d))
        segs = []
        for (i, fmt, root, fs, d) in cases:
            rootp = os.path.join(d, root.lstrip("/")); search = os.path.join(d, "R") + "/"
            s = ["seg\ttx", "timeout\t10"]
            for api in ("src", "s", "d", "e"):
                s.append(line("transclude", sx(rootp), sx(search), docs.FMT[fmt], api))
            segs.append(s)
        res = run_harness(exe, segs, timeout=10)
        def fixfs(fs, d):
            # the abstract file system as the spec sees it: symbolic root, absolute markers spelled with the real directory
            def ms(s): return (d + s) if s.startswith("/R/") else s.replace("@ABS@", d)
            return {p.lstrip("/"): dict(atoms=[dict(k=a["k"], s=ms(a["s"]) if a["k"] == "m" else a["s"]) for a in f["atoms"]], meta=f["meta"], base=f["base"], **({"pad": f["pad"]} if "pad" in f else {}), **({"cont": f["cont"]} if "cont" in f else {}), **({"first": f["first"]} if "first" in f else {})) for p, f in fs.items()}
        for (i, fmt, root, fs, d), seg, r in zip(cases, segs, res):
            trace.append(dict(e="reset"))
            fs_abs = {(os.path.join(d, p)): v for p, v in fixfs(fs, d).items()}
            for ev in r["events"]:
                if ev.get("e") != "transclude": continue
                # the manifest API has no format parameter: it resolves `.*` as for HTML
                trace.append(dict(e="transclude", api=ev["api"], null=ev["null"], fmt=(fmt if ev["api"] == "src" else "html"), fs=fs_abs, root=os.path.join(d, root.lstrip("/")), search=os.path.join(d, "R") + "/",
                                  out=ev.get("out", ""), manifest=ev.get("manifest", []), case=i))
            if r["status"] != "ok":
                problems.append(("crash", (i, fmt, fs), r))
        # command line: -t mmd <file> prints the transcluded text
        def one(c):
            i, fmt, root, fs, d = c
            p = subprocess.run([cli, "-t", "mmd", os.path.join(d, root.lstrip("/"))], stdout=subprocess.PIPE, stderr=subprocess.PIPE, env=san_env(os.path.join(wd, "cli%d" % i)), timeout=20, cwd=d)
            return p.stdout, p.returncode
        csel = [c for c in cases if c[1] == "html"][: (150 if tier == "quick" else 1500)]
        with concurrent.futures.ThreadPoolExecutor(NCPU) as ex:
            couts = list(ex.map(one, csel))
        for (i, fmt, root, fs, d), (o, rc) in zip(csel, couts):
            fs_abs = {(os.path.join(d, p)): v for p, v in fixfs(fs, d).items()}
            trace.append(dict(e="reset"))
            trace.append(dict(e="transclude", api="cli", null=rc != 0, fmt="mmd", fs=fs_abs, root=os.path.join(d, root.lstrip("/")), search=os.path.join(d, "R") + "/", out=o.decode("latin-1"), manifest=[], case=i))
        acc, rejected, states, info = tlc.validate_trace("TranscludeTrace", os.path.join(VERIF, "spec", "TranscludeTrace.cfg"), trace, max_rejects=30, timeout=1500, independent=True)
    finally:
        shutil.rmtree(wd, ignore_errors=True)
    chk.add("traces_validated_against_impl", len(cases) + len(csel) - len(problems) - len(rejected))
    chk.add("trace_events_validated", acc)
    chk.cov["evaluations"] = len(cases) * 4 + len(csel)
    chk.cov["distinct_nontrivial"] = len(cases)
    chk.cov["rule"] = "file systems: every one of the bounded shape over %s emitted by TLC (plus simulated 3-file ones in quick), and %d hand-written scenarios (directories, transclude base, absolute path, wildcard x 6 formats, marker lengths 996..1500, TOC, cycles with metadata); each through mmd_transclude_source + 3 manifest APIs, CLI on a subset" % (names if tier != "quick" else N2, len(hs))
    chk.sample(dict(files=files_of(fss[5][2]))); chk.sample(dict(files={k: v[:60] for k, v in files_of(hs[1][2]).items()}))
    seen = {}
    for seg, idx in rejected:
        ev = seg[idx]
        fs = ev["fs"]; cyc = "cyclic?"; 
        shape = "wildcard" if any(a["s"].endswith(".*") for f in fs.values() for a in f["atoms"] if a["k"] == "m") else ("base" if any(f["base"] for f in fs.values()) else ("long-marker" if any(len(a["s"]) > 900 for f in fs.values() for a in f["atoms"]) else "plain"))
        key = "%s:%s:%s" % ("no-return" if ev["null"] else "wrong-result", ev["api"], shape)
        if key in seen: seen[key] += 1; continue
        seen[key] = 1
        short = {os.path.basename(os.path.dirname(p)) + "/" + os.path.basename(p): "".join(("{{%s}}" % a["s"][-30:]) if a["k"] == "m" else a["s"] for a in f["atoms"]) for p, f in fs.items()}
        chk.report(key, "api %s on file system %s gave out=%r manifest=%s" % (ev["api"], json.dumps(short)[:600], ev["out"][:200], [os.path.basename(m) for m in ev["manifest"]]), dict(fs=short, api=ev["api"], fmt=ev["fmt"], out=ev["out"][:2000]))
    for kind, a, b in problems:
        k, f = san_signature(b.get("san", "")); key = "%s:%s:%s" % (b["status"], k, f)
        if key in seen: seen[key] += 1; continue
        seen[key] = 1
        chk.report(key, "process ended (%s) on file system %s :: %s" % (b["status"], json.dumps(files_of(a[2]))[:500], b.get("san", "")[:300].replace("\n", " | ")), dict(files=files_of(a[2]), fmt=a[1]))
    chk.cov["rejections_by_signature"] = seen
    return chk.finish()


def replay(path):
    print(open(path).read()[:3000]); return 0
