"""C04 -- all output formats carry the same text, escaped for the target.

TextModel.tla: the text positions (24 slots), the reserved characters and the set of escaped forms each target allows; block documents with
numbered words and the order each format must show them in; the Dyck predicate for markup nesting.  TLC enumerates every (slot, character)
combination and every block sequence of <= 3 (thorough 4) kinds; each is rendered in the 6 textual formats; the raw output is projected to
(a) the segments between the text markers, (b) the sequence of numbered words, (c) open/close events of elements / environments / groups, and
TextTrace decides: the marked text occurs as often as plain text does and only in an allowed escaped form, the words appear once each in the
prescribed order, the markup is properly nested.
"""
import json, os, random, re
from vlib import *  # noqa
import docs, project

METASLOTS = ("meta", "metaquote", "metalist", "metapipe")
LEVEL = "model_checking"
GEN = "CONSTANTS Mode = \"%s\"\n MaxBlocks = %d\n Sim = %s\nINIT Init\nNEXT Next\nINVARIANTS EscLaw Emit\nCHECK_DEADLOCK FALSE\n"
FM = ["html", "latex", "beamer", "memoir", "fodt", "opml"]
E = docs.EXT
NOSMART = E["NOTES"] | E["CRITIC"]
SEG = re.compile(rb"QZQ(.*?)QZQ", re.S)


def segs_of(out, fmt):
    # segments between consecutive markers; the projection strips the ASCII spaces that surround the character in the run
    res = []
    for m in SEG.finditer(out):
        s = m.group(1).decode("utf-8", errors="replace").strip(" ")
        if fmt in ("latex", "beamer", "memoir"): s = s.strip(" ")
        res.append(s)
    return res


def nesting(fmt, out):
    if fmt == "html": return project.html_nesting(out)
    if fmt in ("fodt", "opml"): return project.xml_nesting(out)
    return project.latex_nesting(out)


def run(tier, seed):
    chk = Check("C04", LEVEL, tier, seed)
    rnd = random.Random(seed)
    chk.assumptions += ["smart typography off for the escaping cases (it rewrites quotes and dashes by design)", "projection: segments between the QZQ markers with surrounding spaces stripped; words = W<n>W tokens in the raw output; LaTeX nesting by a small lexer (environments, brace groups, \\verb skipped)",
                        "documents contain no raw HTML or raw-source passthrough"]
    ge = tlc.run("TextModel", GEN % ("esc", 0, "FALSE"), workers=8, timeout=600, coverage=False)
    gb = tlc.run("TextModel", GEN % ("blocks", 3 if tier == "quick" else 4, "FALSE"), workers=NCPU, timeout=900)
    if ge.violated or gb.violated: raise FrameworkError("TextModel: EscLaw violated")
    gs = tlc.run("TextModel", GEN % ("blocks", 7, "TRUE"), workers=4, simulate=(60 if tier == "quick" else 600), depth=9, seed=seed, timeout=600)
    chk.cov["states"] = ge.distinct + gb.distinct; chk.cov["transitions"] = max(ge.generated + gb.generated, 1)
    esc = ge.printed; blocks = uniq(gb.printed + gs.printed, key=lambda b: b["src"])
    gd = tlc.run("TextModel", GEN % ("edge", 0, "FALSE"), workers=4, timeout=600, coverage=False)
    edge = sorted(gd.printed, key=lambda c: (c["slot"], c["ch"], c["atEnd"]))
    if len(edge) < 100: raise FrameworkError("TextModel(edge): %d documents" % len(edge))
    exe = build.build_harness("asan")
    segs = []; per = 16; meta = []
    EDGE = {"~A": "\u00e0", "~D": "\u2020", "~S": "\u0160", "~E": "\u00e9", "~N": "\u00f1"}
    def edge_enc(t):
        for k_, v_ in EDGE.items(): t = t.replace(k_, v_)
        return t.encode("utf-8")
    for i in range(0, len(edge), per):
        s = ["seg\tedge", "wantout\t1"]
        for j, c in enumerate(edge[i:i + per]):
            s.append(line("src", "g%d" % j, sx(edge_enc(c["src"])))); s.append(line("src", "h%d" % j, sx(c["base"])))
            for f in FM:
                x = NOSMART | (E["COMPLETE"] if c["slot"] in METASLOTS + ("glossary", "abbrev") else 0)
                fam = "s_data" if f == "fodt" else "s_conv"
                s.append(line("conv", fam, "g%d" % j, docs.FMT[f], x, 0)); s.append(line("conv", fam, "h%d" % j, docs.FMT[f], x, 0))
        segs.append(s); meta.append(("edge", i))
    for i in range(0, len(esc), per):
        s = ["seg\tesc", "wantout\t1"]
        for j, c in enumerate(esc[i:i + per]):
            s.append(line("src", "e%d" % j, sx(c["src"]))); s.append(line("src", "b%d" % j, sx(c["base"])))
            for f in FM:
                x = NOSMART | (E["COMPLETE"] if c["slot"] in METASLOTS + ("glossary", "abbrev") else 0)      # (a LaTeX glossary entry is defined in the preamble: only the complete document shows it)
                fam = "s_data" if f == "fodt" else "s_conv"          # the flat OpenDocument is a document only through convert_to_data
                s.append(line("conv", fam, "e%d" % j, docs.FMT[f], x, 0)); s.append(line("conv", fam, "b%d" % j, docs.FMT[f], x, 0))
        segs.append(s); meta.append(("esc", i))
    for i in range(0, len(blocks), per):
        s = ["seg\tblocks", "wantout\t1"]
        for j, b in enumerate(blocks[i:i + per]):
            s.append(line("src", "k%d" % j, sx(b["src"])))
            for f in FM: s.append(line("conv", "s_data" if f == "fodt" else "s_conv", "k%d" % j, docs.FMT[f], docs.STD, 0))
        segs.append(s); meta.append(("blocks", i))
    # delimiter soup: nesting of the markup (LaTeX groups/environments, XML elements) for every ordered pair of inline delimiters
    soup = docs.delimiter_soup()
    soup = soup if tier == "thorough" else soup[1::2]
    for i in range(0, len(soup), per * 4):
        s = ["seg\tsoup", "wantout\t1"]
        for j, (k, a, b2, d) in enumerate(soup[i:i + per * 4]):
            s.append(line("src", "u%d" % j, sx(d)))
            for f in FM: s.append(line("conv", "s_data" if f == "fodt" else "s_conv", "u%d" % j, docs.FMT[f], docs.STD, 0))
        segs.append(s); meta.append(("soup", i))
    # delimiters that find no partner are text: in the LaTeX family none of # % & _ ^ may be left bare (no tables, no math in these documents)
    OPEN = ["[#", "[^", "[%", "[?", "[>", "![", "[", "]", "(", ")", "{++", "{--", "{~~", "{==", "{>>", "~>", "++}", "--}", "~~}", "==}", "<<}", "*", "**", "_", "__", "`", "``", "^", "~", "<", ">", "{{", "}}", "{", "}", "|", "#", "%", "&"]
    for i in range(0, len(OPEN), per):
        s = ["seg\topeners", "wantout\t1"]
        for j, o in enumerate(OPEN[i:i + per]):
            s.append(line("src", "v%d" % j, sx("QZQ x %s y QZQ\n\nQZQ a%sb QZQ\n" % (o, o))))
            for f in ("latex", "beamer", "memoir"):
                for x in (docs.STD, NOSMART): s.append(line("conv", "s_conv", "v%d" % j, docs.FMT[f], x, 0))
        segs.append(s); meta.append(("openers", i))
    res = run_harness(exe, segs, timeout=30)
    trace = []; problems = []; nconv = 0
    for (kind, base), seg, r in zip(meta, segs, res):
        if r["status"] != "ok": problems.append(("crash", seg, r))
        trace.append(dict(e="reset"))
        outs = {}
        for ev in r["events"]:
            if ev.get("e") == "conv": outs[(ev["src"], ev["fmt"])] = (project.lat1(ev["out"]) if ev.get("out") is not None else None)
        for (sid, fm), out in sorted(outs.items()):
            fmt = docs.FMTNAME[fm]; nconv += 1
            if kind == "edge":
                if not sid.startswith("g"): continue
                c = edge[base + int(sid[1:])]; bout = outs.get(("h" + sid[1:], fm))
                chb = EDGE[c["ch"]].encode("utf-8")
                tok = (b"w" + chb) if c["atEnd"] else (chb + b"w"); btok = b"w7" if c["atEnd"] else b"7w"
                try: (out or b"").decode("utf-8"); valid = True
                except UnicodeDecodeError: valid = False
                trace.append(dict(e="reset"))
                trace.append(dict(e="edge", null=out is None, fmt=fmt, slot=c["slot"], ch=c["ch"], atEnd=c["atEnd"], valid=valid, count=(out or b"").count(tok), basecount=(bout or b"").count(btok),
                                  visible=(bout or b"").count(btok) >= 1, src=c["src"]))
                continue
            if kind == "openers":
                o = OPEN[base + int(sid[1:])]
                body = b" ".join(re.findall(rb"QZQ(.*?)QZQ", out or b"", re.S))
                body = re.sub(rb"\\[A-Za-z]+|\\.", b"", body)                      # commands and escaped characters are what the writer may produce
                left = sorted({ch for ch in body.decode("latin-1") if ch in "#%&_^"})
                trace.append(dict(e="reset"))          # (one verdict per document and format)
                trace.append(dict(e="rawres", null=out is None, fmt=fmt, opener=o, leftover=left, src="x %s y / a%sb" % (o, o)))
                continue
            if kind == "soup":
                ok, evs, _ = nesting(fmt, out or b"")
                trace.append(dict(e="nest", fmtname=fmt, parsed=ok, events=evs, src=soup[base + int(sid[1:])][3]))
                continue
            if kind == "esc":
                if not sid.startswith("e"): continue
                c = esc[base + int(sid[1:])]; bout = outs.get(("b" + sid[1:], fm))
                sg = segs_of(out or b"", fmt); bs = segs_of(bout or b"", fmt)
                if c["slot"] in ("title", "imgtitle") and c["chname"] == "quot": continue      # a double quote cannot be written inside a double-quoted title
                if c["slot"] in ("url", "imgurl") and c["chname"] in ("quot", "lt", "gt", "bslash", "apos", "lbrace", "rbrace", "bar"): continue     # characters that end or change an address in Markdown itself
                if c["slot"] == "alt" and c["chname"] in ("bslash", "bar"): continue  # needs a backslash escape in Markdown; the alt attribute shows the description's source spelling (not judged)
                visible = not (c["slot"] in ("title", "alt", "imgtitle") and fmt != "html") and not (c["slot"] == "imgurl" and fmt == "opml" and False) and not (c["slot"] in METASLOTS and fmt == "opml" and False)
                trace.append(dict(e="esc", visible=visible, null=out is None, fmt=fmt, slot=c["slot"], ch=c["ch"], chname=c["chname"], segs=sg, count=len(sg), basecount=len(bs), src=c["src"]))
            else:
                b = blocks[base + int(sid[1:])]
                words = [int(x) for x in re.findall(rb"W(\d+)W", out or b"")]
                trace.append(dict(e="order", null=out is None, fmt="html" if fmt == "html" else "other", fmtname=fmt, ks=b["ks"], words=words, src=b["src"]))
            if kind == "esc" and esc[base + int(sid[1:])]["slot"] in ("url", "imgurl") and fmt in ("latex", "beamer", "memoir"):
                continue        # an address is handed to \href / \includegraphics as it is: '$', '{', '%' in it are not markup (the small lexer cannot know)
            if kind == "esc" and esc[base + int(sid[1:])]["slot"] in METASLOTS + ("glossary", "abbrev") and fmt in ("latex", "beamer", "memoir"):
                continue        # a complete LaTeX document opens \begin{document} inside the \input support file: nesting cannot be judged from this file alone
            ok, evs, _ = nesting(fmt, out or b"")
            trace.append(dict(e="nest", fmtname=fmt, parsed=ok, events=evs, src=(esc[base + int(sid[1:])]["src"] if kind == "esc" else blocks[base + int(sid[1:])]["src"])))
    acc, rejected, states, info = tlc.validate_trace("TextTrace", os.path.join(VERIF, "spec", "TextTrace.cfg"), trace, max_rejects=60, timeout=1500, independent=True, heap="12g")
    chk.add("traces_validated_against_impl", len(segs) - len(problems))
    chk.add("trace_events_validated", acc)
    chk.cov["evaluations"] = nconv; chk.cov["distinct_nontrivial"] = len(esc) + len(blocks)
    chk.cov["rule"] = "escaping cases = 24 slots x 16 characters (each with its plain-text twin) x 6 formats; order cases = every sequence of <= %d block kinds of 9 + simulated 7-block sequences x 6 formats; nesting checked on every output, and on the delimiter soup (ordered pairs of 27 inline delimiters)" % (3 if tier == "quick" else 4)
    chk.sample(dict(src=esc[17]["src"], slot=esc[17]["slot"], ch=esc[17]["ch"])); chk.sample(dict(src=blocks[50]["src"], ks=blocks[50]["ks"]))
    seen = {}
    for seg, idx in rejected:
        ev = seg[idx]
        if ev["e"] == "rawres":
            key = "unescaped:latex:variable-opener:percent" if (ev["opener"] == "[%" and ev["leftover"] == ["%"]) else "unescaped:latex:opener:%s" % ev["opener"]
            desc = "the unmatched delimiter %r in %r is written to %s with %s left bare" % (ev["opener"], ev["src"], ev["fmt"], ev["leftover"])
            if key in seen: seen[key] += 1; continue
            seen[key] = 1; chk.report(key, desc, dict(opener=ev["opener"], fmt=ev["fmt"])); continue
        if ev["e"] == "edge":
            key = "edge-character:%s:%s:%s:%s" % (ev["fmt"], ev["slot"], ev["ch"], "end" if ev["atEnd"] else "start")
            desc = "the %s character %s of the text in slot %s is not carried whole to %s: found %d time(s), the digit twin %d time(s), valid UTF-8: %s :: %r" % ("last" if ev["atEnd"] else "first", ev["ch"], ev["slot"], ev["fmt"], ev["count"], ev["basecount"], ev["valid"], ev["src"])
            if key in seen: seen[key] += 1; continue
            seen[key] = 1; chk.report(key, desc, dict(src=ev["src"], event=ev)); continue
        if ev["e"] == "esc":
            what = "lost-or-repeated" if ev["count"] != ev["basecount"] or ev["count"] == 0 else "unescaped"
            key = "%s:%s:%s:%s" % (what, ev["fmt"], ev["slot"], ev["chname"])
            desc = "slot %s char %r in %s: segments %s (plain-text twin shows %d)" % (ev["slot"], ev["ch"], ev["fmt"], ev["segs"][:5], ev["basecount"])
        elif ev["e"] == "order":
            key = "word-order:%s:%s" % (ev["fmtname"], "+".join(sorted(set(ev["ks"])))); desc = "blocks %s in %s show words %s" % (ev["ks"], ev["fmtname"], ev["words"])
        else:
            key = "nesting:%s" % ev["fmtname"]; desc = "markup of %r in %s is not properly nested: %s" % (ev["src"][:120], ev["fmtname"], ev["events"][-12:])
        if key in seen: seen[key] += 1; continue
        seen[key] = 1
        chk.report(key, desc, dict(src=ev.get("src", ""), event={k: v for k, v in ev.items() if k not in ("events",)}))
    for kind, a, b in problems:
        k, f = san_signature(b.get("san", "")); key = "%s:%s:%s" % (b["status"], k, f)
        if key in seen: continue
        seen[key] = 1
        chk.report(key, "process ended :: %s" % b.get("san", "")[:300].replace("\n", " | "), dict(script=[x[:200] for x in a[:20]]))
    chk.cov["rejections_by_signature"] = seen
    return chk.finish()


def replay(path):
    print(open(path).read()[:3000]); return 0
