"""C11 -- metadata is reported, extracted and updated faithfully.

Metadata.tla: abstract block, serialisation, documented normalisations, update semantics.  MetadataGen: TLC enumerates documents (entries x
key shapes x value shapes x YAML fence x terminators x bodies) and update histories and checks the read-back laws on the model.  Every
history is replayed through the C-string, DString and engine families (the latter with ONE engine object across all calls) and the command
line (-m, -e); MetadataTrace requires every recorded answer to be the specification's.
"""
import json, os, random, re, subprocess, html.parser
from vlib import *  # noqa
import docs

LEVEL = "model_checking"
GEN = "CONSTANTS MaxEntries = %d\n MaxUpd = %d\n Sim = %s\nINIT Init\nNEXT Next\nINVARIANTS NoCharLost UpdateReadsBack OthersUnchanged Emit\nCHECK_DEADLOCK FALSE\n"
UMAP = {"~U": "ü", "~E": "é"}        # 2-byte characters behind 2-character ASCII place-holders in the spec's alphabet (offsets agree)


def enc(s):
    for k, v in UMAP.items(): s = s.replace(k, v)
    return s.encode("utf-8")


def dec(b):
    s = b.decode("utf-8", errors="replace")
    for k, v in UMAP.items(): s = s.replace(v, k)
    return s


def script(h, fam):
    src = enc(h["src"]); out = []
    keys = h["keys"]
    if fam == "c":
        # the same document with CR LF line endings, through the string family: the answers must be those of the LF spelling (offsets counted in lines of two bytes)
        src = src.replace(b"\n", b"\r\n"); fam = "s"
    def reads(sid):
        if fam in "epq":
            return [line("e_meta", 0, "has"), line("e_meta", 0, "keys")] + [line("e_meta", 0, "val", sx(enc(k))) for k in keys]
        return [line("meta", fam, sid, "has"), line("meta", fam, sid, "keys")] + [line("meta", fam, sid, "val", sx(enc(k))) for k in keys]
    out.append(line("src", "m0", sx(src)))
    if fam in "epq": out.append(line("e_new", 0, "m0", 0, 0))
    if fam == "p": out.append(line("e_parse", 0))            # the engine holds a complete parse tree before the first query / update
    out += reads("m0")
    if fam == "q": out += [line("e_conv", 0, docs.FMT["html"])] + reads("m0")[1:] + reads("m0")[:1]     # asked first, THEN converted for the first time, asked again (keys first, the re-scanning query last)
    for i, u in enumerate(h["upds"]):
        if fam in "epq": out.append(line("e_meta", 0, "upd", sx(enc(u["ks"])), sx(enc(u["us"]))))
        else: out.append(line("meta", fam, "m%d" % i, "upd", sx(enc(u["ks"])), sx(enc(u["us"])), "m%d" % (i + 1)))
        out += reads("m%d" % (i + 1))
        if fam == "q": out += [line("e_conv", 0, docs.FMT["latex"])] + reads("m0")[1:]
    if fam in "epq": out.append(line("e_free", 0))
    if fam == "s":
        # the complete document carries the same values: <title> and <meta name= content=> of the HTML head, read back with an HTML parser
        last = "m%d" % len(h["upds"])
        out.append(line("conv", "s_conv", last, docs.FMT["html"], docs.EXT["COMPLETE"], 0))
    return out


class Head(html.parser.HTMLParser):
    def __init__(self):
        super().__init__(convert_charrefs=True); self.pairs = []; self.in_title = False; self.done = False
    def handle_starttag(self, tag, attrs):
        a = dict(attrs)
        if self.done: return
        if tag == "title": self.in_title = True; self.pairs.append(["title", ""])
        elif tag == "meta" and "name" in a: self.pairs.append([a["name"], a.get("content") or ""])
        elif tag == "body": self.done = True
    def handle_endtag(self, tag):
        if tag == "title": self.in_title = False
        if tag == "head": self.done = True
    def handle_data(self, data):
        if self.in_title and not self.done: self.pairs[-1][1] += data


def to_trace(h, evs, fam):
    """recorded events -> MetadataTrace events (projection: which key id a query used; body = text after the reported end)"""
    tr = [dict(e="reset"), dict(e="load", doc=h["doc"], src=h["src"], fam=fam)]
    text = enc(h["src"]); ui = 0
    crlf = fam == "c"
    if crlf: text = text.replace(b"\n", b"\r\n")
    keyid = {enc(k).decode("latin-1"): i + 1 for i, k in enumerate(h["keys"])}
    for ev in evs:
        if ev.get("e") == "conv" and fam in ("s", "c"):
            hp = Head(); hp.feed(dec((ev.get("out") or "").encode("latin-1")))
            tr.append(dict(e="head", null=ev["null"], pairs=hp.pairs))
            continue
        if ev.get("e") != "meta": continue
        op = ev["op"]
        if op == "has":
            body = re.sub(rb"^([ \t]*\r?\n)+", b"", text[ev["end"]:]) if ev["end"] <= len(text) else b"<end beyond text>"          # (the line(s) that separate block and body)
            end = ev["end"]
            if crlf:
                # back to the LF spelling the specification speaks of: the offset minus the carriage returns before it; the body without them
                end = ev["end"] - text[:ev["end"]].count(b"\r") if ev["end"] <= len(text) else ev["end"]
                body = body.replace(b"\r\n", b"\n")
            tr.append(dict(e="has", has=ev["has"], end=end, body=dec(body)))
        elif op == "keys":
            tr.append(dict(e="keys", res=dec((ev.get("res") or "").encode("latin-1")) if ev.get("res") is not None else "NULL"))
        elif op == "val":
            tr.append(dict(e="val", k=keyid[ev["key"]], res=dec(ev["res"].encode("latin-1")) if ev.get("res") is not None else "NULL"))
        elif op == "upd":
            u = h["upds"][ui]; ui += 1
            text = (ev.get("text") or "").encode("latin-1")
            tr.append(dict(e="upd", k=u["k"], u=u["u"]))
    return tr


def cli_trace(cli, wd, h, idx):
    src = enc(h["src"]); f = os.path.join(wd, "m%d.txt" % idx); open(f, "wb").write(src)
    env = san_env(os.path.join(wd, "cli%d.san" % idx))
    tr = [dict(e="reset"), dict(e="load", doc=h["doc"], src=h["src"], fam="cli")]
    p = subprocess.run([cli, "-m", f], stdout=subprocess.PIPE, stderr=subprocess.PIPE, env=env, timeout=30)
    tr.append(dict(e="keys", res=dec(p.stdout)))
    for i, k in enumerate(h["keys"]):
        p = subprocess.run([cli, "-e", enc(k).decode("utf-8"), f], stdout=subprocess.PIPE, stderr=subprocess.PIPE, env=env, timeout=30)
        out = p.stdout
        tr.append(dict(e="val", k=i + 1, res=dec(out[:-1]) if out.endswith(b"\n") else ("NULL" if out == b"" else dec(out))))
    return tr


def run(tier, seed):
    chk = Check("C11", LEVEL, tier, seed)
    rnd = random.Random(seed)
    chk.assumptions += ["keys are ASCII without ':'; continuation lines are indented; update values are single-line",
                        "multi-byte characters are written as place-holders in the spec alphabet and substituted (bijectively) on both sides",
                        "body comparison strips the blank line(s) separating block and body"]
    g1 = tlc.run("MetadataGen", GEN % (1, 1, "FALSE"), workers=NCPU, coverage=True, timeout=600)
    if g1.violated: raise FrameworkError("Metadata model violates %s" % g1.violated)
    for a in ("AddEntry", "Seal", "DoUpdate"):
        if g1.coverage.get(a, (0, 0))[0] == 0: raise FrameworkError("MetadataGen: %s never taken" % a)
    chk.cov["states"] = g1.distinct; chk.cov["transitions"] = g1.generated
    h1 = g1.printed
    g0 = tlc.run("MetadataGen", GEN % (2, 0, "FALSE"), workers=NCPU, timeout=600)      # every 1- and 2-entry document, no update
    h0 = g0.printed
    gs = tlc.run("MetadataGen", GEN % (3, 3, "TRUE"), workers=4, simulate=(200 if tier == "quick" else 2500), depth=12, seed=seed, timeout=600)
    hs = gs.printed
    chk.cov["histories_enumerated"] = len(h1) + len(h0)
    cap = 1500 if tier == "quick" else 5000           # TLC enumerates all; a seeded sample is replayed through the four families
    h1 = rnd.sample(h1, min(len(h1), cap)); h0 = rnd.sample(h0, min(len(h0), cap))
    if tier != "quick":
        g2 = tlc.run("MetadataGen", GEN % (1, 2, "TRUE"), workers=4, simulate=4000, depth=8, seed=seed + 1, timeout=600)
        hs += g2.printed
    # a key written twice in the block (every update of every key, and no update)
    GD = GEN.replace("INIT Init", "INIT InitDup").replace("INVARIANTS NoCharLost UpdateReadsBack OthersUnchanged Emit", "INVARIANTS UpdateReadsBack Emit")
    hd = tlc.run("MetadataGen", GD % (3, 1, "FALSE"), workers=4, timeout=600).printed + tlc.run("MetadataGen", GD % (3, 0, "FALSE"), workers=2, timeout=600).printed
    if len(hd) < 12: raise FrameworkError("MetadataGen(InitDup): %d histories" % len(hd))
    chk.cov["duplicate_key_histories"] = len(hd)
    hists = uniq(h0 + h1 + hs + hd)
    exe = build.build_harness("asan"); cli = build.build_cli()
    fams = ["s", "d", "e", "p", "c", "q"]
    segs = []; owners = []
    for i, h in enumerate(hists):
        for f in fams:
            if f != "e" and len(h["upds"]) > 0 and i % 2 and f == "d": continue
            if f == "c" and i % 3: continue
            if f == "q" and i % 2 == 0 and tier == "quick": continue
            segs.append(["seg\tmeta", "wantout\t1"] + script(h, f)); owners.append((i, f))
    # the caller of a re-used engine owns the text: parse document A, put document B of the same length (other keys, other values) in its place, query
    bylen = {}
    for i, h in enumerate(hists):
        if not h["upds"]: bylen.setdefault(len(enc(h["src"])), []).append(i)
    swaps = []
    for ln, ids in sorted(bylen.items()):
        for a, b in zip(ids, ids[1:]):
            if hists[a]["src"] != hists[b]["src"]: swaps.append((a, b))
    swaps = swaps[:: max(1, len(swaps) // (300 if tier == "quick" else 3000))]
    nplain = len(segs)
    for a, b in swaps:
        ha, hb = hists[a], hists[b]
        def rd(h): return [line("e_meta", 0, "has"), line("e_meta", 0, "keys")] + [line("e_meta", 0, "val", sx(enc(k))) for k in h["keys"]]
        segs.append(["seg\tmeta", line("src", "a", sx(enc(ha["src"]))), line("src", "b", sx(enc(hb["src"]))), line("e_new", 0, "a", 0, 0), line("e_parse", 0)] + rd(ha)
                    + [line("e_settext", 0, "b")] + rd(hb) + [line("e_free", 0)])
        owners.append((a, b))
    res = run_harness(exe, segs, timeout=30)
    trace = []; problems = []
    for k, ((i, f), seg, r) in enumerate(zip(owners, segs, res)):
        if r["status"] != "ok":
            problems.append(("crash", (i, "w" if k >= nplain else f), r)); continue
        if k >= nplain:
            # two loads on one engine: the events up to the settext belong to document A, the rest to document B
            evs = r["events"]; cut = [n for n, e in enumerate(evs) if e.get("e") == "eng" and e.get("op") == "settext"][0]
            trace += to_trace(hists[i], evs[:cut], "w") + to_trace(hists[f], evs[cut:], "w")[1:]
            continue
        trace += to_trace(hists[i], r["events"], f)
    wd = scratch("c11")
    try:
        csel = [h for h in hists if not h["upds"]]
        csel = rnd.sample(csel, min(len(csel), 150 if tier == "quick" else 1200))
        with concurrent.futures.ThreadPoolExecutor(NCPU) as ex:
            ctr = list(ex.map(lambda a: cli_trace(cli, wd, a[1], a[0]), list(enumerate(csel))))
        for t in ctr: trace += t
    finally:
        shutil.rmtree(wd, ignore_errors=True)
    acc, rejected, states, info = tlc.validate_trace("MetadataTrace", os.path.join(VERIF, "spec", "MetadataTrace.cfg"), trace, max_rejects=40, timeout=1500, independent=True)
    chk.add("traces_validated_against_impl", len(segs) + len(csel) - len(problems) - len(rejected))
    chk.add("trace_events_validated", acc); chk.add("trace_states", states)
    chk.cov["evaluations"] = len(segs) + len(csel)
    chk.cov["distinct_nontrivial"] = len(hists)
    chk.cov["rule"] = ("histories = document (1-3 entries over 5 key shapes x 8 value shapes, YAML fence or not, 3 terminators, 3 bodies) + 0-3 updates (5 keys x 4 values); TLC BFS: all "
                       "1-entry documents x 1 update and all <=2-entry documents (sampled in quick), TLC simulation for 3 entries x 3 updates; each replayed through the string, DString, "
                       "reused-engine and parsed-then-reused-engine families; CLI -m/-e on a sample; after every call has/keys/value-of-every-key are read back")
    chk.sample(dict(src=hists[0]["src"], upds=hists[0]["upds"])); chk.sample(dict(src=hs[0]["src"], upds=hs[0]["upds"]))
    seen = {}
    for seg, idx in rejected:
        ev = seg[idx]; load = seg[1]
        d = load["doc"]; fam = load["fam"]
        nup = len([x for x in seg[:idx] if x["e"] == "upd"])
        # cause signature: which answer, after how many updates, in which family class, which shape of document
        shape = []
        if ev["e"] == "val" or ev["e"] == "keys" or ev["e"] == "has":
            if d["term"] == 3 and nup == 0: shape.append("eof-without-newline")
            if ev["e"] == "val" and ev.get("res", "") not in ("NULL",) and "&" in ev.get("res", "") and nup == 0: shape.append("ampersand")
            if fam in "ep" and nup >= 1: shape.append("engine-reuse-after-update")
            if fam == "w": shape.append("engine-text-replaced")
            if d["fence"] and nup >= 1: shape.append("yaml-fence-update")
        key = "%s:%s:%s" % (ev["e"], "upd%d" % min(nup, 2), "+".join(shape) or "plain")
        if key in seen: seen[key] += 1; continue
        seen[key] = 1
        chk.report(key, "answer refused by Metadata spec: event %s after %d update(s), family %s, source %r" % (json.dumps(ev), nup, fam, load["src"][:300]),
                   dict(source=load["src"], family=fam, events=seg, refused=idx))
    for kind, a, b in problems:
        k, f = san_signature(b.get("san", "")); key = "%s:%s:%s:%s" % (b["status"], k, f, "engine-reuse" if a[1] in "epw" else a[1])
        if key in seen: seen[key] += 1; continue
        seen[key] = 1
        chk.report(key, "process ended (%s) during history %s family %s :: %s" % (b["status"], json.dumps(dict(src=hists[a[0]]["src"], upds=hists[a[0]]["upds"]))[:400], a[1], b.get("san", "")[:300].replace("\n", " | ")),
                   dict(source=hists[a[0]]["src"], upds=hists[a[0]]["upds"], family=a[1]))
    chk.cov["rejections_by_signature"] = seen
    return chk.finish()


def replay(path):
    print(open(path).read()[:3000]); return 0
