"""C01 -- memory-safe, crash-free conversion of arbitrary input.

TLA+ does not decide "no undefined behaviour for every byte string" (DESIGN.md section 10).  What is checked: the Hostile.tla generator enumerates
every (block context, fragment, fragment, terminator) combination over the families the property names and a pairwise covering of the 17 extension
bits; every document goes through conversions (13 formats rotating), metadata queries and updates, CriticMarkup accept/reject, OPML/ITMZ import and
transclusion, in the ASan+UBSan build with the token pool and again in the build that allocates and frees tokens one by one; the SafetyTrace monitor
accepts a trace only if every call returned and string results are well formed.  The protocol-level causes of memory errors are model-checked by
their own properties (C18 pool, C19 DString, C15 tree).
"""
import json, os, random
from vlib import *  # noqa
import docs, hostile_frags as H

LEVEL = "other"
GEN = "CONSTANTS NFrags = %d\n NCtx = %d\n NTerm = %d\n NBits = 17\n Sim = %s\n Mode = \"%s\"\nINIT Init\nNEXT Next\nINVARIANT EmitInv\nCHECK_DEADLOCK FALSE\n"
FMTS = list(range(0, 13))


def doc_bytes(c):
    return H.CTX[c["ctx"] - 1] + H.FRAGS[c["f1"] - 1] + H.SEP + H.FRAGS[c["f2"] - 1] + H.TERM[c["term"] - 1]


def run(tier, seed):
    chk = Check("C01", LEVEL, tier, seed)
    rnd = random.Random(seed)
    chk.assumptions += ["miniz (vendored) is built without UBSan's alignment/nonnull checks: its unaligned loads and memcpy(NULL,0) are configuration choices of the vendored library",
                        "sources are C strings (no embedded NUL)", "x86-64, clang 14 ASan+UBSan; 'undefined operation' = what these sanitizers trap"]
    ge = tlc.run("Hostile", GEN % (len(H.FRAGS), len(H.CTX), len(H.TERM), "FALSE", "ext"), workers=4)
    exts = sorted({p["ext"] for p in ge.printed})
    if tier == "quick":
        gd = tlc.run("Hostile", GEN % (len(H.FRAGS), len(H.CTX), len(H.TERM), "TRUE", "docs"), workers=4, simulate=1500, depth=4, seed=seed, timeout=600)
        gp = tlc.run("Hostile", GEN % (len(H.FRAGS), 1, 1, "FALSE", "docs"), workers=NCPU, timeout=600)     # every pair of fragments, plain context
        cases = uniq(gd.printed + gp.printed)
    else:
        gd = tlc.run("Hostile", GEN % (len(H.FRAGS), len(H.CTX), len(H.TERM), "FALSE", "docs"), workers=NCPU, timeout=1500, heap="24g")
        # every combination is enumerated by TLC (363 000); all fragment pairs in the plain context plus a seeded sample of 45 000 of the rest are replayed
        allc = gd.printed
        plain = [c for c in allc if c["ctx"] == 1 and c["term"] == 1]
        rest = [c for c in allc if not (c["ctx"] == 1 and c["term"] == 1)]
        cases = plain + rnd.sample(rest, min(len(rest), 45000))
    chk.cov["states"] = gd.distinct
    chk.cov["generator"] = dict(fragments=len(H.FRAGS), contexts=len(H.CTX), terminators=len(H.TERM), doc_cases=len(cases), extension_sets=len(exts))
    problems = []
    nconv = 0
    trace_by_variant = {}
    # pass 0: let the library write ITMZ archives of documents padded so that the archive's mapdata.xml hits given sizes
    import project
    def itmz_of(docs_):
        exe0 = build.build_harness("asan")
        s0 = ["seg\titmzgen", "wantout\t1"]
        for j, d in enumerate(docs_):
            s0 += [line("src", "g%d" % j, sx(d)), line("conv", "s_data", "g%d" % j, docs.FMT["itmz"], docs.STD, 0)]
        r0 = run_harness(exe0, [s0])[0]
        out = []
        for ev in r0["events"]:
            if ev.get("e") == "conv" and ev.get("out") is not None:
                zb = project.lat1(ev["out"]); ok, mem, err = project.zip_members(zb)
                m = [x for x in mem if x["name"] == "mapdata.xml"]
                out.append((len(m[0]["data"]) if m else -1, zb))
        return out
    base_doc = lambda pad: ("# T\n\n" + "x" * pad + "\n").encode()
    probe = itmz_of([base_doc(0), base_doc(10)])
    itmz_zips = []
    if len(probe) == 2 and probe[0][0] > 0 and probe[1][0] - probe[0][0] == 10:
        L0 = probe[0][0]
        pads = sorted({T - L0 + dlt for T in (1024, 2048, 4096) for dlt in (-1, 0, 1) if T - L0 + dlt >= 0})
        itmz_zips = itmz_of([base_doc(p_) for p_ in pads])
    chk.cov["itmz_mapdata_sizes"] = [L for L, _ in itmz_zips]
    for variant in tuple(os.environ.get("VERIF_C01_VARIANTS", "asan,nopool").split(",")):
        exe = build.build_harness(variant)
        segs = []; per = 40
        vcases = cases if variant == "asan" or tier == "thorough" else cases[::3]
        for i in range(0, len(vcases), per):
            s = ["seg\thostile", "timeout\t20"]
            for j, c in enumerate(vcases[i:i + per]):
                b = doc_bytes(c); k = i + j
                s.append(line("src", "h%d" % j, sx(b)))
                for f in (FMTS[k % 13], FMTS[(k * 7 + 3) % 13]):
                    x = exts[(k * 31 + f) % len(exts)] & ~(docs.EXT["TRANSCLUDE"])
                    if f in (1, 6, 7, 8, 10, 12): s.append(line("conv", "s_data", "h%d" % j, f, x, k % 7))
                    else: s.append(line("conv", "s_conv", "h%d" % j, f, x, k % 7))
                if k % 4 == 0:
                    s += [line("meta", "sde"[k % 3], "h%d" % j, "has"), line("meta", "sde"[(k + 1) % 3], "h%d" % j, "keys"), line("meta", "s", "h%d" % j, "val", sx("title")),
                          line("meta", "d", "h%d" % j, "upd", sx("Title"), sx("v"), "u%d" % j), line("meta", "e", "h%d" % j, "upd", sx("new key"), "~", "-")]
                if k % 4 == 1:
                    s += [line("critic", "acc", "h%d" % j), line("critic", "rej", "h%d" % j), line("critic", "acc", "h%d" % j, len(b) // 3, len(b) // 2), line("critic", "rej", "h%d" % j, 1, -1)]
                if k % 4 == 2:
                    s += [line("e_new", 0, "h%d" % j, exts[k % len(exts)] & ~docs.EXT["TRANSCLUDE"], k % 7), line("e_parse", 0), line("e_inspect", 0), line("e_conv", 0, FMTS[k % 13] if FMTS[k % 13] not in (1, 6, 7, 8, 10, 12) else 0),
                          line("e_conv", 0, 2), line("e_subtree", 0, len(b) // 2, -1), line("e_free", 0)]
                if k % 4 == 3:
                    s += [line("opml2text", "sde"[k % 3], "h%d" % j, "opml"), line("conv", "s_conv", "h%d" % j, 0, docs.EXT["PARSE_OPML"], 0)]
            segs.append(s)
        # OPML / ITMZ import of foreign and broken outlines
        so = ["seg\topml", "timeout\t20"]
        for j, b in enumerate(H.OPML):
            so.append(line("src", "o%d" % j, sx(b)))
            for fam in "sde":
                so += [line("opml2text", fam, "o%d" % j, "opml"), line("opml2text", fam, "o%d" % j, "itmz")]
            so += [line("conv", "s_conv", "o%d" % j, 0, docs.EXT["PARSE_OPML"], 0), line("conv", "d_data", "o%d" % j, 11, docs.EXT["PARSE_OPML"], 0), line("conv", "s_conv", "o%d" % j, 2, docs.EXT["PARSE_ITMZ"], 0)]
        segs.append(so)
        # real ITMZ archives whose mapdata.xml is 1023 / 1024 / 1025 ... bytes long (the importer unpacks it into a buffer of its own)
        if itmz_zips:
            sz = ["seg\titmzsize", "timeout\t20"]
            for j, (L, zb) in enumerate(itmz_zips):
                sz += [line("src", "y%d" % j, sx(zb)), line("opml2text", "de"[j % 2], "y%d" % j, "itmz"), line("conv", "d_conv", "y%d" % j, 0, docs.EXT["PARSE_ITMZ"], 0)]
            segs.append(sz)
        # size boundaries (growth of the definition stacks, search tries, label tables)
        sc = H.scale_docs()
        for j0 in range(0, len(sc), 6):
            ss = ["seg\tscale", "timeout\t60"]
            for j, (nm, b) in enumerate(sc[j0:j0 + 6]):
                ss.append(line("src", "z%d" % j, sx(b)))
                for f in ("html", "latex", "fodt", "opml"):
                    ss.append(line("conv", "s_conv", "z%d" % j, docs.FMT[f], docs.STD, 0))
                for f in ("epub", "odt", "bundlezip", "itmz"):
                    ss.append(line("conv", "s_data", "z%d" % j, docs.FMT[f], docs.STD | (docs.EXT["COMPLETE"] if f == "epub" else 0), 0))
            segs.append(ss)
        # transclusion of hostile sources (markers of every length around the 1000-byte cap, unterminated / nested markers)
        wd = scratch("c01tx")
        st = ["seg\ttx", "timeout\t20"]
        txdocs = [b"a {{" + b"n" * n + b"}} b {{x.txt}}\n" for n in range(985, 1110)] + [b"{{", b"{{}}", b"{{{{a}}}}", b"Title: t\ntransclude base: /nonexistent\n\n{{a}}", b"{{a}} {{" + b"/" * 300 + b"}}", b"{{TOC}}{{TOC:1-3}}{{toc}}", b"{{x.*}}{{.*}}{{*}}"]
        for j, b in enumerate(txdocs):
            fp = os.path.join(wd, "t%d.txt" % j); open(fp, "wb").write(b)
            st.append(line("transclude", sx(fp), sx(wd + "/"), FMTS[j % 13], "src")); st.append(line("transclude", sx(fp), sx(wd), 0, "sde"[j % 3]))
        segs.append(st)
        try:
            res = run_harness(exe, segs, timeout=30)
        finally:
            shutil.rmtree(wd, ignore_errors=True)
        trace = []
        for si, (seg, r) in enumerate(zip(segs, res)):
            trace.append(dict(e="reset"))
            for ev in r["events"]:
                k = ev.get("e")
                if k in ("conv",): trace.append(dict(e="conv", null=ev["null"])); nconv += 1
                elif k in ("critic", "import"): trace.append(dict(e=k, null=ev.get("null", False), len=ev.get("len", 0), strlen=ev.get("strlen", 0), cap=ev.get("cap", 1 << 30)))
                elif k in ("meta", "eng", "tree", "inspect", "pool", "transclude"): trace.append(dict(e=k, null=False))
                elif k == "exit":
                    sl = ev.get("sline", 0); cmdline = seg[sl - 1] if 0 < sl <= len(seg) else "?"
                    sid_ = cmdline.split("\t")[2] if cmdline.startswith(("conv", "meta", "critic", "opml2text")) and len(cmdline.split("\t")) > 2 else "?"
                    sl_ = [x for x in seg[:sl] if x.startswith("src\t%s\t" % sid_)]
                    src_ = bytes.fromhex(sl_[-1].split("\t")[2][1:]).decode("latin-1")[:400] if sl_ and sl_[-1].split("\t")[2].startswith("=") else ""
                    trace.append(dict(e=k, null=True, code=ev.get("code", -1), command=" ".join(cmdline.split("\t")[:1] + cmdline.split("\t")[3:7]), source=src_))
                elif k in ("aborted", "timeout"): trace.append(dict(e=k, null=True))
            if r["status"] != "ok":
                problems.append((variant, seg, r))
                if not trace or trace[-1]["e"] not in ("aborted", "timeout", "exit"): trace.append(dict(e=r["status"], null=True))
        acc, rejected, states, info = tlc.validate_trace("SafetyTrace", os.path.join(VERIF, "spec", "SafetyTrace.cfg"), trace, max_rejects=60, timeout=1500, independent=True)
        chk.add("traces_validated_against_impl", len(segs) - len(rejected))
        chk.add("calls_monitored", acc)
        trace_by_variant[variant] = (len(segs), len(rejected))
        # rejections that are not crashes (malformed string results)
        for seg, idx in rejected:
            ev = seg[idx]
            if ev["e"] in ("critic", "import"):
                problems.append((variant, ["malformed result"], dict(status="malformed", san="", ev=ev)))
            elif ev["e"] == "exit":
                # exit() called from inside the library: the harness catches it and goes on, so the segment itself ended normally
                problems.append((variant, ["exit from library"], dict(status="exit-from-library", san="", ev=ev, idx=idx, nseg=len(seg))))
    chk.cov["evaluations"] = nconv
    chk.cov["distinct_nontrivial"] = len(cases)
    chk.cov["variants"] = {k: dict(segments=v[0], rejected=v[1]) for k, v in trace_by_variant.items()}
    chk.cov["explanation"] = ("Sanitizer-instrumented replay of TLC-enumerated hostile documents through every text-accepting entry point, in both allocation modes, judged by the SafetyTrace monitor. "
                              "This explores; it does not prove absence of undefined behaviour. Protocols whose breach is the memory error are model-checked under C18/C19/C15.")
    chk.cov["rule"] = "documents = context x fragment x fragment x terminator (quick: every fragment pair in the plain context + 6000 random full combinations; thorough: every pair in the plain context + 45000 sampled from the complete enumeration); each with 2 rotating formats of 13, an extension set from the pairwise covering, a rotating language, and one of four API groups (metadata, critic, engine/tree, import); plus size-boundary documents (40..1100 definitions of every kind, long labels, 300-column table) x 5 formats"
    chk.sample(dict(doc=doc_bytes(cases[11]).decode("latin-1"))); chk.sample(dict(doc=doc_bytes(cases[-1]).decode("latin-1")[:200], ext=exts[5]))
    # confirm + triage: isolate the failing command of each crashing segment
    seen = {}
    for variant, seg, r in problems:
        if r["status"] == "exit-from-library":
            cmd_ = (r["ev"].get("command") or "").split(" ")
            fmt_ = docs.FMTNAME.get(int(cmd_[1]), cmd_[1]) if len(cmd_) > 1 and cmd_[1].isdigit() else "?"
            key = "exit-from-library:code%s:%s" % (r["ev"].get("code"), "html-writer" if fmt_ in ("html", "htmlassets", "epub", "textbundle", "bundlezip") else fmt_)
            if key not in seen:
                seen[key] = 1; chk.report(key, "[%s build] the library called exit() during a call (caught by the harness): event %d of its segment, %s" % (variant, r["idx"], json.dumps(r["ev"])), dict(ev=r["ev"], variant=variant))
            continue
        if r["status"] == "malformed":
            key = "malformed-string-result:%s" % r["ev"]["e"]
            if key not in seen:
                seen[key] = 1; chk.report(key, "string result with strlen != recorded length or capacity <= length: %s" % json.dumps(r["ev"]), dict(ev=r["ev"]))
            continue
        k, f = san_signature(r.get("san", ""))
        key = "%s:%s:%s" % (r["status"], k, f)
        if key in seen: seen[key] += 1; continue
        seen[key] = 1
        # the dying command: last event's segment line
        last = [e for e in r["events"] if e.get("e") in ("aborted", "timeout")]
        sl = last[-1].get("sline", 0) if last else 0
        cmdline = seg[sl - 1] if 0 < sl <= len(seg) else "?"
        srcid = cmdline.split("\t")[2] if cmdline.startswith(("conv", "meta", "critic", "opml2text")) else "?"
        srcline = [x for x in seg[:sl] if x.startswith("src\t%s\t" % srcid)]
        src = bytes.fromhex(srcline[-1].split("\t")[2][1:]) if srcline and srcline[-1].split("\t")[2].startswith("=") else b""
        chk.report(key, "[%s build] %s in command %s on source %r :: %s" % (variant, r["status"], cmdline.split("\t")[:1] + cmdline.split("\t")[3:7], src[:300], r.get("san", "")[:500].replace("\n", " | ")),
                   dict(variant=variant, command=cmdline, source=src.decode("latin-1")))
    chk.cov["signatures"] = seen
    return chk.finish()


def replay(path):
    print(open(path).read()[:3000]); return 0
