"""C20 -- document wrapper and metadata never change the body rendering.

Wrapper.tla: metadata blocks over rendering-control keys, bibtex and ordinary keys; Complete(m) (when the default output is a complete document) and
BodyPart(m) (the only keys through which a block may change the body).  TLC enumerates every block of <= 2 keys (ordered; thorough 3) and simulates
longer ones; each x bodies x {html, latex, beamer, memoir} x {default, --full, --snippet} x extension sets.  WrapperTrace: the snippet occurs in the
complete rendering, the default equals complete exactly when Complete(m), and all blocks with the same BodyPart give the same snippet for a body.
"""
import json, os, random
from vlib import *  # noqa
import docs, project, build

LEVEL = "exploration"
GEN = "CONSTANTS MaxKeys = %d\n Sim = %s\nINIT Init\nNEXT Next\nINVARIANTS Law Emit\nCHECK_DEADLOCK FALSE\n"
E = docs.EXT
FM = ["html", "latex", "beamer", "memoir"]
BODIES = {
 "heads": "# One #\n\ntext \"quoted\" -- dash\n\n## Two ##\n\nmore\n",
 "notes": "para[^f] and cite[#k] and [#undef].\n\n[^f]: note\n\n[#k]: Knuth\n",
 "lists": "* a\n* b\n\n> quote 'single'\n\n    code\n",
 "plainp": "Just one paragraph.\n",
 "mail": "Write to <user@example.com> or <mailto:other@example.org> today.\n\n# Contact #\n\n<second@example.net>\n",
 "keylike": "Note: this first paragraph starts like a metadata key\nSecond: line\n\n# Head #\n\ntext\n",
 "starword": "*foo*bar* baz and _x_y_ z\n\n**bold**start\n",
 "emptykey": "Note:\nSee: other things\nThird: line\n\n# Head #\n\ntext\n",
 "table": "| a | b |\n|---|---|\n| c | d |\n\n### Deep ###\n\n*em* **st**\n",
}


def run(tier, seed):
    chk = Check("C20", LEVEL, tier, seed)
    rnd = random.Random(seed)
    chk.assumptions += ["bodies use no [%key] variables and no 'mmd header/footer' keys", "projection: occurs = number of occurrences of the snippet (minus its final newline) in the complete rendering",
                        "rendering-control keys as documented: header-level family, language, quotes language, latex mode; bibtex forces a complete document (documented) and may change the body"]
    g = tlc.run("Wrapper", GEN % (2 if tier == "quick" else 3, "FALSE"), workers=NCPU, timeout=900)
    gs = tlc.run("Wrapper", GEN % (5, "TRUE"), workers=4, simulate=(60 if tier == "quick" else 500), depth=6, seed=seed, timeout=600)
    if g.violated: raise FrameworkError("Wrapper law violated")
    blocks = uniq(g.printed + gs.printed, key=lambda b: b["src"])
    bodies = dict(BODIES)
    corp = docs.corpus()
    for nm in rnd.sample(sorted(corp), 6 if tier == "quick" else 30):
        t = corp[nm].decode("utf-8", errors="replace")
        # the body of a corpus document: everything after its own metadata block
        parts = t.split("\n\n", 1)
        b = parts[1] if len(parts) == 2 and ":" in parts[0].split("\n")[0] else t
        if "[%" in b or "{{" in b: continue
        bodies["c_" + nm.replace(" ", "_")] = b
    exts = [("std", docs.STD), ("nosmart", E["NOTES"] | E["CRITIC"]), ("nolabels", docs.STD | E["NO_LABELS"])]
    exe = build.build_harness("asan")
    cases = [(bn, bi) for bn in bodies for bi in range(len(blocks)) if not (bn == "keylike" and not blocks[bi]["m"])]      # without a block before it, 'Note: ...' IS metadata
    if tier == "quick": cases = [c for c in cases if c[0] in BODIES or c[1] % 7 == 0]
    segs = []; per = 6
    for i in range(0, len(cases), per):
        s = ["seg\twrap", "wantout\t1"]
        for j, (bn, bi) in enumerate(cases[i:i + per]):
            blk = blocks[bi]; bsrc = blk["yamlsrc"] if (i + j) % 5 == 0 and blk["m"] else blk["src"]
            if blk["m"]:
                # the line that ends the block is blank: empty, or white space only (spaces, a tab)
                bsrc = bsrc[:-1] + ["\n", " \n", "\t\n", "  \t\n", "\n"][(i + j) % 5]
            src = (bsrc + bodies[bn]).encode("utf-8")
            s.append(line("src", "w%d" % j, sx(src)))
            for f in FM:
                xn, x = exts[(i + j) % 3]
                for sw in (0, E["COMPLETE"], E["SNIPPET"]):
                    s.append(line("conv", "s_conv", "w%d" % j, docs.FMT[f], x | sw, 0))
        segs.append(s)
    res = run_harness(exe, segs, timeout=60)
    trace = []; problems = []; n = 0
    for si, (seg, r) in enumerate(zip(segs, res)):
        if r["status"] != "ok": problems.append(("crash", seg, r))
        trace.append(dict(e="reset"))
        outs = {}
        for ev in r["events"]:
            if ev.get("e") == "conv": outs[(ev["src"], ev["fmt"], ev["ext"] & (E["COMPLETE"] | E["SNIPPET"]))] = (project.lat1(ev["out"]) if ev.get("out") is not None else None, ev["ext"])
        for (sid, fmn, sw), (out, x) in sorted(outs.items()):
            if sw != 0: continue
            bn, bi = cases[si * per + int(sid[1:])]
            full = outs.get((sid, fmn, E["COMPLETE"]), (None, 0))[0]; snip = outs.get((sid, fmn, E["SNIPPET"]), (None, 0))[0]
            null = out is None or full is None or snip is None
            core = (snip or b"").rstrip(b"\n")
            trace.append(dict(e="wrap", null=null, fmt=docs.FMTNAME[fmn], ext=x, body=bn, m=blocks[bi]["m"], occurs=(full or b"").count(core) if core else 1, full_len=len(full or b""), snip_len=len(snip or b""),
                              dflt=project.fnv(out or b""), full=project.fnv(full or b""), snip=project.fnv(snip or b""), src=blocks[bi]["src"]))
            n += 1
    # the editor's flow: one engine (created on a DString the caller keeps editing) converts text after text: block A + body, then block B + body ...
    byset = {}
    for bi_, b_ in enumerate(blocks): byset.setdefault(tuple(b_["m"]), bi_)
    walks = []
    singles = [bi_ for bi_ in range(len(blocks)) if len(blocks[bi_]["m"]) == 1]
    nometa_ = [bi_ for bi_ in range(len(blocks)) if not blocks[bi_]["m"]][:1]
    title_ = [bi_ for bi_ in singles if blocks[bi_]["m"] == [8]][:1]
    for a_ in singles:
        for b2_ in nometa_ + title_: walks.append([a_, b2_, a_])
    for k_ in range(0, len(singles) - 1, 2): walks.append([singles[k_], singles[k_ + 1], singles[k_]])
    two_ = [bi_ for bi_ in range(len(blocks)) if len(blocks[bi_]["m"]) == 2]
    for a_ in two_[:: max(1, len(two_) // (12 if tier == "quick" else 60))]: walks.append([a_] + nometa_ + [a_] + title_)
    esegs = []; emeta = []
    for wi, w_ in enumerate(walks):
        for bn in ("heads", "notes"):
            f = FM[(wi + len(bn)) % len(FM)]; xn, x = exts[wi % 3]
            s = ["seg\tedit", "wantout\t0"]
            for k_, bi_ in enumerate(w_): s.append(line("src", "t%d" % k_, sx((blocks[bi_]["src"] + bodies[bn]).encode("utf-8"))))
            for k_ in range(len(w_)): s.append(line("conv", "s_conv", "t%d" % k_, docs.FMT[f], x | E["SNIPPET"], 0))
            s.append(line("e_new", 0, "t0", x | E["SNIPPET"], 0)); s.append(line("e_conv", 0, docs.FMT[f]))
            for k_ in range(1, len(w_)): s += [line("e_settext", 0, "t%d" % k_), line("e_conv", 0, docs.FMT[f])]
            s.append(line("e_free", 0))
            esegs.append(s); emeta.append((w_, bn, f, x))
    eres = run_harness(exe, esegs, timeout=60)
    nedit = 0
    for (w_, bn, f, x), seg, r in zip(emeta, esegs, eres):
        if r["status"] != "ok": problems.append(("crash", seg, r)); continue
        cv = [ev for ev in r["events"] if ev.get("e") == "conv"]
        trace.append(dict(e="reset"))
        if len(cv) != 2 * len(w_): raise FrameworkError("editor flow: %d conversions recorded for a walk of %d" % (len(cv), len(w_)))
        for k_, ev in enumerate(cv):
            st_ = k_ % len(w_)
            trace.append(dict(e="rebody", fresh=k_ < len(w_), null=ev["null"], fmt=f, ext=x, body="edit:" + bn, m=blocks[w_[st_]]["m"], snip=ev["digest"], step=st_, walk=[blocks[q_]["m"] for q_ in w_], src=blocks[w_[st_]]["src"])); nedit += 1
    chk.cov["editor_flow_conversions"] = nedit
    # the command line: -f / -s (and neither) together with the switches that choose the extension set -- the same relation, judged by the same monitor
    import subprocess, concurrent.futures, shutil
    cli = build.build_cli(); wd = scratch("c20")
    try:
        FLAGS = [("", 200001), ("-c", 200002), ("--nosmart", 200003), ("--nolabels", 200004), ("--notransclude", 200005)]
        mblocks = [bi for bi in range(len(blocks)) if blocks[bi]["m"]][:: max(1, len(blocks) // 3)][:3]
        nometa = [bi for bi in range(len(blocks)) if not blocks[bi]["m"]][:1]
        mblocks += [bi for bi in range(len(blocks)) if blocks[bi]["m"] in ([13], [14], [8, 13], [14, 8])]          # (keys that begin like 'mmd footer' / 'mmd header': only the command line looks those up)
        jobs = []
        for bn in [b_ for b_ in BODIES if b_ != "keylike"][: (3 if tier == "quick" else 7)]:
            for bi in nometa + mblocks:
                for fl, xt in FLAGS:
                    if fl == "-c" and blocks[bi]["m"]: continue            # (compatibility mode reads no metadata: the completeness rule speaks of MultiMarkdown documents)
                    jobs.append((bn, bi, fl, xt))
        def one(a):
            k, (bn, bi, fl, xt) = a
            f = os.path.join(wd, "w%d.txt" % k); open(f, "wb").write((blocks[bi]["src"] + bodies[bn]).encode("utf-8")); outs = {}
            for fm_ in FM:
                for sw in ("", "-f", "-s"):
                    p = subprocess.run([cli, "-t", fm_] + ([fl] if fl else []) + ([sw] if sw else []) + [f], stdout=subprocess.PIPE, stderr=subprocess.PIPE, env=san_env(os.path.join(wd, "cli%d" % k)), timeout=60)
                    outs[(fm_, sw)] = p.stdout if p.returncode == 0 else None
            return outs
        with concurrent.futures.ThreadPoolExecutor(NCPU) as ex:
            couts = list(ex.map(one, list(enumerate(jobs))))
        trace.append(dict(e="reset"))
        for (bn, bi, fl, xt), outs in zip(jobs, couts):
            for fm_ in FM:
                out, full, snip = outs[(fm_, "")], outs[(fm_, "-f")], outs[(fm_, "-s")]
                null = out is None or full is None or snip is None
                core = (snip or b"").rstrip(b"\n")
                trace.append(dict(e="wrap", null=null, fmt=fm_, ext=xt, body=bn, m=blocks[bi]["m"], occurs=(full or b"").count(core) if core else 1, full_len=len(full or b""), snip_len=len(snip or b""),
                                  dflt=project.fnv(out or b""), full=project.fnv(full or b""), snip=project.fnv(snip or b""), src=blocks[bi]["src"])); n += 1
        chk.cov["cli_cases"] = len(jobs) * len(FM)
    finally:
        shutil.rmtree(wd, ignore_errors=True)
    acc, rejected, states, info = tlc.validate_trace("WrapperTrace", os.path.join(VERIF, "spec", "WrapperTrace.cfg"), trace, max_rejects=40, timeout=1500)
    chk.add("traces_validated_against_impl", len(segs) - len(problems))
    chk.cov["evaluations"] = n * 3; chk.cov["distinct_nontrivial"] = len(cases)
    chk.cov["rule"] = "cases = bodies (7 hand-written, among them e-mail autolinks and a first paragraph that looks like a key; the blank line after the block spelled '', ' ', tab, '  tab' + corpus bodies) x metadata blocks (every ordered block of <= %d of 12 keys; simulated up to 5; every 5th YAML-fenced) x 4 formats x {default, --full, --snippet} with a rotating extension set" % (2 if tier == "quick" else 3)
    chk.sample(dict(block=blocks[20]["src"], body="heads")); chk.sample(dict(block=gs.printed[-1]["src"]))
    seen = {}
    for seg, idx in rejected:
        ev = seg[idx]
        keys = [["bhl", "hhl", "lhl", "lang", "qlang", "lmode", "bibtex", "title", "author", "custom", "css", "date", "mmdfooternote", "mmdheaderstyle"][k - 1] for k in ev["m"]]
        if ev["e"] == "rebody":
            key = "body-depends-on-earlier-text:%s:%s" % (ev["fmt"], "+".join(sorted(keys)))
            if key in seen: seen[key] += 1; continue
            seen[key] = 1
            chk.report(key, "one engine whose text is edited (blocks %s in turn, body %s, format %s): at step %d the body rendered for block %r is not the body a fresh conversion of the same text gives" % (ev["walk"], ev["body"], ev["fmt"], ev["step"], ev["src"]), dict(walk=ev["walk"], body=ev["body"], fmt=ev["fmt"], ext=ev["ext"], step=ev["step"]))
            continue
        if ev["null"]: what = "no-result"
        elif ev["occurs"] < 1: what = "snippet-not-in-complete"
        elif ev["full_len"] <= ev["snip_len"]: what = "complete-adds-nothing"
        elif ev["dflt"] not in (ev["full"], ev["snip"]): what = "default-is-neither"
        else:
            exp_full = any(k in ("bibtex", "title", "author", "custom", "css", "date") for k in keys)
            what = "default-choice" if (ev["dflt"] == ev["full"]) != exp_full else "body-depends-on-other-key"
        key = "%s:%s:%s" % (what, ev["fmt"], "+".join(sorted(keys)) if what in ("default-choice", "snippet-not-in-complete") else "+".join(sorted(k for k in keys if k in ("title", "author", "custom", "css", "date"))))
        if key in seen: seen[key] += 1; continue
        seen[key] = 1
        chk.report(key, "%s: body %s, block %r, format %s: occurs=%d lens=%d/%d" % (what, ev["body"], ev["src"], ev["fmt"], ev["occurs"], ev["snip_len"], ev["full_len"]), dict(block=ev["src"], body=ev["body"], fmt=ev["fmt"], ext=ev["ext"]))
    for kind, a, b in problems:
        k, f = san_signature(b.get("san", "")); key = "%s:%s:%s" % (b["status"], k, f)
        if key in seen: continue
        seen[key] = 1
        chk.report(key, "process ended :: %s" % b.get("san", "")[:300].replace("\n", " | "), dict(script=[x[:200] for x in a[:20]]))
    chk.cov["rejections_by_signature"] = seen
    return chk.finish()


def replay(path):
    print(open(path).read()[:3000]); return 0
