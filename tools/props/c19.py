"""C19 -- DString behaves like the obvious string model.

1. DStringMC: exhaustive model check of the ideal model + capacity-growth design (tiny StartCap).
2. DStringGen: TLC enumerates every history of length 1 (quick) / 2 over a reduced set (thorough) at the code's
   real scale and simulates longer ones; each is replayed on the real d_string.c (ASan+UBSan build).
3. DStringTrace: TLC validates every recorded post-state against the model.
"""
import json, os
from vlib import *  # noqa

LEVEL = "model_checking"
CFG_GEN = "CONSTANTS StartCap = 1024\n MaxOps = %d\n Sim = %s\nINIT InitGen\nNEXT NextGen\nINVARIANTS Emit CapOK\nCHECK_DEADLOCK FALSE\n"
CFG_MC = "CONSTANTS StartCap = 4\n MaxOps = %d\nINIT InitMC\nNEXT NextMC\nINVARIANTS CapOK Laws CapGrowthOK\nCHECK_DEADLOCK FALSE\n"

PAY = None


def payloads():
    X = lambda n: "x" * n
    return dict(P0="", Pa="a", Pab="ab", Pba="ba", Pabc="abc", Ppct="%d", PX253=X(253), PX254=X(254), PX255=X(255), PX509=X(509), PX510=X(510), PX511=X(511), PX1021=X(1021), PX1022=X(1022), PX2046=X(2046), PX1023=X(1023), PX1024=X(1024), PX1025=X(1025),
                I5="abaab", I1022="ab" + X(1020), I1023="ab" + X(1021), I1024="ab" + X(1022), I2047="ab" + X(2045), I2048="ab" + X(2046))


CHR = dict(c97=97, c120=120, c37=37, c0=0, c233=233, c255=255)


def to_script(hist):
    P = payloads()
    out = []
    for o in hist:
        op = o["op"]
        if op == "new": out.append(line("ds_new", sx(P[o["p"]])))
        elif op in ("append", "prepend"): out.append(line("ds_" + op, sx(P[o["p"]])))
        elif op == "append_c": out.append(line("ds_append_c", CHR[o["c"]]))
        elif op == "append_ca": out.append(line("ds_append_ca", sx(P[o["p"]]), o["len"]))
        elif op == "append_pf": out.append(line("ds_append_pf", o["k"], o["a"] if o["k"] == "d" else sx(P[o["a"]])))
        elif op == "insert": out.append(line("ds_insert", o["pos"], sx(P[o["p"]])))
        elif op == "insert_c": out.append(line("ds_insert_c", o["pos"], CHR[o["c"]]))
        elif op == "insert_ca": out.append(line("ds_insert_ca", o["pos"], sx(P[o["p"]]), o["len"]))
        elif op == "insert_pf": out.append(line("ds_insert_pf", o["pos"], o["k"], o["a"] if o["k"] == "d" else sx(P[o["a"]])))
        elif op == "erase": out.append(line("ds_erase", o["pos"], o["len"]))
        elif op == "copy": out.append(line("ds_copy", o["pos"], o["len"]))
        elif op == "replace": out.append(line("ds_replace", o["pos"], o["len"], sx(P[o["p"]]), sx(P[o["q"]])))
        else: raise FrameworkError("unknown op " + op)
    return out


def to_trace(hist, events):
    """join the recorded events with the generating operation (by script line)"""
    tr = [dict(e="reset")]
    for ev in events:
        if ev.get("e") != "ds":
            continue
        o = hist[ev["line"] - ev["_base"] - 1] if "_base" in ev else None
        # bytes 0xE9 / 0xFF are spelled Q / Z in the specification's alphabet (no payload contains those letters)
        r = dict(e="ds", op=ev["op"], s=ev.get("s", "").replace("\u00e9", "Q").replace("\u00ff", "Z"), len=ev.get("len", -7), cap=ev.get("cap", 0), strlen=ev.get("strlen", -7),
                 nul=ev.get("nul", False), usable=ev.get("usable", 0), ret=ev.get("ret", "").replace("\u00e9", "Q").replace("\u00ff", "Z"), delta=ev.get("delta", 0))
        r.update(pos=o["pos"], len0=o["len"], p=o["p"], q=o["q"], c=o["c"], k=o["k"], a=o["a"])
        tr.append(r)
    return tr


def replay_and_validate(chk, exe, hists, label):
    segs = [to_script(h) for h in hists]
    res = run_harness(exe, segs)
    trace, owners = [], []
    bad = []
    for hi, (h, r) in enumerate(zip(hists, res)):
        # events carry absolute script lines of the shard; recompute index inside the segment by order
        evs = [e for e in r["events"] if e.get("e") == "ds"]
        for k, e in enumerate(evs):
            e["_base"] = e["line"] - k - 1
        if r["status"] != "ok" or len(evs) != len(h):
            bad.append((hi, r))
            continue
        t = to_trace(h, evs)
        owners.append((len(trace), hi))
        trace += t
    acc, rejected, states, info = tlc.validate_trace("DStringTrace", os.path.join(VERIF, "spec", "DStringTrace.cfg"), trace, independent=True)
    chk.add("traces_validated_against_impl", len(hists) - len(bad) - len(rejected))
    chk.add("trace_events_validated", acc)
    chk.add("trace_states", states)
    out = []
    for seg, idx in rejected:
        out.append(("rejected", seg, idx))
    for hi, r in bad:
        out.append(("crash", hists[hi], r))
    return out


def signature(kind, hist, extra):
    if kind == "crash":
        k, f = san_signature(extra.get("san", ""))
        return "%s:%s:%s" % (extra["status"], k, f)
    op = extra
    return "model-mismatch:" + op


def run(tier, seed):
    chk = Check("C19", LEVEL, tier, seed)
    chk.assumptions += ["payloads contain no NUL byte", "insert/append_c_array: bytes <= strlen(payload) (reading past the payload is the caller's error)",
                        "replace_text_in_range: pattern is not empty", "x86-64 glibc, clang 14 ASan+UBSan; malloc_usable_size as reported by ASan",
                        "replace-in-range: only occurrences lying entirely inside the range are replaced"]
    # 1. design
    mc = tlc.run("DStringMC", CFG_MC % (2 if tier == "quick" else 3), workers=NCPU, coverage=True, timeout=1500)
    if mc.violated:
        raise FrameworkError("DStringMC: the model itself violates %s\n%s" % (mc.violated, mc.out[-2000:]))
    chk.cov["states"] = mc.distinct; chk.cov["transitions"] = mc.generated
    chk.cov["mc"] = dict(module="DStringMC", StartCap=4, MaxOps=2 if tier == "quick" else 3, distinct=mc.distinct, generated=mc.generated, depth=mc.depth,
                         coverage={k: list(v) for k, v in mc.coverage.items()})
    if mc.coverage.get("NextMC", (0, 0))[0] == 0:
        raise FrameworkError("DStringMC: NextMC never taken (vacuous)")
    # 2. behaviours
    exe = build.build_harness("asan")
    g1 = tlc.run("DStringGen", CFG_GEN % (1, "FALSE"), workers=8)
    hists = list(g1.printed)
    nsim, depth = (1500, 6) if tier == "quick" else (12000, 10)
    gs = tlc.run("DStringGen", CFG_GEN % (depth - 1, "TRUE"), workers=4, simulate=nsim // 4, depth=depth + 1, seed=seed, timeout=900)
    hists += gs.printed
    if tier == "thorough":
        g2 = tlc.run("DStringGen", (CFG_GEN % (2, "FALSE")).replace("INIT InitGen", "INIT InitGenSmall"), workers=NCPU, timeout=1500, heap="16g")
        hists += g2.printed
    hists = uniq(hists)
    chk.cov["evaluations"] = len(hists)
    chk.cov["distinct_nontrivial"] = len([h for h in hists if any(o["op"] not in ("new", "copy") for o in h)])
    chk.cov["rule"] = ("histories = new(initial) followed by operations; BFS: every history of 1 operation over 7 initial strings x boundary "
                       "positions/lengths x payloads (thorough: also every history of 2 over initial strings I5/I1023); simulation: random histories "
                       "of %d operations, kind chosen uniformly then arguments; non-trivial = contains at least one mutating operation" % (depth - 1))
    for h in hists[:2] + hists[-2:]:
        chk.sample([{k: v for k, v in o.items() if k == "op" or v not in (0, "P0", "c0", "d")} for o in h])
    problems = replay_and_validate(chk, exe, hists, "gen")
    # 3. confirm each problem in isolation, then triage
    for kind, a, b in problems:
        if kind == "rejected":
            seg, idx = a, b
            hist = [dict(op=r["op"], pos=r["pos"], len=r["len0"], p=r["p"], q=r["q"], c=r["c"], k=r["k"], a=r["a"]) for r in seg[1:]]
            again = replay_and_validate(Check("C19", LEVEL, tier, seed), exe, [hist], "confirm")
            if not again:
                chk.notes.append("unconfirmed rejection dropped: " + json.dumps(hist)[:300])
                continue
            ev = seg[idx]
            key = "model-mismatch:" + ev["op"]
            what = "real d_string.c disagrees with the ideal model at op %d (%s) of history %s; observed len=%s cap=%s strlen=%s nul=%s ret=%r" % (
                idx, ev["op"], json.dumps([{k: v for k, v in o.items() if k == "op" or v not in (0, "P0", "c0", "d")} for o in hist]), ev["len"], ev["cap"], ev["strlen"], ev["nul"], ev["ret"][:40])
            chk.report(key, what, dict(history=hist))
        else:
            hist, r = a, b
            again = run_harness(exe, [to_script(hist)])[0]
            if again["status"] == "ok" and len([e for e in again["events"] if e.get("e") == "ds"]) == len(hist):
                chk.notes.append("unconfirmed crash dropped")
                continue
            k, f = san_signature(again.get("san", ""))
            nev = len([e for e in again["events"] if e.get("e") == "ds"])
            op = hist[nev] if nev < len(hist) else hist[-1]
            key = "%s:%s:%s" % (again["status"], k, f)
            what = "%s during op %s of history %s :: %s" % (again["status"], json.dumps({k2: v for k2, v in op.items() if k2 == "op" or v not in (0, "P0", "c0", "d")}), json.dumps([o["op"] for o in hist]), again.get("san", "")[:300].replace("\n", " | "))
            chk.report(key, what, dict(history=hist))
    return chk.finish()


def replay(path):
    d = json.load(open(path))
    hist = d["replay"]["history"]
    exe = build.build_harness("asan")
    c = Check("C19", LEVEL, "quick", 0)
    pr = replay_and_validate(c, exe, [hist], "replay")
    for p in pr:
        print("REPRODUCED:", p[0])
    return 1 if pr else 0
