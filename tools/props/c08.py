"""C08 -- XML-based outputs are well-formed for every input.

Generator: TextModel's slots x the XML-reserved characters (each with its plain-text twin) and x a list of delimiter fragments (CriticMarkup, math,
angle-bracket runs, entities, CDATA / comment openers), plus metadata keys/values, URLs and titles.  Members: -t opml, -t fodt, ITMZ mapdata.xml, ODT
content/styles/meta/settings/manifest, EPUB main.opf / nav.xhtml / container.xml / main.xhtml.  An independent XML parser (expat) turns each member into
events; TextTrace accepts only well-formed members and, where a plain-text twin exists, requires the same element skeleton (the text did not break
out of its element or attribute) and the character itself to be found in the parsed text or attribute values.
"""
import json, os, random, re
from vlib import *  # noqa
import docs, project

LEVEL = "exploration"
GEN = "CONSTANTS Mode = \"esc\"\n MaxBlocks = 0\n Sim = FALSE\nINIT Init\nNEXT Next\nINVARIANTS EscLaw Emit\nCHECK_DEADLOCK FALSE\n"
E = docs.EXT
FRAGS = ["{>>c<<}", "{~~x~>y~~}", "{++a++}", "{--d--}", "{==h==}", "`<<`", "$<$", "\\\\(a<b\\\\)", "<<", ">>", "]]>", "<!--", "-->", "&amp;", "&#60;", "&unknown;", "a\"b'c", "<?pi", "a<b>c", "&", "\"", "'<'", "[%title]"]
XMLCH = ("amp", "lt", "gt", "quot", "apos", "letter")
RAWHTML = ("&unknown;", "a<b>c", "<?pi", "<!--", "-->", "&amp;", "&#60;")     # passed through to HTML-family members by design (entities, tags, comments typed by the user)
EXTRA = ["Title: a \"q\" & <1>\nAuthor: x's <2>\nKey & <3>: v\ncss: a\"b.css\n\n# H & <1> \"q\" #\n\n[l](http://u/?a=1&b=<2> \"ti & <4>\")\n\n![a & <5>](i&.png \"t\")\n",
         "Title: {>>c<<} `<<` $<$\n\n# {~~x~>y~~} #\n\n| {++a++} | `<<` |\n|---|---|\n| $<$ | b |\n",
         "[^f]: note & <1> {>>c<<}\n\nx[^f] [#c;] *[>ab]*\n\n[#c]: cite <2> &\n\n[>ab]: A & <3>\n\nab\n", "<http://a.b/?x=1&y=<2>> <a&b@c.d>\n",
         "[>AT&T]: American Telephone & Telegraph\n\n[?R&D]: research & <4> development\n\nAT&T and [>AT&T] and [>AT&T] again, [?R&D] and [?R&D], note[^n] and again[^n], cite[#c&d] and [#c&d].\n\n[^n]: N & <1>\n\n[#c&d]: C & <2>\n",
         # e-mail autolinks (written obfuscated, character by character) with letters beyond ASCII in the host name, in a paragraph and in a heading (navigation document)
         "<info@m\u00fcnchen.example> and <mailto:x@caf\u00e9.example>\n\n# Mail <post@\u4e2d\u6587.example> #\n\ntext <a&b@\u00e9.d>\n",
         # image addresses whose reserved characters come AFTER the last dot (query strings): every place a package derives something from the address
         "![c](img/chart.png?rev=3&size=large) ![d](http://x.y/render.cgi?a=1&b=<2>) ![e](pic.v1.p&g) ![f](a.b<c)\n\n![g][r]\n\n[r]: img/r.jpeg?x=1&y=2 \"T & t\"\n",
         "Title: T & \"1\"\nBase Header Level: 2\nLanguage: de\nAuthor: A & B\nDate: 2020 <x>\nKeywords: a, b & c\nCopyright: (c) & <y>\nuuid: 1&2\n\n# Caf\u00e0\n\ntext\u00e0\n"] + \
        [# headings whose text yields no label at all (nothing but punctuation / reserved characters), an empty manual label, between ordinary ones and nested: every navigation structure built from headings
         "# ??? #\n\ntext\n\n## & ##\n\nmore\n\n## <> ##\n\n### \"!?\" ###\n\n# Next #\n\n\"!\"\n=====\n\n## Title [] ##\n\nend\n", "{{TOC}}\n\n# !!! #\n\n## ... ##\n\n# & #\n\n!?\n---\n\ntext\n"] + \
        ["Title: L\n%s: %d\n\npre\n\n# One\n\n## Two\n\ntext\n\n### Three\n\n# Four\n\nend\n" % (k, v) for k in ("Base Header Level", "ODF Header Level", "HTML Header Level", "EPUB Header Level") for v in (-3, -1, 0, 1, 4, 9)]


def members(fmt, out):
    """-> list of (member name, bytes)"""
    if fmt in ("opml", "fodt"): return [(fmt, out)]
    ok, mem, err = project.zip_members(out)
    if not ok: return [(fmt + ":notzip", b"<")]
    res = []
    for m in mem:
        n = m["name"]
        if n.endswith((".xml", ".opf", ".xhtml", ".opml")) or n == "mimetype" and False:
            res.append((fmt + ":" + re.sub(r"[0-9a-f]{8}-[0-9a-f-]{27}", "UUID", n), m["data"]))
    return res


def run(tier, seed):
    chk = Check("C08", LEVEL, tier, seed)
    rnd = random.Random(seed)
    chk.assumptions += ["sources are valid UTF-8 without control characters and without raw HTML constructs in HTML-family members (raw HTML is passed through by design)",
                        "well-formedness is expat's verdict; 'found' = the run's character occurs in the parser's unescaped text or attribute values"]
    ge = tlc.run("TextModel", GEN, workers=8, timeout=600)
    if ge.violated: raise FrameworkError("TextModel law violated")
    esc = [c for c in ge.printed if c["chname"] in XMLCH]
    cases = []       # (src, base or None, label, needle)
    for c in esc:
        if c["slot"] in ("title", "imgtitle") and c["chname"] == "quot": continue          # (a double quote cannot be written inside a double-quoted title)
        cases.append((c["src"].encode(), c["base"].encode() if c["chname"] != "letter" else None, "%s:%s" % (c["slot"], c["chname"]), ("QZQ " + c["ch"] + " QZQ")))
    slots = sorted({(c["slot"], c["base"]) for c in esc})
    for (slot, base) in slots:
        if slot in ("codespan", "codeblock", "indented"): fr = FRAGS[:6] + FRAGS[8:13] + FRAGS[16:19]
        else: fr = FRAGS
        for f in fr:
            if slot in ("title", "imgtitle") and '"' in f: continue
            cases.append((base.replace("QZQ x QZQ", "QZQ " + f + " QZQ").encode(), None, "%s:frag:%s" % (slot, f), None))
    # multi-byte characters whose last byte is special to the lexer, at the very end of each text position
    for (slot, base) in slots:
        for f in ("\u00e0", "\u2020", "\u00a0x\u00a0", "\u00e9", "\U0001F4A0"):
            cases.append((base.replace("QZQ x QZQ", "QZQ " + f).encode("utf-8"), None, "%s:frag:U+%04X" % (slot, ord(f[0])), None))
    for x in EXTRA: cases.append((x.encode(), None, "extra", None))
    # headings of every length from 200 to 300 bytes (and around 500 / 1000): labels and titles travel through formatted writes of their own
    for n in list(range(200, 301)) + list(range(505, 520)) + list(range(1015, 1030)):
        cases.append((("# " + "h" * n + "\n\ntext\n").encode(), None, "extra:len%d" % n, None))
    # delimiter soup (every ordered pair of inline delimiters, three shapes); raw '<' '>' pairs are HTML pass-through by design in HTML-family members only
    soup = docs.delimiter_soup()
    for (k, a, b2, d) in (soup if tier == "thorough" else soup[::2]):
        cases.append((d.encode(), None, "soup:%s:%s" % (a, b2), None))
    exe = build.build_harness("asan")
    fm = ["opml", "fodt", "itmz", "odt", "epub"]
    exts = [docs.STD, docs.STD | E["COMPLETE"], E["NOTES"]]
    segs = []; per = 10
    for i in range(0, len(cases), per):
        s = ["seg\txml", "wantout\t1"]
        for j, (src, base, label, needle) in enumerate(cases[i:i + per]):
            s.append(line("src", "c%d" % j, sx(src)))
            if base: s.append(line("src", "b%d" % j, sx(base)))
            for f in fm:
                if tier == "quick" and f in ("odt", "epub", "itmz") and (i + j) % 3 and not label.startswith("extra"): continue
                x = exts[(i + j) % 3]
                s.append(line("conv", "s_data", "c%d" % j, docs.FMT[f], x, 0))
                if base: s.append(line("conv", "s_data", "b%d" % j, docs.FMT[f], x, 0))
        segs.append(s)
    res = run_harness(exe, segs, timeout=60)
    trace = []; problems = []; nmem = 0
    for si, (seg, r) in enumerate(zip(segs, res)):
        if r["status"] != "ok": problems.append(("crash", seg, r))
        trace.append(dict(e="reset"))
        outs = {}
        for ev in r["events"]:
            if ev.get("e") == "conv" and ev.get("out") is not None: outs[(ev["src"], ev["fmt"])] = project.lat1(ev["out"])
        for (sid, fmn), out in sorted(outs.items()):
            if not sid.startswith("c"): continue
            src, base, label, needle = cases[si * per + int(sid[1:])]
            fmt = docs.FMTNAME[fmn]
            bm = dict(members(fmt, outs[("b" + sid[1:], fmn)])) if base and ("b" + sid[1:], fmn) in outs else {}
            for name, data in members(fmt, out):
                if name.endswith(".xhtml") and ":frag:" in label and label.split(":frag:")[1] in RAWHTML: continue
                ok, evs, err = project.xml_events(data)
                skel = project.sha(("/".join((e[0][0] + e[1]) for e in evs if e[0] in ("open", "close"))).encode()) if ok else ""
                hasbase = name in bm
                bskel = ""
                found = True
                if hasbase:
                    okb, evb, _ = project.xml_events(bm[name])
                    bskel = project.sha(("/".join((e[0][0] + e[1]) for e in evb if e[0] in ("open", "close"))).encode()) if okb else "base-not-wellformed"
                    if ok and needle:
                        txt = "".join(e[1] for e in evs if e[0] == "text") + " ".join(v for e in evs if e[0] == "open" for v in e[2].values())
                        btxt = "".join(e[1] for e in evb if e[0] == "text") + " ".join(v for e in evb if e[0] == "open" for v in e[2].values()) if okb else ""
                        # the character is found wherever the plain twin shows its letter
                        found = (txt.count(needle) >= 1) == (btxt.count("QZQ x QZQ") >= 1) or needle.count("'") > 0
                trace.append(dict(e="xml", member=name, label=label, wellformed=ok, err=err, hasbase=hasbase, skeleton=skel, baseskeleton=bskel, found=found, src=src.decode("utf-8")))
                nmem += 1
    acc, rejected, states, info = tlc.validate_trace("TextTrace", os.path.join(VERIF, "spec", "TextTrace.cfg"), trace, max_rejects=60, timeout=1500, independent=True)
    chk.add("traces_validated_against_impl", len(segs) - len(problems))
    chk.cov["evaluations"] = nmem; chk.cov["distinct_nontrivial"] = len(cases)
    chk.cov["members_checked"] = sorted({e["member"] for e in trace if e["e"] == "xml"})
    chk.cov["rule"] = "cases = 24 text slots x {& < > \" ' and a plain letter as twin} + slots x %d delimiter fragments + 4 composite documents (metadata keys/values, URLs, titles, notes); each x {opml, fodt, itmz, odt, epub} (quick: packages for a third of the cases) x 3 extension sets rotating; every XML member parsed by expat" % len(FRAGS)
    chk.sample(dict(src=cases[3][0].decode(), label=cases[3][2])); chk.sample(dict(src=cases[-2][0].decode()[:200], label=cases[-2][2]))
    seen = {}
    for seg, idx in rejected:
        ev = seg[idx]
        what = "not-wellformed" if not ev["wellformed"] else ("structure-changed" if ev["hasbase"] and ev["skeleton"] != ev["baseskeleton"] else "text-not-found")
        lab = ev["label"]
        cause = lab.split(":frag:")[1] if ":frag:" in lab else lab
        key = "%s:%s:%s" % (what, ev["member"].split(":")[0] + (":" + ev["member"].split("/")[-1] if ":" in ev["member"] else ""), cause)
        if key in seen: seen[key] += 1; continue
        seen[key] = 1
        chk.report(key, "member %s of %r: %s %s" % (ev["member"], ev["src"][:200], what, ev["err"]), dict(src=ev["src"], member=ev["member"], err=ev["err"]))
    for kind, a, b in problems:
        k, f = san_signature(b.get("san", "")); key = "%s:%s:%s" % (b["status"], k, f)
        if key in seen: continue
        seen[key] = 1
        chk.report(key, "process ended :: %s" % b.get("san", "")[:300].replace("\n", " | "), dict(script=[x[:200] for x in a[:20]]))
    chk.cov["rejections_by_signature"] = seen
    return chk.finish()


def replay(path):
    print(open(path).read()[:3000]); return 0
