"""C07 -- bounded stack and linear cost on nested and repeated input.

Cost.tla: (1) the recursion structure (guarded builders bound every walker) model-checked with scaled limits; (2) generators: 32 nesting constructs x
{opener only, balanced, closer only, interleaved} x depths; k-fold repetitions of seed documents and of the published pathological patterns;
(3) monitor over measurements of real conversions in the `plain` build (function-entry instrumentation for depth and stack extent, trace-pc-guard
for executed basic blocks -- deterministic, no timing): depth and stack bounds, and blocks(d^k) <= 3 k blocks(d).
"""
import json, os, random
from vlib import *  # noqa
import docs

LEVEL = "other"
MC = "CONSTANTS Limit = %d\n MaxNest = %d\n Sim = FALSE\n Mode = \"r\"\nINIT RInit\nNEXT RNext\nINVARIANTS Bounded Monotone\nCHECK_DEADLOCK FALSE\n"
GEN = "CONSTANTS Limit = 3\n MaxNest = 0\n Sim = FALSE\n Mode = \"g\"\nINIT GInit\nNEXT GNext\nINVARIANT Emit\nCHECK_DEADLOCK FALSE\n"
PATHO = {"path1": lambda n: "*a **a\n" * n + "b " + "a** a*\n" * n, "path2": lambda n: "a_\n" * n, "path3": lambda n: "_a\n" * n, "path4": lambda n: "a]\n" * n, "path5": lambda n: "[a\n" * n,
         "path6": lambda n: "*a_\n" * n, "path7": lambda n: "[ a_\n" * n, "path8": lambda n: "**x [*b**c*](d)\n" * n, "brackets": lambda n: "[" * (10 * n) + "a" + "]" * (10 * n) + "\n",
         # unbalanced runs: above the library's large-stack threshold (1000 open items) the search is cut short, so the seed itself must already be above it
         # many closed spans in ONE paragraph (a single long sibling chain)
         "strongs": lambda n: "**a** " * (4 * n) + "\n", "emphs": lambda n: "*a* " * (4 * n) + "\n", "codes": lambda n: "`a` " * (4 * n) + "\n", "links": lambda n: "[a](b) " * (4 * n) + "\n",
         "critics": lambda n: "{++a++} " * (4 * n) + "\n",
         # many uses of a defined abbreviation / glossary term on one line (the automatic search works per text token)
         "abbrline": lambda n: "[>ab]: Abbr\n\n" + "ab " * (4 * n) + "\n", "glossline": lambda n: "[?term]: Gloss\n\n" + "term x " * (4 * n) + "\n",
         "mixed": lambda n: "[ ( ]" + "[" * (20 * n) + ")" * (20 * n) + "\n"}


def symtab(exe):
    """text symbols of the harness executable: address -> name"""
    import subprocess
    out = subprocess.run(["nm", "-n", "--defined-only", exe], stdout=subprocess.PIPE, text=True).stdout
    tab = {}
    for ln in out.splitlines():
        f = ln.split()
        if len(f) == 3 and f[1] in "tT": tab.setdefault(int(f[0], 16), f[2])
    base = [a for a, nm in tab.items() if nm == "mmd_string_convert"]
    return tab, (base[0] if base else 0)


def deep_names(ev, sym):
    tab, base = sym
    return sorted({tab.get(base + d, "fn+%d" % d) for d, cnt in ev.get("deep", [])})


def nest_class(o):
    if o and set(o) <= set("*_"): return "emphasis-delimiter-run"
    if o in ("[^", "[#"): return "nested-note-brackets"
    return o.strip() or "indent"


def nest_doc(g, n):
    o, c, s = g["o"], g["c"], g["shape"]
    if o in ("> ", "* ", "  "):        # block-level nesting: one line with n markers / n lines of growing indentation
        if o == "> ": return (">" * n + " a\n")
        if o == "* ": return "".join(" " * (2 * i) + "* a\n" for i in range(min(n, 3000)))
        return "".join(" " * min(i, 400) + "a\n" for i in range(min(n, 3000)))
    if s == "open": return o * n + "a\n"
    if s == "close": return "a" + c * n + "\n"
    if s == "balanced": return o * n + "a" + c * n + "\n"
    return (o + "a" + (c or o)) [::-1] * 0 + "".join((o if i % 2 == 0 else (c or o)) + "a" for i in range(n)) + "\n"


def run(tier, seed):
    chk = Check("C07", LEVEL, tier, seed)
    chk.assumptions += ["cost = executed basic blocks (clang trace-pc-guard), not seconds; the harness's own work is not counted", "conversions run on a thread with an 8 MiB stack; a fatal signal or watchdog expiry is an event the monitor refuses",
                        "seed documents containing {{TOC}} are not repeated (k copies ask for k tables of contents over k times the headings: quadratic output by request)", "constant of proportionality 3; stack bound 4 MiB; stack growth between nesting 2000 and deeper nesting at most 256 KiB"]
    mc = tlc.run("Cost", MC % (3, 12), workers=2); mc2 = tlc.run("Cost", MC % (1000, 1300), workers=2)
    if mc.violated or mc2.violated: raise FrameworkError("Cost: recursion structure law violated")
    chk.cov["states"] = mc.distinct + mc2.distinct; chk.cov["transitions"] = max(mc.generated + mc2.generated, 1)
    g = tlc.run("Cost", GEN, workers=4)
    gens = g.printed
    exe = build.build_harness("plain")
    depths = [2000, 10000] if tier == "quick" else [2000, 10, 100, 1000, 10000, 100000, 300000]
    writers = ["html", "latex"] if tier == "quick" else ["html", "latex", "fodt", "opml", "beamer"]
    segs = []; meta = []
    for gi, gg in enumerate(gens):
        s = ["seg\tnest", "timeout\t120"]
        for d in depths:
            doc = nest_doc(gg, d)
            if len(doc) > 1200000: continue
            s.append(line("src", "n%d" % d, sx(doc.encode())))
            for w in writers: s.append(line("cost", "n%d" % d, docs.FMT[w], docs.STD))
        segs.append(s); meta.append(("nest", gg))
        if gg["o"] in ('"', "'", "\"a 'a "):
            # quotation marks again with smart typography off (the quote pairs are then written by a different branch of every writer)
            s = ["seg\tnest", "timeout\t120"]
            for d in depths:
                doc = nest_doc(gg, d)
                if len(doc) > 1200000: continue
                s.append(line("src", "n%d" % d, sx(doc.encode())))
                for w in writers: s.append(line("cost", "n%d" % d, docs.FMT[w], docs.STD & ~docs.EXT["SMART"]))
            segs.append(s); meta.append(("nest", dict(gg, o=gg["o"] + " nosmart")))
    # flat documents of n headings through the packaged formats: their navigation / outline writers walk the heading list with a recursion of their own
    for hname, hdoc in (("setext1 headings (flat)", lambda n: "A\n==\n\n" * n), ("setext2 headings (flat)", lambda n: "A\n--\n\n" * n), ("atx headings (flat)", lambda n: "# A\n\n" * n),
                        ("stair headings", lambda n: "".join("#" * (1 + i % 6) + " A\n\n" for i in range(n)))):
        s = ["seg\tnest", "timeout\t120"]
        for d in depths:
            if d > 100000: continue
            s.append(line("src", "n%d" % d, sx(hdoc(d).encode())))
            for w in ("epub", "odt", "itmz", "opml"): s.append(line("cost", "n%d" % d, docs.FMT[w], docs.STD))
        segs.append(s); meta.append(("nest", dict(o=hname, c="", shape="flat")))
    # the edge of the parser's own depth guard: siblings nested right at the limit, the later one much deeper
    s = ["seg\tedge", "timeout\t120"]
    for L in (998, 999, 1000, 1001):
        for deep in (30000,) if tier == "quick" else (30000, 300000):
            for v, M in enumerate((L, L - 1)):
                doc = ">" * L + " a\n" + ">" * M + "\n" + ">" * (M + deep) + " b\n"
                sid = "n%d" % (L * 10000000 + v * 1000000 + deep)
                s.append(line("src", sid, sx(doc.encode())))
                for w in writers[:2]: s.append(line("cost", sid, docs.FMT[w], docs.STD, 8192 if deep > 100000 else 2048))
    segs.append(s); meta.append(("nest", dict(o="> (guard edge)", c="", shape="siblings")))
    ks = [1, 2, 4] if tier == "quick" else [1, 2, 4, 8, 16, 32]
    seeds = {("pool:" + k): v for k, v in list(docs.POOL.items())[: (6 if tier == "quick" else 12)]}
    corp = docs.corpus()
    for nm in sorted(corp)[:: (14 if tier == "quick" else 2)]: seeds["corpus:" + nm] = corp[nm].decode("utf-8", "replace")
    PN = 150 if tier == "quick" else 400
    for nm, f in PATHO.items(): seeds["patho:" + nm] = f(PN)
    # k copies of a document that asks for a table of contents contain k tables of k times as many entries: the OUTPUT is quadratic, by the document's own request
    seeds = {nm: txt for nm, txt in seeds.items() if "{{TOC" not in txt}
    for nm, seedtxt in seeds.items():
        s = ["seg\tcost", "timeout\t120"]
        for k in ks:
            body = ((seedtxt + "\n\n") * k) if not nm.startswith("patho") else PATHO[nm[6:]](PN * k)
            s.append(line("src", "k%d" % k, sx(body.encode())))
            s.append(line("cost", "k%d" % k, docs.FMT["html"], docs.STD))
            if tier == "thorough": s.append(line("cost", "k%d" % k, docs.FMT["latex"], docs.STD))
            if "{" in seedtxt:
                # the CriticMarkup accept and reject passes over the same text (formats 101 / 102: what -a / -r run before parsing)
                s.append(line("cost", "k%d" % k, 101, 0)); s.append(line("cost", "k%d" % k, 102, 0))
        segs.append(s); meta.append(("cost", nm))
    # notes that refer to themselves, directly or through another note: the writers that expand a note where it is called (LaTeX family, OpenDocument)
    # must still end; one back reference per note gives a chain (bounded by the export depth guard), two give a tree (listed finding)
    CYC = {"self-footnote": "x[^a]\n\n[^a]: one [^a]\n", "self-citation": "x[#a]\n\n[#a]: one [#a]\n", "self-glossary": "x[?a]\n\n[?a]: one [?a]\n",
           "two-cycle": "x[^a] y[^b]\n\n[^a]: to b [^b]\n\n[^b]: back [^a]\n", "mixed-cycle": "x[^a]\n\n[^a]: cite [#c]\n\n[#c]: gloss [?g]\n\n[?g]: note [^a]\n",
           "self-in-emphasis": "Text *em[^a]*.\n\n[^a]: Note *that cites itself[^a]*.\n", "self-in-quote": "> Text[^a].\n\n[^a]: Note that cites itself *again[^a]*.\n",
           "self-in-strong": "**a *em[^a]* b**\n\n* item[^a]\n\n[^a]: n **s *e[^a]* s**\n",
           "double-back": "x[^a]\n\n[^a]: to b [^b]\n\n[^b]: back [^a] [^a]\n"}
    for nm, doc in CYC.items():
        for w in ("html", "latex", "fodt", "beamer", "memoir", "opml"):
            if nm == "double-back" and tier == "quick" and w in ("beamer", "memoir"): continue
            s = ["seg\tcycle", "timeout\t%d" % (5 if nm == "double-back" else 60), line("src", "k1", sx(doc.encode())), line("cost", "k1", docs.FMT[w], docs.STD)]
            segs.append(s); meta.append(("cost", "cycle:%s:%s" % (nm, w)))
    res = run_harness(exe, segs, timeout=120)
    sym = symtab(exe)
    trace = []; problems = []; n = 0
    for (kind, what), seg, r in zip(meta, segs, res):
        trace.append(dict(e="reset"))
        for ev in r["events"]:
            if ev.get("e") != "cost": continue
            n += 1
            if kind == "nest":
                trace.append(dict(e="nest", key="%s|%s|%d" % (what["o"], what["shape"], ev["fmt"]), null=ev["null"], maxdepth=ev["maxdepth"], stackkib=ev["stackkib"], depth=int(ev["src"][1:]), op=what["o"], shape=what["shape"], fmt=ev["fmt"], kblocks=ev["kblocks"],
                                  deep=[dict(fn=nm) for nm in deep_names(ev, sym)]))
                # the same measurement as a cost event: nesting n times deeper may cost at most proportionally more (base: nesting 2000)
                dep = int(ev["src"][1:])
                if dep < 10000000 and dep >= 2000 and dep % 2000 == 0 and what["shape"] != "siblings":
                    trace.append(dict(e="cost", null=ev["null"], seed="nest:%s:%s:%s|%d" % (nest_class(what["o"]), what["o"], what["shape"], ev["fmt"]), k=dep // 2000, kblocks=ev["kblocks"], maxdepth=ev["maxdepth"]))
            else:
                trace.append(dict(e="cost", null=ev["null"], seed="%s|%d" % (what, ev["fmt"]), k=int(ev["src"][1:]), kblocks=ev["kblocks"], maxdepth=ev["maxdepth"]))
        if r["status"] != "ok":
            last = [e for e in r["events"] if e.get("e") in ("aborted", "timeout")]
            sl = last[-1].get("sline", 0) if last else 0
            trace.append(dict(e=r["status"], what=str(what), cmd=seg[sl - 1][:60] if 0 < sl <= len(seg) else "?", op=(what.get("o", "") if isinstance(what, dict) else ""),
                              shape=(what.get("shape", "") if isinstance(what, dict) else ""), san=r.get("san", "")[:3000]))
    acc, rejected, states, info = tlc.validate_trace("Cost", "CONSTANTS Limit = 1000\n MaxNest = 0\n Sim = FALSE\n Mode = \"t\"\nINIT TInit\nNEXT TNext\nPOSTCONDITION TraceAccepted\nCHECK_DEADLOCK FALSE\n", trace, max_rejects=300, timeout=1500, independent=True)
    chk.add("traces_validated_against_impl", len(segs) - len(rejected))
    chk.cov["evaluations"] = n; chk.cov["distinct_nontrivial"] = len(segs)
    chk.cov["explanation"] = ("Recursion structure model-checked (Limit 3 and 1000); measurements of %d conversions judged by the Cost monitor: stack <= 4 MiB and not growing with nesting beyond 2000 for %d nesting constructs x 4 shapes x depths %s; "
                              "blocks(d^k) <= 3 k blocks(d) for %d seed documents x k in %s. Measurement, not proof." % (n, len(gens) // 4, depths, len(seeds), ks))
    chk.cov["rule"] = "nesting docs = opener^n [a closer^n] for 32 opener kinds x 4 shapes x depths; cost docs = seed^k for pool/corpus/pathological seeds; cyclic note references (6 shapes) x 6 writers must return"
    chk.cov["max_observed"] = dict(maxdepth=max([e.get("maxdepth", 0) for e in trace if e["e"] in ("nest", "cost")] or [0]), stackkib=max([e.get("stackkib", 0) for e in trace if e["e"] == "nest"] or [0]))
    chk.sample(dict(doc=nest_doc(gens[0], 10))); chk.sample(dict(seed="patho:path1", k=ks))
    seen = {}
    for seg, idx in rejected:
        ev = seg[idx]
        if ev["e"] == "nest" and ev["deep"]:
            key = "unguarded-recursion:" + "+".join(d["fn"] for d in ev["deep"]); desc = "nesting %r x %d (%s), format %d: more than 1500 frames of %s active at once (recursion depth %d, stack %d KiB)" % (ev["op"], ev["depth"], ev["shape"], ev["fmt"], [d["fn"] for d in ev["deep"]], ev["maxdepth"], ev["stackkib"])
        elif ev["e"] == "nest": key = ("stack-proportional-to-nesting:%s" % nest_class(ev["op"])) if ev["shape"] == "balanced" else "depth-or-stack:%s:%s" % (ev["op"], ev["shape"]); desc = "nesting %r x %d (%s), format %d: recursion depth %d, stack %d KiB" % (ev["op"], ev["depth"], ev["shape"], ev["fmt"], ev["maxdepth"], ev["stackkib"])
        elif ev["e"] == "cost":
            b = [x for x in seg if x.get("e") == "cost" and x["seed"] == ev["seed"] and x["k"] == 1]
            key = "superlinear:%s" % (":".join(ev["seed"].split("|")[0].split(":")[:2]) if ev["seed"].startswith("nest:") else ev["seed"].split("|")[0]); desc = "seed %s: %d copies cost %d kblocks, one copy %s kblocks" % (ev["seed"], ev["k"], ev["kblocks"], b[0]["kblocks"] if b else "?")
        elif ev.get("op") and ev["e"] == "timeout":
            # a conversion of the nesting family that does not finish within the watchdog is a cost failure of that construct
            key = "superlinear:nest:%s" % nest_class(ev["op"]); desc = "nesting %r (%s): conversion did not finish within the watchdog (%s)" % (ev["op"], ev["shape"], ev.get("cmd"))
        elif ev.get("op") and ev["e"] in ("aborted", "killed"):
            kd, fr = san_signature(ev.get("san", ""))
            deep = "SEGV" in ev.get("san", "") and "zero page" not in ev.get("san", "")          # a fault away from address 0 on a thread whose stack is the limit: the stack ran out
            key = ("unguarded-recursion:%s" % (fr or nest_class(ev["op"]))) if (deep and ev["shape"] in ("balanced", "open", "close", "interleaved")) else "aborted:nest:%s:%s" % (kd, fr)
            desc = "nesting %r (%s): the process died during %s :: %s" % (ev["op"], ev["shape"], ev.get("cmd"), ev.get("san", "")[:300].replace("\n", " | "))
        elif str(ev.get("what", "")).startswith("cycle:"): key = "%s:%s" % (ev["e"], ":".join(ev["what"].split(":")[:2])); desc = "%s: conversion of a document whose notes refer to each other did not return (%s)" % (ev["what"], ev["e"])
        else: key = "%s:%s" % (ev["e"], ev.get("what", ""))[:120]; desc = "conversion did not return: %s during %s" % (ev["e"], ev.get("cmd"))
        if key in seen: seen[key] += 1; continue
        seen[key] = 1
        chk.report(key, desc, dict(event=ev))
    chk.cov["rejections_by_signature"] = seen
    return chk.finish()


def replay(path):
    print(open(path).read()[:3000]); return 0
