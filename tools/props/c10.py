"""C10 -- generated anchors and the references to them always match.

Notes.tla gives, for an abstract document (note events, headings, cross-references, TOC, captioned table), the numbering by first use, which call
carries the back-link target, the entries of each list and the id of every heading.  TLC enumerates note histories (<= 3 events BFS, 5 simulated) and
heading sets (every style x title shape x manual label); the real HTML is projected to href/id events (html.parser) and NotesTrace validates,
including the renaming discipline under --random / --unique.
"""
import json, os, random, html.parser
from vlib import *  # noqa
import docs, project

LEVEL = "model_checking"
GEN = "CONSTANTS MaxEv = %d\n MaxHead = %d\n Sim = %s\nINIT Init\nNEXT Next\nINVARIANTS NumberingOK Emit\nCHECK_DEADLOCK FALSE\n"
UMAP = {"~E": "é", "~U": "Ü"}
E = docs.EXT
OPTS = [("default", docs.STD), ("random", docs.STD | E["RANDOM_FOOT"]), ("unique", docs.STD | E["RANDOM_LABELS"]), ("nolabels", docs.STD | E["NO_LABELS"]), ("compatish", E["NOTES"])]


def enc(s):
    for k, v in UMAP.items(): s = s.replace(k, v)
    return s.encode("utf-8")


def dec(s):
    for k, v in UMAP.items(): s = s.replace(v, k)
    return s


class P(html.parser.HTMLParser):
    def __init__(self):
        super().__init__(convert_charrefs=True)
        self.calls = []; self.entries = {"fn": [], "cn": [], "gn": []}; self.hids = []; self.toc = []; self.xrefs = []; self.intoc = 0; self.cur = None; self.divs = []; self.tids = []

    def handle_starttag(self, tag, attrs):
        a = dict(attrs)
        if tag == "div":
            self.divs.append(a.get("class", ""))
            if a.get("class") == "TOC": self.intoc += 1
        if tag in ("h1", "h2", "h3", "h4", "h5", "h6") and "id" in a: self.hids.append(dec(a["id"]))
        if tag == "table": self.tids.append(dec(a.get("id", "")))
        if tag == "li" and a.get("id", "")[:3] in ("fn:", "cn:", "gn:"):
            k = a["id"][:2]; self.cur = [a["id"][3:], ""]; self.entries[k].append(self.cur)
        if tag == "a":
            h = a.get("href", ""); c = a.get("class", "")
            if c in ("footnote", "citation", "glossary") and h.startswith("#"):
                k = h[1:3]; self.calls.append([k, h[4:], "id" in a and a["id"] == k + "ref:" + h[4:]])
            elif c.startswith("reverse") and h.startswith("#") and self.cur is not None:
                self.cur[1] = h.split(":", 1)[1]
            elif h.startswith("#"):
                (self.toc if self.intoc else self.xrefs).append(dec(h[1:]))

    def handle_endtag(self, tag):
        if tag == "div" and self.divs:
            if self.divs.pop() == "TOC": self.intoc -= 1
        if tag == "li": self.cur = None


def run(tier, seed):
    chk = Check("C10", LEVEL, tier, seed)
    rnd = random.Random(seed)
    chk.assumptions += ["HTML is projected to href/id events with python's html.parser", "a key is either cited or listed as 'not cited'; inline note texts are distinct; heading titles in one document are distinct",
                        "heading ids are predicted for titles over letters, digits, punctuation and two multi-byte characters (place-holders substituted bijectively)"]
    ga = tlc.run("Notes", GEN % (3, 0, "FALSE"), workers=NCPU, timeout=1500, heap="16g")          # (4 events: tens of millions of documents -- longer histories come from the simulation below)
    gh = tlc.run("Notes", GEN % (0, 2, "FALSE"), workers=NCPU, timeout=900)
    if ga.violated or gh.violated: raise FrameworkError("Notes: NumberingOK violated")
    gs = tlc.run("Notes", GEN % (5, 3, "TRUE"), workers=4, simulate=(150 if tier == "quick" else 6000), depth=10, seed=seed, timeout=900)
    chk.cov["states"] = ga.distinct + gh.distinct; chk.cov["transitions"] = max(ga.generated + gh.generated, 1)
    A = ga.printed; Hh = gh.printed
    chk.cov["documents_enumerated"] = len(A) + len(Hh)
    # TLC enumerates all of them; a seeded sample is replayed (quick 2 x 2500, thorough 2 x 40000)
    cap = 2500 if tier == "quick" else 40000
    A.sort(key=lambda d: d["src"]); Hh.sort(key=lambda d: d["src"])          # (TLC's workers print in no fixed order: the sample must not depend on it)
    A = rnd.sample(A, min(len(A), cap)); Hh = rnd.sample(Hh, min(len(Hh), cap))
    dl = uniq(A + Hh + gs.printed, key=lambda d: d["src"])
    exe = build.build_harness("asan")
    segs = []; per = 25; owners = []
    for i in range(0, len(dl), per):
        s = ["seg\tnotes", "wantout\t1"]
        for j, d in enumerate(dl[i:i + per]):
            s.append(line("src", "n%d" % j, sx(enc(d["src"]))))
            for oi, (on, ox) in enumerate(OPTS[:4]):
                if oi == 0 or (i + j + oi) % 4 == 0 or (on == "unique" and d["doc"]["toc"] and d["doc"]["heads"]):     # (every table of contents also with random heading ids)
                    s.append(line("conv", "s_conv", "n%d" % j, 0, ox, 0))
            if (i + j) % 4 == 1:
                # one parse, the token tree exported twice: the second export must be as good as the first
                s += [line("e_new", 0, "n%d" % j, docs.STD, 0), line("e_parse", 0), line("e_export", 0, 0), line("e_export", 0, 0), line("e_free", 0)]
        segs.append(s)
    res = run_harness(exe, segs, timeout=30)
    trace = []; problems = []
    for si, (seg, r) in enumerate(zip(segs, res)):
        if r["status"] != "ok": problems.append(("crash", seg, r))
        nexp = {}
        for ev in r["events"]:
            if ev.get("e") != "conv": continue
            if ev.get("fam") == "e_export":
                nexp[ev["src"]] = nexp.get(ev["src"], 0) + 1
                if nexp[ev["src"]] != 2: continue          # the first export equals the one-shot conversion; the second is the one judged here
            d = dl[si * per + int(ev["src"][1:])]
            p = P(); p.feed(project.lat1(ev["out"]).decode("utf-8", errors="replace"))
            x = ev["ext"]
            trace.append(dict(e="reset"))
            trace.append(dict(e="anchors", doc=d["doc"], src=d["src"], random=bool(x & E["RANDOM_FOOT"]), unique=bool(x & E["RANDOM_LABELS"]), labels=not (x & (E["RANDOM_LABELS"] | E["NO_LABELS"])),
                              calls=p.calls, entries=p.entries, hids=p.hids, tids=p.tids, toc=p.toc, xrefs=p.xrefs, ext=x))
    acc, rejected, states, info = tlc.validate_trace("NotesTrace", os.path.join(VERIF, "spec", "NotesTrace.cfg"), trace, max_rejects=60, timeout=1500, independent=True)
    # the two listed deviations under random heading ids are named actions of NotesTrace (XrefByTitle, TocOutOfStep): every event that takes one is reported here
    devs = {}
    for ev in trace:
        if ev.get("e") != "anchors": continue
        d = ev["doc"]
        if d.get("cross") and not d.get("nested") and [c for c in ev["calls"] if c[0] == "fn" and c[1] not in [x[0] for x in ev["entries"]["fn"]]]:
            devs.setdefault("note-called-from-later-list", []).append(ev)          # (named action NoteCalledFromLaterList)
        if not ev["unique"]: continue
        if [x for x in ev["xrefs"] if x not in ("tbl", "cap") and x not in ev["hids"]]: devs.setdefault("unique:xref-uses-title-label-but-heading-id-is-random", []).append(ev)
        if d["toc"] and ev["toc"] and any(h["manual"] for h in d["heads"]) and not all(t in ev["hids"] for t in ev["toc"]): devs.setdefault("unique:toc-ids-out-of-step-after-manual-label", []).append(ev)
    nconv = len([e for e in trace if e["e"] == "anchors"])
    chk.add("traces_validated_against_impl", nconv - len(rejected))
    chk.cov["evaluations"] = nconv; chk.cov["distinct_nontrivial"] = len(dl)
    chk.cov["rule"] = "documents: TLC BFS over note histories of <= 3 events%.0s (calls to 3 labels x 3 kinds, inline footnotes, not-cited citations) x {plain, list, quote} x TOC x table; TLC BFS over 1-2 headings (5 title shapes x 4 styles x manual label x referenced); simulation mixing 5 events and 3 headings; each with and without 'Base Header Level: 2' metadata, rendered default and (rotating) with --random / --unique / --nolabels; every fourth document also parsed once and exported twice from the same engine" % (3 if tier == "quick" else 4)
    chk.sample(dict(src=dl[3]["src"][:300])); chk.sample(dict(src=gs.printed[-1]["src"][:400]))
    seen = {}
    for seg, idx in rejected:
        ev = seg[idx]; d = ev["doc"]
        mode = "random" if ev["random"] else ("unique" if ev["unique"] else "default")
        styles = sorted({h["style"] for h in d["heads"] if h["ref"] and not h["manual"]})
        notes_part_ok = True   # diagnostic split only; TLC made the decision
        if ev["unique"]:
            dangling = [x for x in ev["xrefs"] if x != "tbl" and x not in ev["hids"]]
            if dangling: cause = "xref-uses-title-label-but-heading-id-is-random"
            elif ev["toc"] and ev["toc"] != ev["hids"]: cause = "toc-ids-out-of-step-after-manual-label" if any(h["manual"] for h in d["heads"]) else "toc-ids-differ"
            else: cause = "other:" + "+".join(sorted({e["a"] for e in d["ev"]}))
        elif d["heads"] and (ev["hids"] != [h for h in ev["hids"]] or True) and not d["ev"]:
            cause = "headings:" + ("+".join(styles) if styles else "unreferenced")
        else:
            cause = "notes:" + "+".join(sorted({e["a"] for e in d["ev"]})) + (":headings" if d["heads"] else "")
        key = "%s:%s" % (mode, cause)
        if key in seen: seen[key] += 1; continue
        seen[key] = 1
        chk.report(key, "anchors of %r [%s]: calls=%s entries=%s hids=%s toc=%s xrefs=%s" % (ev["src"][:260], mode, ev["calls"], json.dumps(ev["entries"]), ev["hids"], ev["toc"], ev["xrefs"]), dict(src=ev["src"], ext=ev["ext"]))
    rej_ids = {id(seg[idx]) for seg, idx in rejected}
    for key, evs in devs.items():
        for ev in evs:
            if id(ev) in rej_ids: continue
            chk.report(key, "anchors of %r [unique]: hids=%s toc=%s xrefs=%s" % (ev["src"][:260], ev["hids"], ev["toc"], ev["xrefs"]), dict(src=ev["src"], ext=ev["ext"]))
    for kind, a, b in problems:
        k, f = san_signature(b.get("san", "")); key = "%s:%s:%s" % (b["status"], k, f)
        if key in seen: seen[key] += 1; continue
        seen[key] = 1
        chk.report(key, "process ended :: %s" % b.get("san", "")[:300].replace("\n", " | "), dict(script=[x[:200] for x in a[:30]]))
    chk.cov["rejections_by_signature"] = seen
    return chk.finish()


def replay(path):
    print(open(path).read()[:3000]); return 0
