"""C15 -- the exposed token tree is structurally sound and stays inside the source.

TreeInv.tla states the invariant; the harness dumps the real tree (pointer fields as node numbers) after mmd_engine_parse_string, after
mmd_engine_parse_substring, and after every export; TLC evaluates TreeOK on every dump.  TokenEnum (generated from the headers) carries the
compile-time relations between the published enum ranges and the tables that assume them.
"""
import json, os, random, time
from vlib import *  # noqa
import docs
sys.path.insert(0, os.path.join(VERIF, "specgen"))
import writer_cases
from props import c02

LEVEL = "model_checking"
FMTS = ["html", "latex", "fodt", "opml", "beamer", "memoir", "itmz"]
E = docs.EXT
EXTS = [docs.STD, docs.COMPAT, docs.STD | E["COMPLETE"], E["NOTES"] | E["CRITIC"] | E["CRITIC_ACCEPT"], docs.STD | E["NO_LABELS"] | E["PROCESS_HTML"],
        docs.STD | E["NO_METADATA"], docs.STD | E["CRITIC_REJECT"], E["SMART"], docs.STD | E["RANDOM_LABELS"]]


def witness(ev):
    """diagnostic only: name the sub-invariant and the node TLC's TreeOK must have stumbled over"""
    N = ev["nodes"]
    if ev["shared"]: return "FiniteTree", 0
    if not N or N[0][0] != 0 or N[0][1] != ev["base"] or N[0][2] != ev["span"]: return "RootOK", N[0][0] if N else -1
    for i, n in enumerate(N, 1):
        if n[1] + n[2] > ev["srclen"]: return "InSource", n[0]
    for i, n in enumerate(N, 1):
        if n[3] == -1 or n[5] == -1: return "Linked(dangling)", n[0]
        if n[3] > 0 and N[n[3] - 1][4] != i: return "Linked", n[0]
    for i, n in enumerate(N, 1):
        if n[3] > 0 and N[n[3] - 1][1] < n[1]: return "Ordered", n[0]
    for i, n in enumerate(N, 1):
        if n[6] != 0 and (n[6] < 0 or N[n[6] - 1][6] != i): return "Mated", n[0]
    return "?", -1


CHAIN_CFG = "CONSTANTS N = %d\n MaxOps = %d\n WithSplit = %s\nINIT Init\nNEXT Next\nINVARIANTS NoDangling Linked Acyclic MateOK OneParent %s\nVIEW View\nCHECK_DEADLOCK FALSE\n"


def chain_script(h):
    out = ["tk_reset"]
    for o in h:
        op = o["op"]
        if op == "new": out.append(line("tk_new", o["t"], o["s"], o["l"]))
        elif op in ("append_child", "prune", "mate"): out.append(line("tk_" + op, o["a"], o["b"]))
        elif op in ("remove_first_child", "remove_last_child", "pop_link"): out.append(line("tk_" + op, o["a"]))
        elif op == "prune_graft": out.append(line("tk_prune_graft", o["a"], o["b"], o["t"]))
        elif op == "split": out.append(line("tk_split", o["a"], o["s"], o["l"], o["t"]))
        elif op == "new_parent": out.append(line("tk_new_parent", o["a"], o["t"]))
    return out


def chain_level(chk, tier, exe):
    """TokenChain: the token.c primitives as a transition system.  (1) TLC: every forest reachable by <= MaxOps primitives over <= N tokens keeps the
    chain invariants; (2) one shortest history per reachable forest is replayed on real tokens and TokenChainTrace demands the real pointer graph to be
    the model's after every primitive."""
    n, k = (4, 4) if tier == "quick" else (4, 6)
    mc = [("split", tlc.run("TokenChain", CHAIN_CFG % (4, 6, "TRUE", ""), workers=16, timeout=900, want_printed=False)),
          ("tails", tlc.run("TokenChain", CHAIN_CFG % (((4, 6) if tier == "quick" else (5, 7)) + ("FALSE", "TailOKRoots")), workers=16, timeout=1100, want_printed=False, heap="16g"))]
    for nm, r in mc:
        chk.cov["states"] += r.distinct; chk.cov["transitions"] += r.generated
        chk.cov["chain_mc_" + nm] = dict(distinct=r.distinct, violated=r.violated)
        if r.violated:
            chk.report("chain-model:" + r.violated, "TokenChain (%s configuration): the primitives as modelled do not preserve %s :: %s" % (nm, r.violated, r.cex[:1200]), dict(tlc=r.cex[:6000]))
    chk.cov["chain_t_mc"] = round(sum(r.wall for _, r in mc), 1)
    g = tlc.run("TokenChain", CHAIN_CFG % (n, k, "TRUE", "EmitAll"), workers=16, timeout=900)
    chk.cov["chain_t_gen"] = round(g.wall, 1)
    hs = g.printed
    if len(hs) < 500:
        raise FrameworkError("TokenChain generated only %d histories" % len(hs))
    segs = []
    per = 200
    for i in range(0, len(hs), per):
        s = ["seg\ttk"]
        for h in hs[i:i + per]: s += chain_script(h)
        segs.append(s)
    res = run_harness(exe, segs, timeout=60)
    trace = []; nev = 0
    for i, r in enumerate(res):
        evs = [e for e in r["events"] if e.get("e") == "chain" or (e.get("e") == "reset" and e.get("tag") == "chain")]
        hi = -1; oi = 0
        for e in evs:
            if e["e"] == "reset":
                hi += 1; oi = 0; trace.append(dict(e="reset", h=i * per + hi)); continue
            h = hs[i * per + hi]
            if oi < len(h):
                o = h[oi]; oi += 1
                trace.append(dict(e="chain", op=o["op"], a=o["a"], b=o["b"], s=o["s"], l=o["l"], t=o["t"], nodes=e["nodes"], got=e["op"])); nev += 1
        if r["status"] != "ok":
            kd, f = san_signature(r.get("san", ""))
            chk.report("chain:%s:%s:%s" % (r["status"], kd, f), "token primitives on a model-generated history ended the process :: %s" % r.get("san", "")[:300].replace("\n", " | "), dict(script=segs[i][-40:]))
    acc, rej, st, info = tlc.validate_trace("TokenChainTrace", os.path.join(VERIF, "spec", "TokenChainTrace.cfg"), trace, independent=True, max_rejects=8, timeout=900, parallel=12)
    chk.cov["states"] += st; chk.cov["transitions"] += st
    chk.add("traces_validated_against_impl", len(hs) - len(rej))
    chk.cov["chain_t_validate"] = round(info["wall"], 1)
    chk.cov["chain_histories"] = len(hs); chk.cov["chain_events"] = nev
    chk.sample(dict(chain_history=hs[len(hs) // 2]))
    seen = set()
    for seg, idx in rej:
        ev = seg[idx]; key = "chain:" + ev["op"]
        if key in seen: continue
        seen.add(key)
        h = hs[seg[0]["h"]]
        chk.report(key, "after %s in history %s the real tokens' pointer graph %s is not the forest TokenChain prescribes" % (ev["op"], json.dumps(h), json.dumps(ev["nodes"])), dict(history=h, script=chain_script(h), nodes=ev["nodes"]))


PAIRS_CFG = "CONSTANTS MaxLen = %d\n Thr = %d\n Sim = %s\n Table <- SynTable\nINIT %s\nNEXT Next\nINVARIANTS %s\nCHECK_DEADLOCK FALSE\n"
PAIRS_INV = "CountAgrees StackOK MateSym Admissible WellNested Greedy FoldAgrees"


def pairs_level(chk, tier, exe, seed):
    """TokenPairs: the pairing engine transcribed; (1) TLC checks symmetry, admissibility, non-crossing and the declarative 'nearest usable opener' characterisation on every
    chain of <= 4 (thorough 5) tokens over the synthetic table (every option combination), with the large-stack shortcut always taken (Thr = 0) and never taken, and on every
    chain of <= 2 (thorough 3) tokens over the tables of real engines (RealPairings, generated from the running library); (2) every chain of <= 3 (thorough 4), simulated
    longer ones and chains that cross the real threshold of 1000 pending openers are run through the real engine code and TokenPairsTrace demands the model's matching."""
    sys.path.insert(0, os.path.join(VERIF, "specgen"))
    import pairings
    gd = os.path.join(BUILD, "specgen")
    real = pairings.generate(gd)
    n = 4 if tier == "quick" else 5
    rn = 2 if tier == "quick" else 3
    REAL = [("RealStd3", docs.STD, 3), ("RealStd4", docs.STD, 4), ("RealStd1", docs.STD, 1), ("RealCompat3", docs.COMPAT, 3), ("RealCompat4", docs.COMPAT, 4)]
    jobs = [("syn-thr0", "TokenPairs", PAIRS_CFG % (n, 0, "FALSE", "Init", PAIRS_INV), {})]
    jobs.append(("syn-thr1000", "TokenPairs", PAIRS_CFG % (n - 1, 1000, "FALSE", "Init", PAIRS_INV), {}))
    for tab, x, which in REAL:
        jobs.append((tab, "TokenPairsReal", (PAIRS_CFG % (rn, 0, "FALSE", "Init", PAIRS_INV)).replace("Table <- SynTable", "Table <- " + tab), dict(spec_dirs=(gd,))))
    def mc(j):
        return tlc.run(j[1], j[2], workers=4, timeout=1500, want_printed=False, heap="12g", **j[3])
    with concurrent.futures.ThreadPoolExecutor(4) as ex:
        outs = list(ex.map(mc, jobs))
    for j, r in zip(jobs, outs):
        chk.cov["states"] += r.distinct; chk.cov["transitions"] += r.generated
        chk.cov["pairs_mc_" + j[0]] = dict(distinct=r.distinct, violated=r.violated)
        if r.violated:
            chk.report("pairs-model:%s:%s" % (j[0], r.violated), "TokenPairs (%s): the pairing engine as transcribed violates %s :: %s" % (j[0], r.violated, r.cex[-1500:]), dict(tlc=r.cex[-6000:]))
    def spec(ts): return "".join("%d:%d:%d:%d:%d;" % (t["ty"], t["len"], 1 if t["adj"] else 0, 1 if t["co"] else 0, 1 if t["cc"] else 0) for t in ts)
    # behaviours: synthetic table
    g = tlc.run("TokenPairs", PAIRS_CFG % (3 if tier == "quick" else 4, 1000, "FALSE", "Init", "Emit"), workers=16, timeout=1500, heap="16g")
    gs = tlc.run("TokenPairs", PAIRS_CFG % (9, 1000, "TRUE", "Init", "Emit"), workers=4, simulate=(1500 if tier == "quick" else 20000), depth=12, seed=seed, timeout=900)
    gd2 = tlc.run("TokenPairs", PAIRS_CFG % (1, 1000, "FALSE", "InitDeep", "EmitDeep"), workers=4, timeout=900)
    deep = [c["toks"] for c in gd2.printed]
    deep.sort(key=lambda ts: (len(ts), ts[0]["ty"], len(ts[-1]), ts[-1]["ty"]))
    if tier == "quick": deep = deep[::3]
    short = uniq([c["toks"] for c in g.printed + gs.printed])
    # the long chains are spread over the sequence so that the parallel validation chunks share them
    step = max(1, len(short) // (len(deep) + 1)); allc = []
    for i, ts in enumerate(short):
        allc.append(ts)
        if i % step == step - 1 and deep: allc.append(deep.pop())
    allc += deep
    fam = [("SynTable", "-", allc)]
    if len(fam[0][2]) < 5000 or len(gd2.printed) < 40: raise FrameworkError("TokenPairs generated %d chains (%d deep)" % (len(fam[0][2]), len(gd2.printed)))
    # behaviours: real tables (every chain of <= 2, simulated up to 7)
    def realgen(a):
        tab, x, which = a
        cfgr = lambda n2, sim: (PAIRS_CFG % (n2, 1000, sim, "Init", "Emit")).replace("Table <- SynTable", "Table <- " + tab)
        gr = tlc.run("TokenPairsReal", cfgr(2, "FALSE"), workers=3, timeout=900, spec_dirs=(gd,))
        grs = tlc.run("TokenPairsReal", cfgr(7, "TRUE"), workers=2, simulate=(800 if tier == "quick" else 12000), depth=10, seed=seed, timeout=900, spec_dirs=(gd,))
        return (tab, "real:%d:%d" % (x, which), uniq([c["toks"] for c in gr.printed + grs.printed]))
    with concurrent.futures.ThreadPoolExecutor(5) as ex:
        fam += list(ex.map(realgen, REAL))
    per = 400; segs = []; owner = []
    for tab, targ, chains in fam:
        for i in range(0, len(chains), per):
            segs.append(["seg\tpairs"] + [line("pairs", spec(ts), targ) for ts in chains[i:i + per]]); owner.append((tab, chains[i:i + per]))
    res = run_harness(exe, segs, timeout=60)
    traces = {}
    for (tab, chains), seg, r in zip(owner, segs, res):
        tr = traces.setdefault(tab, [])
        tr.append(dict(e="reset"))
        evs = [e for e in r["events"] if e.get("e") == "pairs"]
        for ts, e in zip(chains, evs):
            tr.append(dict(e="pairs", toks=ts, mate=e["mate"], depth=e["depth"], conts=e["conts"], stack=e["stack"], table=e["table"]))
        if r["status"] != "ok":
            kd, f = san_signature(r.get("san", ""))
            chk.report("pairs:%s:%s:%s" % (r["status"], kd, f), "the pairing engine on a model-generated chain (%s) ended the process :: %s" % (tab, r.get("san", "")[:300].replace("\n", " | ")), dict(script=[x2[:300] for x2 in seg[-5:]]))
    seen = set(); nch = 0
    for tab, targ, chains in fam:
        nch += len(chains)
        cfgt = open(os.path.join(VERIF, "spec", "TokenPairsTrace.cfg")).read().replace("Table <- SynTable", "Table <- " + tab)
        acc, rej, st, info = tlc.validate_trace("TokenPairsTrace" if tab == "SynTable" else "TokenPairsRealTrace", cfgt, traces.get(tab, []), independent=True, max_rejects=8, timeout=1200, parallel=8, spec_dirs=(gd,))
        chk.cov["states"] += st; chk.cov["transitions"] += st
        chk.add("traces_validated_against_impl", len(chains) - len(rej))
        chk.cov["pairs_chains_" + tab] = len(chains)
        for seg, idx in rej:
            ev = seg[idx]; deep = len(ev["toks"]) > 900
            key = "pairs:%s%s" % ("deep-stack" if deep else "matching", "" if tab == "SynTable" else ":" + tab)
            if key in seen: continue
            seen.add(key)
            sp = spec(ev["toks"]) if not deep else ("%d x %s + %s" % (len(ev["toks"]) - 5, spec(ev["toks"][:1]), spec(ev["toks"][-5:])))
            chk.report(key, "the real pairing engine's result on chain %s with table %s (mate %s, depth %s, containers %s; table as built %s) is not the matching TokenPairs prescribes" % (sp, tab, ev["mate"][-8:], ev["depth"][-8:], ev["conts"][-4:], str(ev["table"])[:160]),
                       dict(chain=spec(ev["toks"]), table=tab, mate=ev["mate"], depth=ev["depth"], conts=ev["conts"], real_table=ev["table"]))
    chk.cov["pairs_deep_chains"] = len([1 for ts in fam[0][2] if len(ts) > 900])
    chk.sample(dict(pairs_chain=spec(fam[0][2][len(fam[0][2]) // 3]), real_table_RealStd4=real["RealStd4"]))


def run(tier, seed):
    chk = Check("C15", LEVEL, tier, seed)
    rnd = random.Random(seed)
    chk.assumptions += ["head.tail consistency and child-inside-parent containment are not demanded (the property does not state them)",
                        "first child's prev pointer is not constrained; a node's prev is checked through its predecessor's next"]
    gd = os.path.join(BUILD, "specgen")
    names, vals, cases = writer_cases.generate(gd)
    en = tlc.run("TokenEnum", "INIT Init\nNEXT Next\nINVARIANTS EnumOK\n", workers=1, spec_dirs=(gd,), extra=("-nowarning",))
    problems = []
    if en.violated:
        problems.append(("enum", en.cex[:1500]))
    chk.cov["states"] = max(en.distinct, 1); chk.cov["transitions"] = max(en.generated, 1)
    exe = build.build_harness("asan")
    t0 = time.time(); chain_level(chk, tier, exe); chk.cov["t_chain_level"] = round(time.time() - t0, 1)
    t0 = time.time(); pairs_level(chk, tier, exe, seed); chk.cov["t_pairs_level"] = round(time.time() - t0, 1)
    t0 = time.time()
    corp = docs.corpus()
    table, seqs, seqs3, sim, seqs4 = c02.gen_docs("quick", seed)
    dl = [(n, corp[n]) for n in sorted(corp)] + [("pool:" + k, v.encode()) for k, v in docs.POOL.items()]
    # definitions whose tail is split into words by the writers (destination, title, attributes with and without values)
    dl += [("x:linkdef-words", b"[foo]: /url a b c d e f g\n\n[foo] ![i][foo]\n"), ("x:linkdef-attrs", b'[r]: http://x.y/ "T" class=c width=3px height=4px x\n\ntext [r] ![i][r]\n'),
           ("x:linkdef-angle", b"[a]: <http://x.y/z> 'single' k=v\n[b]: u (paren title) k\n\n[a] [b]\n"), ("x:imgattr", b'![i](p.png "t" width=3px  height=4px k)\n'),
           # code spans whose content is blank(s) only, or a blank on either side (the writers trim the first and last inner token)
           ("x:codespans", b"a ` ` b `\\ ` c ` x ` d `     ` e `` ` `` f\n\n` `\n"),
           # links whose text starts with a two-character opener: the writers widen a token to print it
           ("x:openerlink", b"[^foo](url)\n\ntext [^foo](url) and [#c](u) [%v](u) [>a](u) [?g](u) more\n\n[^r][l] ![#i](p.png)\n\n[l]: /d\n"),
           # ... the same openers on links that point into the document itself (the writers treat internal addresses on a path of their own)
           ("x:openerinternal", b"Intro text.\n\n# Sec #\n\nSee [^above](#sec) for details and [#c](#sec) [?g](#sec) [>a](#sec).\n\n[^r][i] end\n\n[i]: #sec\n")]
    gen = [("seq", c02.text_of(table, s)) for s in seqs] + [("seq3", c02.text_of(table, s)) for s in (rnd.sample(seqs3, 1500 if tier == "quick" else 12000))] + [("sim", c02.text_of(table, s)) for s in sim]
    cases_ = []
    for name, b in dl:
        for x in (EXTS[:4] if tier == "quick" else EXTS):
            cases_.append((name, b, x, FMTS if tier == "thorough" else FMTS[:4]))
        if name.startswith("x:"):
            for x in (0, E["SMART"] | E["CRITIC"]):            # (without the notes extension '[^x]', '[#x]', '[?x]', '[>x]' are plain brackets with a two-character opener)
                cases_.append((name, b, x, FMTS[:3]))
    for name, b in gen:
        cases_.append((name, b, rnd.choice(EXTS[:2]), [rnd.choice(FMTS)]))
    # outlines parsed with EXT_PARSE_OPML: the engine replaces its text by the imported document while parsing -- the tree must describe THAT text
    import hostile_frags as H
    for k, b in enumerate(H.OPML[:4] + [b'<?xml version="1.0" encoding="utf-8"?>\n<opml version="1.0">\n<head><title>T</title></head>\n<body>\n<outline text="One" _note="&#10;text *em*&#10;&#10;"><outline text="Two" _note="&#10;more [l](u)&#10;"></outline></outline>\n<outline text="&gt;&gt;Metadata&lt;&lt;"><outline text="title" _note="T"/></outline>\n</body>\n</opml>\n']):
        cases_.append(("opml%d" % k, b, docs.STD | E["PARSE_OPML"], ["html", "latex"]))
    # delimiter soup: every ordered pair of inline delimiters as "a x b", "a x b x a" and "a b a" -- the four pairing passes meet every delimiter inside every other
    for k, a, b2, d in docs.delimiter_soup():
        cases_.append(("soup", d.encode(), docs.STD if k != 1 else EXTS[(len(a) + len(b2)) % 3], ["html"] if k else ["latex"]))
    segs = []
    per = 12
    for i in range(0, len(cases_), per):
        s = ["seg\ttree"]
        for j, (name, b, x, fmts) in enumerate(cases_[i:i + per]):
            s.append(line("src", "d%d" % j, sx(b)))
            s.append(line("e_new", 0, "d%d" % j, x, 0)); s.append(line("e_parse", 0)); s.append(line("e_tree", 0, "parse"))
            for f in fmts:
                s.append(line("e_conv", 0, docs.FMT[f])); s.append(line("e_tree", 0, "export:" + f))
            if not name.startswith(("seq", "sim", "soup", "opml")):
                # one parse, exported again and again (mmd_engine_export_token_tree): what a writer changes in the tree must not accumulate
                for f in (fmts[0], fmts[0], fmts[-1]):
                    s.append(line("e_export", 0, docs.FMT[f]))
                s.append(line("e_tree", 0, "reexport:" + fmts[-1]))
            if name.startswith("x:") and x in (0, E["SMART"] | E["CRITIC"]):
                # ... three times in a row by every writer family
                for f in ("latex", "beamer", "memoir", "fodt", "html", "opml"):
                    for _ in range(3): s.append(line("e_export", 0, docs.FMT[f]))
                    s.append(line("e_tree", 0, "reexport:" + f))
            if name.startswith("pool:"):
                # packaged formats go through mmd_engine_convert_to_data on the same engine
                for f in ("bundlezip", "epub", "odt"):
                    s.append(line("e_data", 0, docs.FMT[f])); s.append(line("e_tree", 0, "export:" + f))
            if name.startswith(("x:", "pool:")) and x in (docs.STD, 0):
                # a metadata key is set on the parsed engine (the text grows at the front): whatever tree is exposed afterwards describes the new text
                s.append(line("e_parse", 0)); s.append(line("e_meta", 0, "upd", sx(b"revision"), sx(b"2"))); s.append(line("e_tree", 0, "update"))
                s.append(line("e_settext", 0, "d%d" % j)); s.append(line("e_parse", 0))
            # sub-ranges on line boundaries
            cuts = [k + 1 for k, ch in enumerate(b) if ch == 10][:40]
            if cuts and len(b) < 20000 and not name.startswith("opml"):          # (an imported outline's text is not the bytes handed in: offsets into those mean nothing)
                c1 = cuts[len(cuts) // 2]
                s.append(line("e_subtree", 0, 0, c1)); s.append(line("e_subtree", 0, c1, len(b) - c1)); s.append(line("e_subtree", 0, 0, len(b)))
            s.append(line("e_free", 0))
        segs.append(s)
    res = run_harness(exe, segs, timeout=120)
    chk.cov["t_tree_harness"] = round(time.time() - t0, 1); t0 = time.time()
    trace = []; ndump = 0; nnodes = 0
    for si, (seg, r) in enumerate(zip(segs, res)):
        trace.append(dict(e="reset"))
        for ev in r["events"]:
            if ev.get("e") == "tree":
                # which case: count e_new lines up to this event's line within the segment
                cj = len([ln for ln in seg[:ev.get("sline", 0)] if ln.startswith("e_new")]) - 1
                trace.append(dict(e="tree", when=ev["when"], srclen=ev["srclen"], base=ev["base"], span=ev["span"], shared=ev["shared"], nodes=ev["nodes"], case=si * per + cj))
                ndump += 1; nnodes += ev["n"]
        if r["status"] != "ok":
            problems.append(("crash", seg, r))
    # TLC evaluates TreeOK on every dump; keep trace files at a size the JSON reader handles comfortably
    chunks = []; cur = []; size = 0
    for ev in trace:
        sz = len(ev.get("nodes", [])) if ev["e"] == "tree" else 0
        if size + sz > 400000 and cur:
            chunks.append(cur); cur = [dict(e="reset")]; size = 0
        cur.append(ev); size += sz
    if cur: chunks.append(cur)
    def val(c):
        return tlc.validate_trace("TreeInv", os.path.join(VERIF, "spec", "TreeInv.cfg"), c, max_rejects=60, timeout=1500, heap="6g", independent=True)
    with concurrent.futures.ThreadPoolExecutor(4) as ex:
        outs = list(ex.map(val, chunks))
    chk.cov["t_tree_validate"] = round(time.time() - t0, 1)
    acc = sum(o[0] for o in outs); rejected = sum((o[1] for o in outs), []); states = sum(o[2] for o in outs)
    chk.add("traces_validated_against_impl", ndump - len(rejected))
    chk.cov["states"] += states; chk.cov["transitions"] += states
    chk.cov["evaluations"] = ndump; chk.cov["distinct_nontrivial"] = len(cases_)
    chk.cov["tree_dumps"] = ndump; chk.cov["tree_nodes_checked"] = nnodes
    chk.cov["rule"] = ("primitive level: every forest TokenChain reaches with <= %d token.c primitives over <= 4 tokens, one shortest history each, replayed on real tokens and compared field by field; pairing level: see coverage keys pairs_*; tree level: cases = repository corpus + pool documents x %d extension sets x %d formats, plus TLC-generated line sequences (all of length <= 2, sampled length 3, simulated 12-line) with a random "
                       "format, plus 3 shapes of every ordered pair of 27 inline delimiters; pool documents also through the packaged formats; each case dumps the tree after parse, after each (parse+)export and after three mmd_engine_parse_substring calls on line boundaries" % (4 if tier == "quick" else 6, 4 if tier == "quick" else len(EXTS), 4 if tier == "quick" else 7))
    chk.sample(dict(case=cases_[0][0], ext=cases_[0][2], formats=cases_[0][3])); chk.sample(dict(dump=trace[1]["nodes"][:6], when=trace[1]["when"]))
    seen = {}
    for seg, idx in rejected:
        ev = seg[idx]
        inv, ty = witness(ev)
        tname = names[[vals[n] for n in names].index(ty)] if ty in [vals[n] for n in names] else str(ty)
        when = ev["when"]
        key = "%s:%s:%s" % (inv, when.split(":")[0], tname)
        c = cases_[ev["case"]]
        if key in seen:
            seen[key] += 1; continue
        seen[key] = 1
        chk.report(key, "TreeOK refused the tree dumped %s of %r (ext %d): %s fails at a %s token" % (when, c[0], c[2], inv, tname), dict(case=c[0], ext=c[2], when=when, source=c[1].decode("latin-1")[:4000]))
    for p in problems:
        if p[0] == "enum":
            chk.report("enum-relations", "relations between published token kinds and the library's tables are broken: " + p[1], dict(tlc=p[1]))
        else:
            k, f = san_signature(p[2].get("san", "")); key = "%s:%s:%s" % (p[2]["status"], k, f)
            if key in seen: continue
            seen[key] = 1
            chk.report(key, "process ended while dumping trees :: %s" % p[2].get("san", "")[:300].replace("\n", " | "), dict(script=[x[:200] for x in p[1][:40]]))
    chk.cov["rejections_by_signature"] = seen
    return chk.finish()


def replay(path):
    print(open(path).read()[:3000]); return 0
