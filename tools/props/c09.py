"""C09 -- package outputs are valid archives with the required members.

Package.tla states, per kind (epub, odt, bundlezip, itmz): complete zip, every member passes its CRC, required members, mimetype first (stored for
ODT) with the right media type, container -> package document, manifest lists nav/main (epub) resp. content/styles/meta/settings (odt) and only
existing members, every asset the main document references is a member, and the main document equals the plain format's rendering once asset paths
are masked.  Sources: 0-3 headings, titles with reserved characters, css metadata, images (tiny, and > 33 KiB incompressible so stored blocks wrap the
deflate window), ODF/HTML header level metadata, x 4 kinds x {directory given, NULL} through convert_to_data and the CLI (-o).  The archive is read
with python zipfile (independent reader) and projected to member / manifest / asset events; TLC validates.
"""
import json, os, random, re, struct, subprocess, zlib
from vlib import *  # noqa
import docs, project

PICS = ("small.png", "big.png", "huge.png", "Shot.PNG", "Photo.JPeG", "a.b.c.gif", "noext", "sub/deep.png")
LEVEL = "exploration"
E = docs.EXT
UU = r"[0-9a-fA-F]{8}-[0-9a-fA-F-]{27}"


def png(w, h, rnd):
    raw = b"".join(b"\x00" + bytes(rnd.getrandbits(8) for _ in range(w * 3)) for _ in range(h))
    def ch(t, d): return struct.pack(">I", len(d)) + t + d + struct.pack(">I", zlib.crc32(t + d) & 0xffffffff)
    return b"\x89PNG\r\n\x1a\n" + ch(b"IHDR", struct.pack(">IIBBBBB", w, h, 8, 2, 0, 0, 0)) + ch(b"IDAT", zlib.compress(raw, 0)) + ch(b"IEND", b"")


def sources():
    out = []
    metas = ["", "Title: T & \"q\" <1>\n\n", "Title: Plain\nAuthor: A B\ncss: style.css\n\n", "Title: L\nODF Header Level: 3\nHTML Header Level: 2\nBase Header Level: 2\n\n", "Title: E\nuuid: 11111111-2222-3333-4444-555555555555\nDate: 2020-02-02\n\n",
             "Title: R & D <x>\nAuthor: Smith & Jones <s@j.org>\nDate: <2020> & later\nuuid: a&b<c>\nLanguage: en\nCopyright: (c) A & B\n\n"]
    heads = ["", "# One\n\ntext\n\n", "# One\n\n## Two & <x>\n\ntext\n\n### Three\n\nmore\n\n"]
    imgs = ["", "![alt](small.png)\n\n", "![big](big.png \"t\") and ![alt](small.png) again ![alt](small.png)\n\n", "![huge](huge.png)\n\n[link](http://x.y/)\n\n", "![missing](nofile.png)\n\n",
            "![a](small.png) text ![b](big.png) more ![c](huge.png) and ![d](small.png)\n\n![e][r]\n\n[r]: big.png \"T\"\n\n",
            "Raw `<b>bold</b>`{=html} and `<text:span>odf</text:span>`{=odt} and `*`{=*} inline.\n\n```{=html}\n<div>raw</div>\n```\n\n![alt](small.png)\n\n"]
    for m in metas:
        for h in heads:
            for im in imgs:
                out.append(m + h + im + "end\n")
    return out


def project_pkg(kind, data, plain, null):
    ok, mem, err = project.zip_members(data or b"")
    r = dict(e="pkg", kind=kind, null=null, iszip=ok, members=[dict(name=m["name"], method=m["method"], crc_ok=m["crc_ok"]) for m in mem], mimetype="", rootfile="", manifest=[], assetrefs=[], rawrefs=[], hasplain=False, main="", plain="")
    byname = {m["name"]: m["data"] for m in mem}
    if "mimetype" in byname: r["mimetype"] = byname["mimetype"].decode("latin-1")
    main = None
    if kind == "epub":
        c = byname.get("META-INF/container.xml", b"").decode("utf-8", "replace"); m = re.search(r'full-path="([^"]*)"', c); r["rootfile"] = m.group(1) if m else ""
        opf = byname.get("OEBPS/main.opf", b"").decode("utf-8", "replace")
        okx, evx, errx = project.xml_events(byname.get("OEBPS/main.opf", b""))
        r["manifest"] = [a.get("href", "") for (kind_, *rest) in evx if kind_ == "open" and rest[0] == "item" for a in [rest[1]]] if okx else []     # a package document that is not XML lists nothing
        main = byname.get("OEBPS/main.xhtml")
        if main is not None: r["assetrefs"] = sorted(set(re.findall(r'(?:src|href)="assets/(' + UU + ')"', main.decode("utf-8", "replace"))))
    elif kind == "odt":
        mf = byname.get("META-INF/manifest.xml", b"").decode("utf-8", "replace")
        okx, evx, errx = project.xml_events(byname.get("META-INF/manifest.xml", b""))
        r["manifest"] = [a.get("manifest:full-path", "") for (kind_, *rest) in evx if kind_ == "open" and rest[0].endswith("file-entry") for a in [rest[1]]] if okx else []
        c = byname.get("content.xml")
        if c is not None:
            r["assetrefs"] = sorted(set(re.findall(r'xlink:href="Pictures/(' + UU + ')"', c.decode("utf-8", "replace"))))
            m = re.search(rb"<office:text>(.*)</office:text>", c, re.S); main = m.group(1) if m else b"NO-OFFICE-TEXT"
            if plain is not None:
                m2 = re.search(rb"<office:text>(.*)</office:text>", plain, re.S); plain = m2.group(1) if m2 else b"NO-OFFICE-TEXT-PLAIN"
    elif kind == "bundlezip":
        t = byname.get("text.markdown")
        if t is not None: r["assetrefs"] = sorted(set(re.findall(r'assets/(' + UU + ')', t.decode("utf-8", "replace"))))
    # asset files of the sources that are still referred to by their original name in the document the package carries
    doc = main if kind in ("epub", "odt") else byname.get("text.markdown")
    if doc is not None:
        r["rawrefs"] = sorted({n for n in PICS + ("style.css",) if re.search(rb'(?<![\w/])' + re.escape(n.encode()), doc)})
    adir = {"epub": "OEBPS/assets/", "odt": "Pictures/", "bundlezip": "assets/"}.get(kind)
    r["nassets"] = len([m for m in mem if adir and m["name"].startswith(adir) and len(m["name"]) > len(adir)]); r["nreadable"] = 0
    if main is not None and plain is not None and kind in ("epub", "odt"):
        mask = lambda b: re.sub(rb'(src|href)="[^"]*"', rb'\1="URL"', b).strip()
        r["hasplain"] = True; r["main"] = project.fnv(mask(main)); r["plain"] = project.fnv(mask(plain))
    return r


def run(tier, seed):
    chk = Check("C09", LEVEL, tier, seed)
    rnd = random.Random(seed)
    chk.assumptions += ["CRC / deflate correctness is judged by an independent reader (python zipfile reads every member)", "asset files referenced by the sources exist in the given directory, except one deliberately missing image",
                        "main-document relation: URLs in src/href attributes masked on both sides; EPUB compared with the complete HTML rendering, ODT with the flat OpenDocument body"]
    srcs = sources()
    if tier == "quick": srcs = [s for i, s in enumerate(srcs) if i % 3 == 0 or "huge" in s or "{=html}" in s]
    # sources of a few bytes: the archive writer stores members of up to three bytes without compressing them, and must say so in their headers
    srcs += ["a\n", "a", "ab\n", "abc", "abcd\n", "\n"]
    # pictures that cannot be read before, between and after pictures that can
    srcs += ["![m](nofile.png) then ![a](small.png) and ![b](big.png)\n\nend\n", "![a](small.png) ![m](nofile.png) ![m2](nofile2.png) ![b](huge.png)\n\nend\n"]
    # an asset's address as the very last bytes of the source (no final newline): the text the bundle carries must be rewritten there too
    srcs += ["# One\n\n![alt][pic]\n\n[pic]: small.png", "text\n\n![alt](small.png)", "Title: T\ncss: style.css\n\ntext ![a](big.png) and ![b][r]\n\n[r]: small.png"]
    # picture files whose names are not all lower case, have several dots, no extension, or live in a sub-folder (the address is the key of the asset table AND the file to open)
    srcs += ["![shot](Shot.PNG) and ![p](Photo.JPeG)\n\nend\n", "![a](a.b.c.gif) ![n](noext) ![s](sub/deep.png)\n\n![r][r]\n\n[r]: Shot.PNG \"T\"\n", "Title: U\n\n# H\n\n![x](sub/deep.png)\n\n![y](Shot.PNG)"]
    exe = build.build_harness("asan"); cli = build.build_cli()
    wd = scratch("c09")
    trace = []; problems = []
    try:
        open(os.path.join(wd, "small.png"), "wb").write(png(4, 4, rnd)); open(os.path.join(wd, "big.png"), "wb").write(png(64, 64, rnd))
        open(os.path.join(wd, "huge.png"), "wb").write(png(128, 128, rnd)); open(os.path.join(wd, "style.css"), "w").write("body { color: black }\n")
        os.makedirs(os.path.join(wd, "sub"), exist_ok=True)
        for k_, nm_ in enumerate(("Shot.PNG", "Photo.JPeG", "a.b.c.gif", "noext", "sub/deep.png")): open(os.path.join(wd, nm_), "wb").write(png(5 + k_, 5 + k_, rnd))
        kinds = [("epub", "epub", "html"), ("odt", "odt", "fodt"), ("bundlezip", "bundlezip", None), ("itmz", "itmz", None)]
        segs = []; per = 8
        for i in range(0, len(srcs), per):
            s = ["seg\tpkg", "wantout\t1"]
            for j, src in enumerate(srcs[i:i + per]):
                s.append(line("src", "p%d" % j, sx(src.encode())))
                for (kind, f, pf) in kinds:
                    for d in (wd, "-"):
                        s.append(line("conv", "s_data", "p%d" % j, docs.FMT[f], docs.STD, 0, sx(d) if d != "-" else "-"))
                    if pf: s.append(line("conv", "s_data", "p%d" % j, docs.FMT[pf], docs.STD | (E["COMPLETE"] if pf == "html" else 0), 0, sx(wd)))
            segs.append(s)
        res = run_harness(exe, segs, timeout=60)
        for si, (seg, r) in enumerate(zip(segs, res)):
            if r["status"] != "ok": problems.append(("crash", seg, r))
            trace.append(dict(e="reset"))
            bysrc = {}
            for ev in r["events"]:
                if ev.get("e") == "conv": bysrc.setdefault(ev["src"], []).append(ev)
            for sid, evs in bysrc.items():
                plain = {docs.FMTNAME[e["fmt"]]: project.lat1(e["out"]) for e in evs if docs.FMTNAME[e["fmt"]] in ("html", "fodt") and e.get("out") is not None}
                n = {}
                for e in evs:
                    f = docs.FMTNAME[e["fmt"]]
                    if f in ("html", "fodt"): continue
                    n[f] = n.get(f, 0) + 1
                    data = project.lat1(e["out"]) if e.get("out") is not None else None
                    # the complete-document header of EPUB differs from plain HTML only in masked URLs: compare whole documents
                    ev2 = project_pkg(f, data, plain.get("html" if f == "epub" else "fodt") if n[f] == 1 else None, e["null"])
                    ev2["src"] = srcs[si * per + int(sid[1:])]; ev2["dir"] = n[f] == 1; ev2["via"] = "api"
                    ev2["readable"] = ev2["dir"] and "nofile" not in ev2["src"]
                    ev2["nreadable"] = len({n_ for n_ in PICS if n_ in ev2["src"]}) if ev2["dir"] else 0
                    trace.append(ev2)
        # the command line, -o
        csel = srcs[:: (4 if tier == "quick" else 1)]
        # the command line also transcludes: a wildcard marker must pick the same file for the package as for its plain format
        for ext_, txt in ((".txt", "TXT part\n"), (".html", "HTML <b>part</b>\n"), (".tex", "TEX part\n"), (".fodt", "FODT *part* here\n")):
            open(os.path.join(wd, "inc" + ext_), "w").write(txt)
        csel = csel + ["Title: W\n\n# One\n\nbefore {{inc.*}} after\n\n{{inc.txt}}\n\nend\n", "before {{inc.*}} after ![alt](small.png)\n\nend\n"]
        PLAINOF = {"epub": ["-t", "html", "-f"], "odt": ["-t", "fodt"]}
        def one(a):
            i, src = a
            f = os.path.join(wd, "c%d.txt" % i); open(f, "w").write(src); out = []
            for kind in ("epub", "odt", "bundlezip", "itmz"):
                o = os.path.join(wd, "c%d.%s" % (i, kind))
                p = subprocess.run([cli, "-t", kind, "-o", o, os.path.basename(f)], stdout=subprocess.PIPE, stderr=subprocess.PIPE, env=san_env(os.path.join(wd, "cli%d" % i)), timeout=60, cwd=wd)
                plain = None
                if kind in PLAINOF and "{{" in src:
                    q = subprocess.run([cli] + PLAINOF[kind] + [os.path.basename(f)], stdout=subprocess.PIPE, stderr=subprocess.PIPE, env=san_env(os.path.join(wd, "clip%d" % i)), timeout=60, cwd=wd)
                    plain = q.stdout
                out.append((kind, open(o, "rb").read() if os.path.exists(o) else None, p.returncode, plain))
            return out
        # the same through a path with directories in it (the assets sit next to the document, not in the working directory)
        nest = os.path.join(wd, "nest", "sub"); os.makedirs(nest)
        for fn in ("small.png", "big.png", "huge.png", "style.css"): shutil.copy(os.path.join(wd, fn), os.path.join(nest, fn))
        nsel = [s_ for s_ in csel if ".png" in s_ and "{{" not in s_][:6]
        def one_nested(a):
            i, src = a
            f = os.path.join(nest, "n%d.txt" % i); open(f, "w").write(src); out = []
            for kind in ("epub", "odt", "bundlezip", "itmz"):
                o = os.path.join(wd, "n%d.%s" % (i, kind))
                p = subprocess.run([cli, "-t", kind, "-o", o, os.path.join("nest", "sub", "n%d.txt" % i)], stdout=subprocess.PIPE, stderr=subprocess.PIPE, env=san_env(os.path.join(wd, "clin%d" % i)), timeout=60, cwd=wd)
                out.append((kind, open(o, "rb").read() if os.path.exists(o) else None, p.returncode, None))
            return out
        os.rename(os.path.join(wd, "small.png"), os.path.join(wd, "small.png.away")); os.rename(os.path.join(wd, "big.png"), os.path.join(wd, "big.png.away")); os.rename(os.path.join(wd, "huge.png"), os.path.join(wd, "huge.png.away"))
        try:
            with concurrent.futures.ThreadPoolExecutor(NCPU) as ex:
                nouts = list(ex.map(one_nested, list(enumerate(nsel))))
        finally:
            for fn in ("small.png", "big.png", "huge.png"): os.rename(os.path.join(wd, fn + ".away"), os.path.join(wd, fn))
        with concurrent.futures.ThreadPoolExecutor(NCPU) as ex:
            couts = list(ex.map(one, list(enumerate(csel))))
        csel = csel + nsel; couts = couts + nouts
        for src, outs in zip(csel, couts):
            trace.append(dict(e="reset"))
            for kind, data, rc, plain in outs:
                ev2 = project_pkg(kind, data, plain, data is None or rc != 0); ev2["src"] = src; ev2["dir"] = True; ev2["via"] = "cli"; ev2["readable"] = "nofile" not in src; ev2["nreadable"] = len({n_ for n_ in ("small.png", "big.png", "huge.png") if n_ in src})
                trace.append(ev2)
        acc, rejected, states, info = tlc.validate_trace("Package", os.path.join(VERIF, "spec", "Package.cfg"), trace, max_rejects=40, timeout=1500, independent=True)
    finally:
        shutil.rmtree(wd, ignore_errors=True)
    npk = len([e for e in trace if e["e"] == "pkg"])
    chk.add("traces_validated_against_impl", npk - len(rejected))
    chk.cov["evaluations"] = npk; chk.cov["distinct_nontrivial"] = len(srcs)
    chk.cov["rule"] = "sources = 6 metadata variants (one with reserved characters in every key the package documents show) x {0, 1, 3 headings} x 7 body variants (no image, tiny, several incl. a re-used one, a 49 KiB incompressible one, a missing file, four inline + one reference image, raw-format spans and blocks); each x {epub, odt, bundlezip, itmz} x {directory given, NULL} via convert_to_data, and via the CLI -o for a subset"
    chk.sample(dict(src=srcs[5])); chk.sample(dict(members=[m["name"] for m in [e for e in trace if e["e"] == "pkg"][0]["members"]]))
    seen = {}
    for seg, idx in rejected:
        ev = seg[idx]
        names = {m["name"] for m in ev["members"]}
        if ev["null"]: what = "no-result"
        elif not ev["iszip"]: what = "not-a-zip"
        elif not all(m["crc_ok"] for m in ev["members"]): what = "crc-failure"
        elif ev["hasplain"] and ev["main"] != ev["plain"]: what = "main-document-differs"
        elif any(True for a in ev["assetrefs"] if not any(n.endswith(a) for n in names)): what = "asset-missing"
        else: what = "member-or-manifest-rule"
        feat = "+".join(x for x in ("huge" if "huge" in ev["src"] else "", "missing" if "nofile" in ev["src"] else "", "css" if "css:" in ev["src"] else "", "odflevel" if "ODF Header" in ev["src"] else "") if x)
        key = "%s:%s:%s:%s" % (what, ev["kind"], "dir" if ev["dir"] else "nodir", feat)
        if key in seen: seen[key] += 1; continue
        seen[key] = 1
        chk.report(key, "%s package of %r (%s, via %s): members %s manifest %s assetrefs %s" % (ev["kind"], ev["src"][:200], "directory given" if ev["dir"] else "NULL directory", ev["via"], sorted(names), ev["manifest"], ev["assetrefs"]), dict(src=ev["src"], kind=ev["kind"], dir=ev["dir"]))
    for kind, a, b in problems:
        k, f = san_signature(b.get("san", "")); key = "%s:%s:%s" % (b["status"], k, f)
        if key in seen: continue
        seen[key] = 1
        chk.report(key, "process ended :: %s" % b.get("san", "")[:300].replace("\n", " | "), dict(script=[x[:200] for x in a[:20]]))
    chk.cov["rejections_by_signature"] = seen
    return chk.finish()


def replay(path):
    print(open(path).read()[:3000]); return 0
