"""C18 -- the shared token pool honours its init/drain/free protocol.

1. TokenPool.tla model-checked exhaustively (SlabSize 2, all histories <= 10 actions): NoDangling, ReleasedAtOutermostDrain, CleanStart,
   CleanAfterFree, CounterAgrees, SlotInRange; two seeded-defect flags must each violate an invariant (non-vacuity).
2. TokenPoolGen: TLC emits every well-bracketed history of N actions (BFS) + random long ones; documents are sized (by a dry run) so that
   allocation counts land on and around the 1024-object slab boundary and span several slabs.
3. Replay on the real pool (ASan build); TokenPoolTrace (SlabSize 1024) validates protocol events, allocation counts, the pool's slab count
   and next pointer after every call, tree walks of held trees, and result digests.
"""
import json, os, random
from vlib import *  # noqa
import docs

LEVEL = "model_checking"
MC = """CONSTANTS SlabSize = 2
 Docs = {1, 2, 3}
 Need <- NeedMC
 Engines = {1, 2}
 MaxHist = %d
 KeepHist = TRUE
 Defect_CountOnlyFirstInit = %s
 Defect_NoResetOnDrain = %s
INIT Init
NEXT Next
INVARIANTS SlotInRange NoDangling ReleasedAtOutermostDrain CleanStart CleanAfterFree CounterAgrees IndInv
VIEW View
CHECK_DEADLOCK FALSE
"""
GEN = """CONSTANTS SlabSize = 2
 Docs = {%s}
 Need <- NeedMC
 Engines = {%s}
 MaxHist = %d
 KeepHist = TRUE
 Defect_CountOnlyFirstInit = FALSE
 Defect_NoResetOnDrain = FALSE
INIT Init
NEXT Next
INVARIANT %s
CHECK_DEADLOCK FALSE
"""


def word_doc(n):
    return ("w%d " * 1 % 1).replace("w1 ", "") + " ".join("w" for _ in range(n)) + "\n"


def measure(exe, cands):
    segs = [["seg\tm", line("src", "d", sx(c)), line("conv", "s_conv", "d", 0, 0, 0)] for c in cands]
    res = run_harness(exe, segs)
    out = []
    for r in res:
        ev = [e for e in r["events"] if e.get("e") == "conv"]
        out.append(ev[0]["allocs"] if ev else None)
    return out


def pick_docs(exe):
    """documents whose conversion allocates a known number of tokens (measured by a dry run, not guessed)"""
    tiny = b"w\n"
    ntiny = measure(exe, [tiny])[0]
    targets = dict(b1023=1023, b1024=1024, b1025=1025, fill=1024 - ntiny, fill2=1024 - 2 * ntiny, big=2048, big1=2049, three=3072)
    cands = []
    for x in sorted(set(targets.values())):
        for b in range(0, 7):
            a0 = (x - 7 * b - 5) // 5
            for a in range(max(1, a0 - 2), a0 + 3):
                cands.append(("a\n\n" * b + "*a* " * a + "\n").encode())
    cands = sorted(set(cands))
    al = measure(exe, cands)
    by = {}
    for c, a in zip(cands, al):
        if a is not None: by.setdefault(a, c)
    sel = {"tiny": tiny}; sizes = {"tiny": ntiny}
    for name, x in targets.items():
        k = min(by, key=lambda a: (abs(a - x), a)); sel[name] = by[k]; sizes[name] = k
    # documents that make the parser and the writers give tokens back (token_free / token_tree_free on stripped markers, pruned pairs, re-parsed blocks)
    mixed = (b"# Head [lab] #\n\n* one\n* two\n    * inner a\n    * inner b\n\n    continued\n\n> quote *em* **st**\n> > deeper `code`\n\n1. first\n2. second\n\nTitle\n=====\n\n"
             b"| a | b |\n|---|---|\n| 1 | 2 |\n[cap]\n\nterm\n: definition\n\nnote[^n] and [link][r] and <http://a.b/c>\n\n[^n]: the note\n[r]: http://x.y/ \"t\"\n\n```\ncode\n```\n\n    indented\n")
    sel["mixed"] = mixed; sel["mixed3"] = mixed * 3
    for nm in ("mixed", "mixed3"): sizes[nm] = measure(exe, [sel[nm]])[0]
    huge = ("*a* " * 3500 + "\n").encode()
    sel["huge"] = huge; sizes["huge"] = measure(exe, [huge])[0]
    return sel, sizes


# a "convert" of the model is any one-shot entry point in any format: they rotate so that every family x format meets every bracket shape
CONV_VARIANTS = [("s_conv", "html"), ("s_data", "mmd"), ("d_conv", "latex"), ("e_data", "fodt"), ("s_data", "html"), ("d_data", "opml"), ("e_conv", "beamer"), ("s_data", "latex"),
                 ("e_data", "mmd"), ("d_data", "memoir"), ("d_data", "mmd"), ("e_data", "opml"), ("d_conv", "memoir")]        # (packaged formats carry time stamps: their bytes are not comparable)
_rot = [0]


def script_of(h, dmap):
    """TLC history -> harness script (engine slots 0/1)"""
    out = []
    for st in h:
        a = st["a"]
        if a == "init": out.append("pinit")
        elif a == "drain": out.append("pdrain")
        elif a == "free": out.append("pfree")
        elif a == "convert":
            fam, fmt = CONV_VARIANTS[_rot[0] % len(CONV_VARIANTS)]; _rot[0] += 1
            out.append(line("conv", fam, dmap[st["d"]], docs.FMT[fmt], docs.STD, 0))
        elif a == "parse": out += [line("e_new", st["e"] - 1, dmap[st["d"]], docs.STD, 0), line("e_parse", st["e"] - 1)]
        elif a == "inspect": out.append(line("e_inspect", st["e"] - 1))
        elif a == "letgo": out.append(line("e_free", st["e"] - 1))
    return out


def to_trace(evs):
    out = []
    for e in evs:
        k = e.get("e")
        if k == "reset": out.append(dict(e="reset"))
        elif k == "pool": out.append(dict(e="pool", op=e["op"], count=e["count"], pslabs=e.get("pslabs", -1), pnext=e.get("pnext", -1), diag=e.get("diag", [])))
        elif k == "conv": out.append(dict(e="conv", key="%s|%d|%d" % (e["src"], e["fmt"], e["ext"]), digest=e["digest"], allocs=e["allocs"], null=e["null"],
                                          pslabs=e["pslabs"], pnext=e["pnext"]))
        elif k == "eng": out.append(dict(e="eng", op=e["op"], eid=e.get("eid", 0), allocs=e.get("allocs", 0), pslabs=e.get("pslabs", -1), pnext=e.get("pnext", -1)))
        elif k == "inspect": out.append(dict(e="inspect", eid=e["eid"], tokens=e["tokens"], sum=e["sum"], dirty=e.get("dirty", 0)))
    return out


def validate(chk, exe, scripts, dpool):
    srclines = [line("src", n, sx(b)) for n, b in dpool.items()]
    segs = [["seg\tnopool"] + srclines + s for s in scripts]
    res = run_harness(exe, segs, timeout=60)
    trace = []; problems = []
    for seg, r in zip(segs, res):
        if r["status"] != "ok":
            problems.append(("crash", seg, r)); continue
        trace += to_trace(r["events"])
    acc, rejected, states, info = tlc.validate_trace("TokenPoolTrace", os.path.join(VERIF, "spec", "TokenPoolTrace.cfg"), trace)
    chk.add("traces_validated_against_impl", len(segs) - len(problems) - len(rejected))
    chk.add("trace_events_validated", acc); chk.add("trace_states", states)
    for seg, idx in rejected:
        problems.append(("rejected", seg, idx))
    return problems, trace


APA_STEPS = [("Init => IndInv", ["--init=Init", "--inv=IndInv", "--length=0"]),
             ("IndInv /\\ NextAny => IndInv'", ["--init=IndInit", "--next=NextAny", "--inv=IndInv", "--length=1"]),
             ("IndInv => Safety", ["--init=IndInit", "--inv=Safety", "--length=0"])]


def apalache(wd, args, timeout=600):
    import subprocess, time
    t0 = time.time()
    try:
        r = subprocess.run(["apalache-mc", "check", "--cinit=ConstInit"] + args + ["--out-dir=" + os.path.join(wd, "out"), "TokenPoolInd.tla"], cwd=wd, stdout=subprocess.PIPE, stderr=subprocess.STDOUT, text=True, timeout=timeout)
    except subprocess.TimeoutExpired:
        raise FrameworkError("apalache-mc did not finish within %d s (%s)" % (timeout, " ".join(args)))
    out = r.stdout
    if "The outcome is: NoError" in out and r.returncode == 0: return "ok", out, time.time() - t0
    if "The outcome is: Error" in out and r.returncode == 12: return "violated", out, time.time() - t0
    raise FrameworkError("apalache-mc failed (%s): %s" % (" ".join(args), out[-1500:]))


def induction(chk):
    """unbounded half: TokenPool's own actions (spec/apalache/TokenPoolInd.tla EXTENDS TokenPool), SlabSize 1024, any allocation count per conversion; Apalache discharges
    Init => IndInv, IndInv /\ Next => IndInv', IndInv => the six invariants.  Non-vacuity: with either defect flag of the model the inductive step must fail."""
    import shutil, tempfile
    wd = tempfile.mkdtemp(prefix="apa", dir=os.path.join(BUILD, "tlc") if os.path.isdir(os.path.join(BUILD, "tlc")) else None)
    try:
        for f in ("TokenPool.tla", os.path.join("apalache", "TokenPoolInd.tla")): shutil.copy(os.path.join(VERIF, "spec", f), wd)
        steps = {}
        for name, args in APA_STEPS:
            st, out, dt = apalache(wd, args)
            steps[name] = dict(result=st, wall_s=round(dt, 1))
            if st != "ok":
                cex = ""
                for root, _, fs in os.walk(os.path.join(wd, "out")):
                    for f in fs:
                        if f == "violation1.tla": cex = open(os.path.join(root, f)).read()[:3000]
                chk.report("model:induction:" + name.split(" ")[0], "the pool protocol model is not inductive any more (%s fails): the invariants of TokenPool are not established for histories of any length :: %s" % (name, cex[-1500:]), dict(step=name, counterexample=cex))
                break
        src = open(os.path.join(wd, "TokenPoolInd.tla")).read()
        defects = {}
        for flag in ("Defect_CountOnlyFirstInit", "Defect_NoResetOnDrain"):
            open(os.path.join(wd, "TokenPoolInd.tla"), "w").write(src.replace(flag + " = FALSE", flag + " = TRUE"))
            st, out, dt = apalache(wd, APA_STEPS[1][1])
            defects[flag] = st
            if st != "violated": raise FrameworkError("TokenPoolInd: the inductive step holds with %s (vacuous)" % flag)
        chk.cov["induction"] = dict(tool="apalache-mc 0.58", module="TokenPoolInd EXTENDS TokenPool", SlabSize=1024, MaxNeed=1000000, engines=3, steps=steps, defect_flags_refuted=defects,
                                    claim="the six invariants hold after histories of any length (model level)")
    finally:
        shutil.rmtree(wd, ignore_errors=True)


def run(tier, seed):
    chk = Check("C18", LEVEL, tier, seed)
    chk.assumptions += ["well-bracketed = the caller frees its engines before the drain that closes its outermost bracket and calls free only at depth 0",
                        "token counts of the sized documents are measured by a dry run of the same build", "ASan build: a touched released slab aborts the process"]
    n = 10 if tier == "quick" else 12
    mc = tlc.run("TokenPoolGen", MC % (n, "FALSE", "FALSE"), workers=NCPU, coverage=True, timeout=1200)
    if mc.violated: raise FrameworkError("TokenPool: model violates %s" % mc.violated)
    d1 = tlc.run("TokenPoolGen", MC % (8, "TRUE", "FALSE"), workers=4); d2 = tlc.run("TokenPoolGen", MC % (8, "FALSE", "TRUE"), workers=4)
    if not (d1.violated and d2.violated): raise FrameworkError("TokenPool: defect flags do not violate any invariant (vacuous)")
    for k in ("PInit", "PDrain", "Convert", "ParseKeep"):
        if mc.coverage.get(k, (0, 0))[0] == 0: raise FrameworkError("TokenPool: action %s never taken" % k)
    chk.cov["states"] = mc.distinct; chk.cov["transitions"] = mc.generated
    induction(chk)
    chk.cov["mc"] = dict(module="TokenPool", SlabSize=2, MaxHist=n, distinct=mc.distinct, generated=mc.generated, depth=mc.depth,
                         coverage={k: list(v) for k, v in mc.coverage.items()}, defect_CountOnlyFirstInit=d1.violated, defect_NoResetOnDrain=d2.violated)
    exe = build.build_harness("asan")
    sel, sizes = pick_docs(exe)
    chk.cov["sized_documents_tokens"] = sizes
    # behaviours
    gl = 6 if tier == "quick" else 7
    g = tlc.run("TokenPoolGen", GEN % ("1, 2", "1", gl, "Emit"), workers=NCPU, timeout=1200, heap="16g")
    hists = [h for h in g.printed if any(s["a"] in ("convert", "parse") for s in h)]
    rnd = random.Random(seed)
    if len(hists) > (6000 if tier == "quick" else 40000):
        hists = rnd.sample(hists, 6000 if tier == "quick" else 40000)
    dmapA = {1: "tiny", 2: "fill"}; dmapB = {1: "b1024", 2: "big"}
    dmapC = {1: "mixed", 2: "mixed3"}
    scripts = [script_of(h, (dmapA, dmapB, dmapC)[i % 3]) for i, h in enumerate(hists)]
    # main.c's two shapes + long random well-bracketed histories over all sized documents (TLC simulation)
    names = list(sel)
    scripts.append(["pinit", line("conv", "s_conv", "huge", 0, docs.STD, 0), "pdrain", "pfree"])
    scripts.append(["pinit"] + sum([["pinit", line("conv", "s_conv", nm, 0, docs.STD, 0), "pdrain"] for nm in names], []) + ["pdrain", "pfree"])
    gs = tlc.run("TokenPoolGen", GEN % ("1, 2, 3", "1, 2", 24, "Emit"), workers=4, simulate=(150 if tier == "quick" else 1500), depth=26, seed=seed, timeout=600)
    for h in gs.printed:
        dm = {1: rnd.choice(names), 2: rnd.choice(names), 3: rnd.choice(names)}
        scripts.append(script_of(h, dm))
    problems, trace = validate(chk, exe, scripts, sel)
    chk.cov["evaluations"] = len(scripts)
    chk.cov["distinct_nontrivial"] = len({json.dumps(s) for s in scripts if any(x.startswith("pdrain") for x in s) and len(s) >= 3})
    chk.cov["histories"] = dict(bfs_len=gl, bfs=len(hists), simulated=len(gs.printed), shapes_of_main_c=2)
    chk.cov["rule"] = ("TLC BFS: every history of %d protocol actions over {init, drain, free, convert(d), parse+keep(e,d), inspect(e), letgo(e)} allowed by the well-bracketed "
                       "environment (sampled down when > limit); TLC simulation: histories of 24 actions over 2 engines and 8 sized documents; non-trivial = contains a drain and >= 3 calls" % gl)
    for h in hists[:2] + gs.printed[:1]:
        chk.sample([s["a"] + (str(s["d"]) if s["d"] else "") for s in h])
    seen = set()
    for kind, a, b in problems:
        if kind == "rejected":
            ev = a[b]
            key = "protocol-mismatch:%s%s" % (ev["e"], ":" + ev["op"] if "op" in ev else "")
            if key in seen: continue
            seen.add(key)
            chk.report(key, "real pool disagrees with TokenPool at event %d %s of execution %s" % (b, json.dumps(ev), json.dumps([x.get("op", x["e"]) for x in a])[:600]), dict(events=a, refused=b))
        else:
            k, f = san_signature(b.get("san", ""))
            key = "%s:%s:%s" % (b["status"], k, f)
            if key in seen: continue
            seen.add(key)
            chk.report(key, "process ended (%s) while replaying %s :: %s" % (b["status"], [x.split("\t")[0] for x in a if not x.startswith("src")][:30], b.get("san", "")[:300].replace("\n", " | ")), dict(script=a))
    return chk.finish()


def replay(path):
    print(open(path).read()[:3000]); return 0
