"""C05 -- output is a function of (source, options): no hidden history.

1. Session.tla model-checked: with the code's process state modelled, HistoryIndependent holds when no defect flag is set and TLC
   exhibits the violation for each defect class (vacuity guard for the property itself).
2. SessionGen: TLC enumerates all histories of length <= 2 (3 thorough) over a document pool x option sets x entry-point families x
   one reusable engine, and simulates long ones over the repository corpus.
3. Replay: every distinct key first converted in a process of its own (the fresh-process reference), then the histories.
4. SessionTrace validates the recorded trace: same key => same bytes; caller's source unchanged.
"""
import json, os, random
from vlib import *  # noqa
import docs, project

LEVEL = "model_checking"
MC = """CONSTANTS Docs = {1, 2, 3}
 Opts = {1, 2}
 UsesRng = {1}
 LeavesStack = {2}
 MaxSteps = %d
 Defect_GlobalRng = %s
 Defect_NoReset = %s
INIT Init
NEXT Next
INVARIANTS HistoryIndependent FreshEqualsFirst
CHECK_DEADLOCK FALSE
"""
GEN = """CONSTANTS Docs = {%s}
 Opts = {%s}
 UsesRng = {}
 LeavesStack = {}
 MaxSteps = %d
 Defect_GlobalRng = FALSE
 Defect_NoReset = FALSE
 Fams = {%s}
 Sim = %s
INIT InitG
NEXT NextG
INVARIANT Emit
CHECK_DEADLOCK FALSE
"""
E = docs.EXT
OPTS = [  # (format, extensions, language)
    ("html", docs.STD, "en"), ("html", docs.COMPAT, "en"), ("latex", docs.STD, "de"), ("html", docs.STD | E["COMPLETE"], "fr"),
    ("opml", docs.STD, "en"), ("beamer", docs.STD, "es"), ("fodt", docs.STD, "en"), ("html", E["SMART"] | E["NOTES"] | E["NO_LABELS"], "sv"),
    ("memoir", docs.STD | E["SNIPPET"], "nl"),
    # packaged formats: their bytes carry a fresh UUID / time stamp, so only "returns something" and "leaves the caller's source alone" are judged (det = False)
    ("bundlezip", docs.STD, "en"), ("textbundle", docs.STD, "en"), ("epub", docs.STD, "en"), ("odt", docs.STD, "en"), ("itmz", docs.STD, "en"),
]
PACKAGED = ("bundlezip", "textbundle", "epub", "odt", "itmz", "htmlassets")
FAMS = ["s_conv", "d_conv", "s_data"]
PLAIN = ("html", "latex", "beamer", "memoir", "opml")   # formats for which every entry point must agree (C06)
CONVFAM = ("s_conv", "d_conv", "e_conv", "e_reuse", "e_export")


def key_of(src, opt):
    f, x, l = opt
    return "%s|%s|%d|%s" % (src, f, x, l)


def conv_line(fam, src, opt):
    f, x, l = opt
    return line("conv", fam, src, docs.FMT[f], x, docs.LANG[l])


def history_script(h, dnames, opts):
    out = []
    for st in h:
        a = st["a"]
        if a == "conv": out.append(conv_line(st["fam"], dnames[st["d"] - 1], opts[st["o"] - 1]))
        elif a == "enew":
            f, x, l = opts[st["o"] - 1]
            out.append(line("e_new", 0, dnames[st["d"] - 1], x, docs.LANG[l])); out.append("#fmt\t%s" % f)
        elif a == "settext": out.append(line("e_settext", 0, dnames[st["d"] - 1]))
        elif a == "econv": out.append(None)   # format filled below from the engine's option set
        elif a == "efree": out.append(line("e_free", 0))
    # second pass: e_conv uses the format of the option set the engine was created with
    cur = None; res = []
    for ln in out:
        if ln is None:
            res.append(line("e_conv", 0, docs.FMT[cur]))
        elif ln.startswith("#fmt"):
            cur = ln.split("\t")[1]
        else:
            res.append(ln)
    return res


def to_trace_events(evs, opts_by_engine=None):
    """harness events -> SessionTrace events"""
    out = []
    for e in evs:
        if e["e"] == "conv":
            fmt = docs.FMTNAME[e["fmt"]]
            langn = [k for k, v in docs.LANG.items() if v == e["lang"]][0]
            det = not (e["ext"] & (E["RANDOM_FOOT"] | E["RANDOM_LABELS"])) and fmt not in PACKAGED
            inplace = bool(e["ext"] & (E["PARSE_OPML"] | E["PARSE_ITMZ"]))
            grp = "" if fmt in PLAIN else ("|conv" if e["fam"] in CONVFAM else "|data")
            out.append(dict(e="conv", fam=e["fam"], src=e["src"], key="%s|%s|%d|%s%s" % (e["src"], fmt, e["ext"], langn, grp), digest=e["digest"], det=det,
                            null=e["null"], srcsame=e["srcsame"], inplace=inplace, wrote=e["wrote"], needfile=e["fam"].endswith("_file"),
                            rng=e["rng"], rand=e["rand"], len=e["len"]))
        elif e["e"] == "eng":
            if e["op"] == "lang": continue            # (the key of the conversions that follow carries the language)
            out.append(dict(e="eng", op=e["op"], src=e.get("src", "")))
        elif e["e"] == "import":
            # an outline turned back into text: the same outline gives the same text through every entry point, called once or again on the same object
            out.append(dict(e="conv", fam="imp_" + e["fam"], src=e["src"], key="import|" + e["src"], digest=project.fnv(project.lat1(e["text"])) if not e["null"] else "", det=True,
                            null=e["null"], srcsame=e["srcsame"], inplace=False, wrote=False, needfile=False, rng=0, rand=0, len=e.get("len", 0)))
        elif e["e"] == "reset":
            out.append(dict(e="reset"))
    return out


def run_session(chk, exe, dpool, refs, hist_scripts, label):
    """dpool: name->bytes; refs: list of (srcname, opt); hist_scripts: list of list-of-lines. Returns list of problems."""
    srclines = [line("src", n, sx(b)) for n, b in dpool.items()]
    # reference executions: one process per key (fresh-process semantics)
    ref_segs = [["seg\tref"] + [line("src", s, sx(dpool[s]))] + [conv_line("s_conv", s, o)] for (s, o) in refs]
    # (the reference executions get fresh heap blocks filled with another byte -- 'r' -- than the histories: a result that depends on what a fresh block
    #  happens to hold is a result that depends on what the process did before)
    os.environ["VERIF_MALLOC_FILL"] = "114"
    try:
        ref_res = run_harness(exe, ref_segs, shards=len(ref_segs)) if ref_segs else []
    finally:
        os.environ.pop("VERIF_MALLOC_FILL", None)
    hsegs = [["seg\thist"] + srclines + h for h in hist_scripts]
    hres = run_harness(exe, hsegs)
    trace = []; problems = []
    for seg, r in zip(ref_segs, ref_res):
        if r["status"] != "ok":
            problems.append(("crash", seg, r)); continue
        trace += to_trace_events(r["events"])
    nref = len(trace)
    for seg, r in zip(hsegs, hres):
        if r["status"] != "ok":
            problems.append(("crash", seg, r)); continue
        trace += to_trace_events(r["events"])
    acc, rejected, states, info = tlc.validate_trace("SessionTrace", os.path.join(VERIF, "spec", "SessionTrace.cfg"), trace)
    chk.add("traces_validated_against_impl", len(ref_segs) + len(hsegs) - len(problems) - len(rejected))
    chk.add("trace_events_validated", acc); chk.add("trace_states", states)
    for seg, idx in rejected:
        problems.append(("rejected", seg, idx))
    return problems, trace


def classify(seg, idx):
    ev = seg[idx]
    if ev.get("e") != "conv":
        return "trace-shape:%s" % ev.get("e"), "unexpected event"
    if ev["null"]: return "null-result:%s:%s" % (ev["fam"], ev["key"].split("|")[1]), "entry point returned no result"
    if not (ev["srcsame"] or ev["inplace"]): return "source-modified:%s" % ev["fam"], "the caller's source text was modified"
    if ev["needfile"] and not ev["wrote"]: return "no-file-written:%s" % ev["fam"], "documented to write a file and did not"
    cause = "global-rng" if ev["rng"] > 0 else ("libc-rand" if ev["rand"] > 0 else "state")
    return "history-dependence:%s" % cause, "same key, different bytes than at first use (digest %s, family %s, generator draws %d)" % (ev["digest"], ev["fam"], ev["rng"])


def run(tier, seed):
    chk = Check("C05", LEVEL, tier, seed)
    chk.assumptions += ["digest = FNV-1a-64 of the returned bytes", "EXT_RANDOM_FOOT / EXT_RANDOM_LABELS keys are exempt (property text)",
                        "reference = the same key converted first in a process of its own (ASan build, pool on)"]
    # 1. design
    mc = tlc.run("Session", MC % (5 if tier == "quick" else 6, "FALSE", "FALSE"), workers=NCPU, coverage=True)
    if mc.violated: raise FrameworkError("Session: model violates %s without any defect flag" % mc.violated)
    for k in ("ConvertFresh", "EngNew", "EngSetText", "EngConvert", "EngFree"):
        if mc.coverage.get(k, (0, 0))[0] == 0: raise FrameworkError("Session: action %s never taken" % k)
    d1 = tlc.run("Session", MC % (5, "TRUE", "FALSE"), workers=4); d2 = tlc.run("Session", MC % (5, "FALSE", "TRUE"), workers=4)
    if not (d1.violated and d2.violated): raise FrameworkError("Session: defect flags do not violate HistoryIndependent (vacuous model)")
    chk.cov["states"] = mc.distinct; chk.cov["transitions"] = mc.generated
    chk.cov["mc"] = dict(module="Session", distinct=mc.distinct, generated=mc.generated, depth=mc.depth, coverage={k: list(v) for k, v in mc.coverage.items()},
                         defect_GlobalRng_violates=d1.violated, defect_NoReset_violates=d2.violated)
    # 2. behaviours over the hand-picked pool
    exe = build.build_harness("asan")
    dn = ["mail", "notes", "meta_de", "quotes", "tables", "critic", "rawfilter", "toc", "assets"]
    dpool = {n: docs.POOL[n].encode() for n in dn}
    opts = OPTS[:4] if tier == "quick" else OPTS[:6]
    n = 2 if tier == "quick" else 3
    g = tlc.run("SessionGen", GEN % (",".join(str(i + 1) for i in range(len(dn) if tier == "quick" else 6)), ",".join(str(i + 1) for i in range(len(opts))), n,
                                       ",".join('"%s"' % f for f in (FAMS[:2] if tier == "quick" else FAMS[:2])), "FALSE"), workers=NCPU, timeout=900, heap="16g")
    hists = [h for h in g.printed if any(s["a"] in ("conv", "econv") for s in h)]
    chk.cov["histories_enumerated"] = len(hists)
    if len(hists) > 40000:
        # TLC enumerates all of them; a seeded sample of 40 000 is replayed (the rest differ only in which document / option set is used at which step)
        hists = random.Random(seed).sample(hists, 40000)
    hists = uniq(hists)
    gs = tlc.run("SessionGen", GEN % (",".join(str(i + 1) for i in range(len(dn))), ",".join(str(i + 1) for i in range(len(OPTS))), 12,
                                        ",".join('"%s"' % f for f in FAMS), "TRUE"), workers=4, simulate=(60 if tier == "quick" else 500), depth=14, seed=seed, timeout=600)
    hists_sim = uniq(gs.printed)
    allopts = OPTS
    scripts = [history_script(h, dn, opts) for h in hists] + [history_script(h, dn, allopts) for h in hists_sim]
    # packaged formats through the entry points that share the caller's text (DString and engine families), each followed by a plain conversion of the same text
    html = OPTS[0]
    for d in dn:
        for o in OPTS:
            if o[0] not in PACKAGED: continue
            scripts.append([conv_line("d_data", d, o), conv_line("d_conv", d, html), conv_line("e_data", d, o), conv_line("s_conv", d, html)])
            scripts.append([line("e_new", 0, d, o[1], docs.LANG[o[2]]), line("e_data", 0, docs.FMT[o[0]]), line("e_conv", 0, docs.FMT["html"]), line("e_data", 0, docs.FMT[o[0]]), line("e_free", 0)])
    # every ordered pair of pool documents through one reused engine (the simulation above only samples these): what the first document leaves behind
    # (language, quote style, note counters, metadata) must not reach the second
    for d1 in dn:
        for d2 in dn:
            for o in (OPTS[0], OPTS[2], OPTS[6], OPTS[7]) if tier == "quick" else OPTS[:9]:
                scripts.append([line("e_new", 0, d1, o[1], docs.LANG[o[2]]), line("e_conv", 0, docs.FMT[o[0]]), line("e_settext", 0, d2), line("e_conv", 0, docs.FMT[o[0]]),
                                line("e_data", 0, docs.FMT[o[0]]), line("e_free", 0)])
    # ONE text on one engine, converted to format after format (every ordered pair of textual formats occurs): an export must leave behind nothing that the next
    # export of the same, unchanged text could pick up (writers work on the tree and on the definitions in place)
    dpool["dims"] = b"Report\n======\n\n![chart][c] and ![i](i.png width=30px height=10px) \"q\" -- x\n\nSub [sub]  \n---\n\n* item[^n]\n\n| a | b |\n|---|:-:|\n| 1 | 2 |\n[Cap][tb]\n\n[c]: chart.png width=40px height=20px\n[^n]: note *em*\n"
    WALK = ["html", "latex", "beamer", "memoir", "opml", "html", "memoir", "latex", "html", "opml", "beamer", "html"]
    wopts = [(f, docs.STD, "en") for f in ("html", "latex", "beamer", "memoir", "opml")]
    for d in dn + ["dims"]:
        for wk in (WALK, WALK[::-1]):
            scripts.append([line("e_new", 0, d, docs.STD, docs.LANG["en"])] + [line("e_conv", 0, docs.FMT[f]) for f in wk] + [line("e_free", 0)])
    # a table whose rows have more cells than its separator line has columns, converted after a wider table (what the earlier table left in the alignment record)
    dpool["wide"] = b"| a | b | c | d | e | f |\n|--:|--:|--:|--:|--:|--:|\n| 1 | 2 | 3 | 4 | 5 | 6 |\n"
    dpool["ragged"] = b"| a | b |\n| --- | --- |\n| 1 | 2 | 3 | 4 | 5 |\n\n| x |\n|:-:|\n| 1 | 2 | 3 |\n"
    for o in wopts + [("fodt", docs.STD, "en")]:
        scripts.append([conv_line("s_conv", "wide", o), conv_line("s_conv", "ragged", o), conv_line("d_conv", "wide", o), conv_line("s_data", "ragged", o)])
        scripts.append([line("e_new", 0, "wide", o[1], docs.LANG[o[2]]), line("e_conv", 0, docs.FMT[o[0]]), line("e_settext", 0, "ragged"), line("e_conv", 0, docs.FMT[o[0]]), line("e_free", 0)])
    refs = sorted({(s, o) for s in dn for o in allopts} | {(s, o) for s in dn + ["dims"] for o in wopts} | {(s, o) for s in ("wide", "ragged") for o in wopts + [("fodt", docs.STD, "en")]}, key=str)
    problems, trace = run_session(chk, exe, dpool, refs, scripts, "pool")
    nconv = len([e for e in trace if e["e"] == "conv"])
    # 3. corpus histories: random order, reused engine and fresh engines, textual formats
    rnd = random.Random(seed)
    corp = docs.corpus()
    cn = sorted(corp)
    copts = [("html", docs.STD, "en"), ("html", docs.COMPAT, "en"), ("latex", docs.STD, "en"), ("fodt", docs.STD, "en"), ("opml", docs.STD, "en"), ("beamer", docs.STD, "de")]
    cscripts = []; langs_used = set()
    for hno in range(8 if tier == "quick" else 48):
        names = rnd.sample(cn, 10 if tier == "quick" else 14)
        o = rnd.choice(copts)
        s = []
        s.append(line("e_new", 0, names[0], o[1], docs.LANG[o[2]]))
        for nm in names:
            if hno % 2:
                # the language of the live engine changes between conversions (every language, and codes the library has no quote style for)
                lg = rnd.choice(sorted(docs.LANG.values()) + [6, 6]); s.append(line("e_lang", 0, lg)); langs_used.add((nm, o[0], o[1], lg))
            s.append(line("e_settext", 0, nm)); s.append(line("e_conv", 0, docs.FMT[o[0]]))
            o2 = rnd.choice(copts); s.append(conv_line(rnd.choice(FAMS), rnd.choice(names), o2))
        s.append(line("e_free", 0))
        cscripts.append((names, s))
    cpool = {k.replace(" ", "_"): v for k, v in corp.items()}
    cscripts2 = [[ln.replace("\t" + nm + "\t", "\t" + nm.replace(" ", "_") + "\t") if False else ln for ln in s] for _, s in cscripts]
    # names contain spaces: map to ids
    idmap = {nm: "c%02d" % i for i, nm in enumerate(cn)}
    def remap(s):
        out = []
        for ln in s:
            f = ln.split("\t")
            out.append("\t".join(idmap.get(x, x) for x in f))
        return out
    cscripts2 = [remap(s) for _, s in cscripts]
    used = sorted({nm for names, _ in cscripts for nm in names})
    cpool = {idmap[nm]: corp[nm] for nm in used}
    LN = {v: k for k, v in docs.LANG.items()}
    crefs = sorted({(idmap[nm], o) for nm in used for o in copts} | {(idmap[nm], (f, x, LN[lg])) for (nm, f, x, lg) in langs_used}, key=str)
    p2, trace2 = run_session(chk, exe, cpool, crefs, cscripts2, "corpus")
    problems += p2
    nconv += len([e for e in trace2 if e["e"] == "conv"])
    # 3b. outlines imported back into text (OPML, ITMZ): string, DString and engine entry points, once and again on the same DString / engine
    osrc = ["notes", "tables", "meta_de", "toc"]
    r0 = run_harness(exe, [["seg\toutl", "wantout\t1"] + [line("src", on_, sx(dpool[on_])) for on_ in osrc] + [conv_line("s_data", on_, (f, docs.STD, "en")) for on_ in osrc for f in ("opml", "itmz")]])[0]
    outl = {}
    for ev in r0["events"]:
        if ev.get("e") == "conv" and not ev["null"]: outl[(ev["src"], docs.FMTNAME[ev["fmt"]])] = project.lat1(ev["out"])
    iseg = ["seg\timport"]
    for (on_, f), ob in sorted(outl.items()):
        iseg.append(line("src", "o_%s_%s" % (on_, f), sx(ob)))
        for fam in ("s", "d", "e", "dd", "ee", "de", "ed", "sds") if f == "opml" else ("d", "e", "dd", "ee", "de", "ed"):      # (a ZIP archive cannot be handed over as a C string)
            iseg.append(line("opml2text", fam, "o_%s_%s" % (on_, f), f))
    # a live engine that reads outlines (EXT_PARSE_OPML): converting, turning the outline into text, converting again -- the second conversion is the first one's equal
    for (on_, f), ob in sorted(outl.items()):
        if f != "opml": continue
        xo = docs.STD | E["PARSE_OPML"]; sid = "o_%s_%s" % (on_, f)
        iseg += [conv_line("s_conv", sid, ("html", xo, "en")), line("e_new", 0, sid, xo, 0), line("e_opml2text", 0), line("e_conv", 0, docs.FMT["html"]), line("e_free", 0),
                 line("e_new", 0, sid, xo, 0), line("e_opml2text", 0), line("e_opml2text", 0), line("e_conv", 0, docs.FMT["latex"]), line("e_free", 0), conv_line("s_conv", sid, ("latex", xo, "en")),
                 line("e_new", 0, sid, xo, 0), line("e_conv", 0, docs.FMT["html"]), line("e_opml2text", 0), line("e_conv", 0, docs.FMT["html"]), line("e_free", 0)]
    r1 = run_harness(exe, [iseg])[0]
    trace3 = [dict(e="reset")] + to_trace_events(r1["events"])
    if r1["status"] != "ok": problems.append(("crash", iseg, r1))
    acc3, rej3, st3, _ = tlc.validate_trace("SessionTrace", os.path.join(VERIF, "spec", "SessionTrace.cfg"), trace3)
    chk.add("trace_events_validated", acc3); chk.add("trace_states", st3); chk.cov["imports"] = len([e for e in trace3 if e["e"] == "conv"])
    if chk.cov["imports"] < 12 * len(osrc): raise FrameworkError("outline import family did not run (%d events)" % chk.cov["imports"])
    for seg, idx in rej3: problems.append(("rejected", seg, idx))
    nconv += chk.cov["imports"]
    chk.cov["evaluations"] = nconv
    chk.cov["distinct_nontrivial"] = len({(e["key"], e["fam"]) for e in trace + trace2 if e["e"] == "conv"})
    chk.cov["histories"] = dict(bfs=len(hists), simulated=len(hists_sim), corpus=len(cscripts2), bfs_length=n)
    chk.cov["rule"] = ("TLC BFS: all histories of %d steps over %d documents x %d option sets x families %s + one reusable engine (new/settext/convert/free); "
                       "TLC simulation: %d histories of 12 steps over all option sets; corpus: random histories of a reused engine walking 10-14 repository test documents "
                       "interleaved with fresh-engine conversions; distinct = distinct (key, family) pairs observed" % (n, len(dn), len(opts), FAMS[:2], len(hists_sim)))
    for h in hists[:2] + hists_sim[:1]:
        chk.sample([{k: v for k, v in s.items() if v not in ("-", 0)} for s in h])
    # 4. triage
    seen = set()
    for kind, a, b in problems:
        if kind == "rejected":
            key, what = classify(a, b)
            ev = a[b]
            sig = (key, ev.get("key"))
            if sig in seen: continue
            seen.add(sig)
            chk.report(key, "%s :: key %s ; events of the execution: %s" % (what, ev.get("key"), json.dumps([{k: v for k, v in x.items() if k in ("e", "fam", "key", "op", "src", "digest")} for x in a])[:1500]),
                       dict(events=a, refused=b))
        else:
            k, f = san_signature(b.get("san", ""))
            chk.report("%s:%s:%s" % (b["status"], k, f), "harness process ended (%s) :: %s" % (b["status"], b.get("san", "")[:400].replace("\n", " | ")), dict(script=a))
    return chk.finish()


def replay(path):
    print(open(path).read()[:3000]); return 0
