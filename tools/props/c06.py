"""C06 -- every documented entry point produces the same result.

The Session specification has no entry-point family in its key: a recorded conversion <<family, key, digest>> is accepted only if the digest
equals the one the key got first (reference: mmd_string_convert resp. mmd_string_convert_to_data in a fresh process).  Families: C-string, DString
and engine variants of convert / convert_to_data / convert_to_file, and the command line tool (stdin, file argument, -o, -b).  Plain formats: all
families share one key; packaged formats: data/file/CLI share one key, compared member-wise with uuids and dates masked.  Metadata triplets
(has/keys/value in three families) share one key per query.
"""
import json, os, subprocess, random
from vlib import *  # noqa
import docs, project
from props import c05

LEVEL = "model_checking"
PLAIN = c05.PLAIN
PACKAGED = ("epub", "odt", "bundlezip", "itmz", "fodt")
E = docs.EXT
CLISTD = docs.STD | E["TRANSCLUDE"]
EXTSETS = [("std", CLISTD, []), ("compat", docs.COMPAT, ["-c"]), ("full", CLISTD | E["COMPLETE"], ["-f"]), ("fullsnip", CLISTD | E["COMPLETE"] | E["SNIPPET"], ["-f", "-s"]),
           ("snip", CLISTD | E["SNIPPET"], ["-s"]),
           ("nolabels", CLISTD | E["NO_LABELS"], ["--nolabels"]), ("nosmart", E["NOTES"] | E["CRITIC"] | E["TRANSCLUDE"], ["--nosmart"])]
CLIFMT = dict(html="html", latex="latex", beamer="beamer", memoir="memoir", opml="opml", fodt="fodt", odt="odt", epub="epub", bundlezip="bundlezip", itmz="itmz", mmd="mmd")
BATCHEXT = dict(html=".html", latex=".tex", beamer=".tex", memoir=".tex", fodt=".fodt", odt=".odt", mmd=".mmdtext", epub=".epub", bundlezip=".textpack", opml=".opml", itmz=".itmz")
FAMS = ["s_conv", "d_conv", "e_conv", "s_data", "d_data", "e_data", "s_file", "d_file", "e_file"]


def digest_of(fmt, fam, ev):
    """plain formats: harness digest; packaged: canonical member digest computed from the returned bytes"""
    if fmt in ("epub", "odt", "bundlezip", "itmz") and ev.get("out") is not None and not ev["null"]:
        d, mem = project.canon_pkg(project.lat1(ev["out"]))
        return d
    if fmt == "itmz" and ev.get("out") is not None and not ev["null"]:
        return project.fnv(project.mask(project.lat1(ev["out"])))       # bare iThoughts stream carries fresh uuids
    return ev["digest"]


def run_cli(cli, wd, name, text, fmt, flags, mode):
    """-> (bytes or None, rc)"""
    src = os.path.join(wd, name + ".txt")
    open(src, "wb").write(text)
    env = san_env(os.path.join(wd, "cli.san"))
    base = [cli, "-t", CLIFMT[fmt]] + flags
    try:
        if mode == "stdin":
            p = subprocess.run(base, input=text, stdout=subprocess.PIPE, stderr=subprocess.PIPE, env=env, timeout=60, cwd=wd)
            return p.stdout, p.returncode
        if mode == "file":
            p = subprocess.run(base + [src], stdout=subprocess.PIPE, stderr=subprocess.PIPE, env=env, timeout=60, cwd=wd)
            return p.stdout, p.returncode
        if mode == "o":
            o = os.path.join(wd, name + ".out")
            if os.path.exists(o): os.remove(o)
            p = subprocess.run(base + ["-o", o, src], stdout=subprocess.PIPE, stderr=subprocess.PIPE, env=env, timeout=60, cwd=wd)
            return (open(o, "rb").read() if os.path.exists(o) else None), p.returncode
        if mode == "b":
            o = os.path.join(wd, name + BATCHEXT[fmt])
            if os.path.exists(o): os.remove(o)
            p = subprocess.run(base + ["-b", src], stdout=subprocess.PIPE, stderr=subprocess.PIPE, env=env, timeout=60, cwd=wd)
            return (open(o, "rb").read() if os.path.exists(o) else None), p.returncode
    except subprocess.TimeoutExpired:
        return None, -9


def run(tier, seed):
    chk = Check("C06", LEVEL, tier, seed)
    chk.assumptions += ["packaged outputs are compared member-wise (names, order, compression method, contents) with uuids and timestamps masked",
                        "documents contain no transclusion markers and no 'mmd header/footer' metadata, so the CLI's pre-processing is the identity",
                        "FODT: convert() returns the bare content stream by design; the data/file/CLI family is compared among itself",
                        "a leading UTF-8 byte order mark is removed by the command line while reading its input; the library functions are given the text without it"]
    mc = tlc.run("Session", c05.MC % (5, "FALSE", "FALSE"), workers=NCPU, coverage=True)
    if mc.violated: raise FrameworkError("Session model violates " + mc.violated)
    chk.cov["states"] = mc.distinct; chk.cov["transitions"] = mc.generated
    exe = build.build_harness("asan"); cli = build.build_cli()
    rnd = random.Random(seed)
    dn = ["notes", "meta_de", "tables", "critic", "lists", "images", "plain", "toc"] if tier == "quick" else list(docs.POOL)
    dpool = {n: docs.POOL[n].encode() for n in dn}
    corp = docs.corpus()
    for nm in rnd.sample(sorted(corp), 4 if tier == "quick" else 20):
        if b"{{" in corp[nm] or b"mmd header" in corp[nm].lower() or b"mmd footer" in corp[nm].lower():
            continue
        dpool["c_" + nm.replace(" ", "_")] = corp[nm]
    # sources whose rendering is empty (every entry point still has to agree, trailing newline included)
    # output that contains '%' conversions-lookalikes (every writing path must treat the rendering as data)
    dpool["percent"] = b"100% of [docs](http://example.com/user%20docs/a%2Fb.html) cost 5%d or %s, %5.2f%% and %n.\n\n    code %x %c\n"
    # a source that starts with a byte order mark: the command line strips it while reading (file and stdin alike); the library is given the text the
    # command line hands to it, i.e. without the mark (LIBSRC below)
    dpool["bom"] = b"\xef\xbb\xbfTitle: with BOM\n\n# Head #\n\ntext\n"
    dpool.update({"empty": b"", "blank": b"\n\n", "defonly": b"[a]: http://x.y/\n\n[^f]: unused note\n", "metaonly": b"Base Header Level: 2\n\n"})
    fmts = ["html", "latex", "beamer", "memoir", "opml", "fodt", "odt", "epub", "bundlezip", "itmz"]
    exts = EXTSETS[:4] if tier == "quick" else EXTSETS
    wd = scratch("c06")
    try:
        cases = [(d, f, x) for d in dpool for f in fmts for x in exts]
        if tier == "quick":
            # every (format, extension set) with every document for plain formats; packaged formats on a rotating subset of documents
            cases = [c for i, c in enumerate(cases) if c[1] in PLAIN or (sum(map(ord, c[0] + c[1])) % 3 == 0) or c[0] in ("images", "notes")]
        segs = []
        LIBSRC = lambda b: b[3:] if b.startswith(b"\xef\xbb\xbf") else b
        for (d, f, (xn, x, flags)) in cases:
            s = ["seg\tc06", "wantout\t%d" % (1 if f in ("epub", "odt", "bundlezip", "itmz") else 0), line("src", d, sx(LIBSRC(dpool[d])))]
            # one engine object used for several conversions in a row (convert, convert_to_data, convert again)
            s += [line("e_new", 0, d, x, 0), line("e_conv", 0, docs.FMT[f]), line("e_data", 0, docs.FMT[f]), line("e_conv", 0, docs.FMT[f]), line("e_free", 0)]
            for fam in FAMS:
                if fam.endswith("_file"):
                    s.append(line("conv", fam, d, docs.FMT[f], x, 0, "-", os.path.join(wd, "f_%d_%s" % (len(segs), fam))))
                else:
                    s.append(line("conv", fam, d, docs.FMT[f], x, 0))
            segs.append(s)
        res = run_harness(exe, segs, timeout=60)
        trace = []; problems = []
        for (d, f, (xn, x, flags)), seg, r in zip(cases, segs, res):
            if r["status"] != "ok":
                problems.append(("crash", (d, f, xn), r)); continue
            trace.append(dict(e="reset"))
            for ev in r["events"]:
                if ev.get("e") == "eng": trace.append(dict(e="eng", op=ev["op"], src=ev.get("src", ""))); continue
                if ev.get("e") != "conv": continue
                fam = ev["fam"]
                grp = "" if f in PLAIN else ("|conv" if fam in c05.CONVFAM else "|data")
                # packaged formats: the property relates only the data / file / CLI variants to one another
                det = (f in PLAIN) or (fam not in c05.CONVFAM)
                trace.append(dict(e="conv", fam=fam, src=d, key="%s|%s|%s%s" % (d, f, xn, grp), digest=digest_of(f, fam, ev), det=det, null=ev["null"], srcsame=ev["srcsame"],
                                  inplace=False, wrote=ev["wrote"], needfile=fam.endswith("_file"), rng=ev["rng"], rand=ev["rand"], len=ev["len"]))
        # languages: every entry point takes the language as a parameter, the command line as -l <code>
        LANGS = [("en", 0), ("es", 1), ("de", 2), ("fr", 3), ("nl", 4), ("sv", 5), ("he", 6)]
        ldocs = {"lq": b"\"double\" and 'single' quotes -- dash...\n\nnote[^n] cite[#c] gloss[?g]\n\n[^n]: note\n[#c]: cite\n[?g]: term\n"}
        lcases = [(d, f, code, n) for d in ldocs for f in ("html", "latex") for (code, n) in LANGS]
        lsegs = []
        for (d, f, code, n) in lcases:
            s = ["seg\tc06lang", line("src", d, sx(ldocs[d]))]
            for fam in ("s_conv", "d_conv", "e_conv", "s_data", "d_data", "e_data"): s.append(line("conv", fam, d, docs.FMT[f], CLISTD, n))
            lsegs.append(s)
        lres = run_harness(exe, lsegs, timeout=60)
        def do_lang(c):
            d, f, code, n = c
            sub = os.path.join(wd, "lang_%s_%s_%s" % (d, f, code)); os.makedirs(sub, exist_ok=True)
            return [(mode,) + run_cli(cli, sub, d, ldocs[d], f, ["-l", code] if mode != "file" else ["--lang=" + code], mode) for mode in ("stdin", "file", "o", "b")]
        with concurrent.futures.ThreadPoolExecutor(NCPU) as ex:
            lcres = list(ex.map(do_lang, lcases))
        for (d, f, code, n), seg, r, outs in zip(lcases, lsegs, lres, lcres):
            if r["status"] != "ok":
                problems.append(("crash", (d, f, "lang-" + code), r)); continue
            trace.append(dict(e="reset"))
            key = "%s|%s|lang-%s" % (d, f, code)
            for ev in r["events"]:
                if ev.get("e") == "conv":
                    trace.append(dict(e="conv", fam=ev["fam"], src=d, key=key, digest=ev["digest"], det=True, null=ev["null"], srcsame=ev["srcsame"], inplace=False, wrote=ev["wrote"], needfile=False, rng=ev["rng"], rand=ev["rand"], len=ev["len"]))
            for mode, b, rc in outs:
                trace.append(dict(e="conv", fam="cli_" + mode, src=d, key=key, digest="NULL" if b is None else project.fnv(b), det=True, null=(b is None or rc != 0), srcsame=True, inplace=False, wrote=b is not None, needfile=mode in ("o", "b"), rng=0, rand=0, len=len(b or b"")))
        # and the languages must actually differ from one another (otherwise the comparison above says nothing)
        ldig = {}
        for (d, f, code, n), r in zip(lcases, lres):
            for ev in r["events"]:
                if ev.get("e") == "conv" and ev["fam"] == "s_conv": ldig.setdefault((d, f), {})[code] = ev["digest"]
        chk.cov["languages_distinct_renderings"] = {"%s|%s" % k: len(set(v.values())) for k, v in ldig.items()}
        # the command line tool
        clicases = cases if tier == "thorough" else [c for c in cases if c[0] in ("notes", "images", "meta_de", "plain", "bom", "percent")]
        def do_cli(c):
            d, f, (xn, x, flags) = c
            sub = os.path.join(wd, "cli_%s_%s_%s" % (d, f, xn)); os.makedirs(sub, exist_ok=True)
            out = []
            for mode in ("stdin", "file", "o", "b"):
                b, rc = run_cli(cli, sub, d, dpool[d], f, flags, mode)
                out.append((mode, b, rc))
            return out
        with concurrent.futures.ThreadPoolExecutor(NCPU) as ex:
            cres = list(ex.map(do_cli, clicases))
        for (d, f, (xn, x, flags)), outs in zip(clicases, cres):
            trace.append(dict(e="reset"))
            for mode, b, rc in outs:
                grp = "" if f in PLAIN else "|data"
                dg = "NULL" if b is None else (project.canon_pkg(b)[0] if f in ("epub", "odt", "bundlezip", "itmz") else project.fnv(b))
                trace.append(dict(e="conv", fam="cli_" + mode, src=d, key="%s|%s|%s%s" % (d, f, xn, grp), digest=dg, det=True, null=(b is None or rc != 0), srcsame=True,
                                  inplace=False, wrote=b is not None, needfile=mode in ("o", "b"), rng=0, rand=0, len=len(b or b"")))
        # metadata triplets: one key per (doc, query), three families
        msegs = []
        # metadata blocks in every line-ending spelling and shape (these are asked through the metadata families only)
        mb = "Title: Demo title\nAuthor: Some One\nDate: 2020-01-02\nAbstract: first line\n    continued here\nLast: z\n\n# Head #\n\nBody text.\n"
        mpool = dict(dpool)
        mpool.update({"m_lf": mb.encode(), "m_crlf": mb.replace("\n", "\r\n").encode(), "m_cr": mb.replace("\n", "\r").encode(),
                      "m_yaml": ("---\n" + mb.replace("\n\n# Head", "\n---\n\n# Head", 1)).encode(), "m_yaml_crlf": ("---\n" + mb.replace("\n\n# Head", "\n---\n\n# Head", 1)).replace("\n", "\r\n").encode(),
                      "m_noend": b"Title: only\nAuthor: block", "m_one": b"Title: one line\r\n\r\nbody\r\n", "m_blankws": b"Title: t\nAuthor: a\n \t\nbody\n"})
        for d in mpool:
            s = ["seg\tmeta", line("src", d, sx(mpool[d]))]
            for fam in ("s", "d", "e"):
                s += [line("meta", fam, d, "has"), line("meta", fam, d, "keys"), line("meta", fam, d, "val", sx("title")), line("meta", fam, d, "val", sx("Author")), line("meta", fam, d, "val", sx("nokey")), line("meta", fam, d, "val", sx("abstract")), line("meta", fam, d, "val", sx("last"))]
            # the engine variants on ONE engine object: asked twice, and again after a parse and after a conversion
            q = [line("e_meta", 0, "has"), line("e_meta", 0, "keys"), line("e_meta", 0, "val", sx("title")), line("e_meta", 0, "val", sx("Author")), line("e_meta", 0, "val", sx("nokey")), line("e_meta", 0, "val", sx("abstract")), line("e_meta", 0, "val", sx("last"))]
            s += [line("e_new", 0, d, CLISTD & ~E["TRANSCLUDE"], 0)] + q + q + [line("e_parse", 0)] + q + [line("e_conv", 0, docs.FMT["html"])] + q + [line("e_free", 0)]
            # a key is added: the string family on the new text is the reference; engines that were never parsed / parsed / converted before the update must
            # answer the same -- asked for the keys FIRST (the has-metadata query re-scans and would hide a stale answer)
            q2 = [line("meta", "X", d + "U", "keys"), line("meta", "X", d + "U", "val", sx("revision")), line("meta", "X", d + "U", "val", sx("title")), line("meta", "X", d + "U", "has")]
            s += [line("meta", "s", d, "upd", sx("Revision"), sx("7 b"), d + "U")] + [ln.replace("\tX\t", "\ts\t") for ln in q2] + [ln.replace("\tX\t", "\td\t") for ln in q2]
            qe = [line("e_meta", 0, "keys"), line("e_meta", 0, "val", sx("revision")), line("e_meta", 0, "val", sx("title")), line("e_meta", 0, "has")]
            for pre in ([], [line("e_parse", 0)], [line("e_conv", 0, docs.FMT["html"])], [line("e_meta", 0, "keys")]):
                s += [line("e_new", 0, d, CLISTD & ~E["TRANSCLUDE"], 0)] + pre + [line("e_meta", 0, "upd", sx("Revision"), sx("7 b"))] + qe + [line("e_free", 0)]
            msegs.append(s)
        mres = run_harness(exe, msegs)
        for d, r in zip(mpool, mres):
            if r["status"] != "ok":
                problems.append(("crash", (d, "meta", ""), r)); continue
            trace.append(dict(e="reset"))
            eupd = False
            for ev in r["events"]:
                if ev.get("e") == "eng" and ev.get("op") == "new": eupd = False
                if ev.get("e") != "meta": continue
                if ev["op"] == "upd":
                    if ev["fam"] == "e_reuse": eupd = True
                    continue
                after = "+upd" if (ev.get("src") == d + "U" or (ev["fam"] == "e_reuse" and eupd)) else ""
                val = json.dumps([ev["has"], ev["end"]]) if ev["op"] == "has" else json.dumps(ev.get("res"))
                trace.append(dict(e="conv", fam="meta_" + ev["fam"], src=d, key="%s%s|meta|%s|%s" % (d, after, ev["op"], ev["key"]), digest=val, det=True, null=False, srcsame=ev["srcsame"],
                                  inplace=False, wrote=False, needfile=False, rng=0, rand=0, len=0))
        acc, rejected, states, info = tlc.validate_trace("SessionTrace", os.path.join(VERIF, "spec", "SessionTrace.cfg"), trace, max_rejects=40)
    finally:
        shutil.rmtree(wd, ignore_errors=True)
    chk.add("traces_validated_against_impl", len(cases) + len(clicases) + len(msegs) - len(problems) - len(rejected))
    chk.add("trace_events_validated", acc); chk.add("trace_states", states)
    nconv = len([e for e in trace if e["e"] == "conv"])
    chk.cov["evaluations"] = nconv
    chk.cov["distinct_nontrivial"] = len({(e["key"], e["fam"]) for e in trace if e["e"] == "conv"})
    chk.cov["rule"] = ("cases = documents (%d: hand-picked pool + repository corpus sample) x formats %s x extension sets %s; each case runs 9 API families in one process and 4 CLI modes "
                       "(stdin, file, -o, -b; %d cases); metadata triplets for every document x 5 queries x 3 families; distinct = distinct (key, family) pairs" % (len(dpool), fmts, [x[0] for x in exts], len(clicases)))
    chk.sample(dict(case=list(map(str, cases[0][:2])) + [cases[0][2][0]], families=FAMS + ["cli_stdin", "cli_file", "cli_o", "cli_b"]))
    chk.sample([e for e in trace if e["e"] == "conv"][:3])
    seen = set()
    for seg, idx in rejected:
        ev = seg[idx]
        fmt = ev["key"].split("|")[1]
        if ev["null"]: key = "no-result:%s:%s" % (ev["fam"], fmt)
        elif ev["needfile"] and not ev["wrote"]: key = "no-file-written:%s:%s" % (ev["fam"], fmt)
        elif not ev["srcsame"]: key = "source-modified:%s" % ev["fam"]
        else: key = "family-disagrees:%s:%s" % (ev["fam"], fmt if not fmt == "meta" else "meta:" + ev["key"].split("|")[2])
        if key in seen: continue
        seen.add(key)
        first = [x for x in seg if x.get("key") == ev["key"]][0]
        chk.report(key, "%s for key %s: digest %s len %d, reference family %s gave %s len %d" % (key, ev["key"], ev["digest"], ev["len"], first["fam"], first["digest"], first["len"]),
                   dict(events=[{k: v for k, v in x.items()} for x in seg], refused=idx))
    for kind, a, b in problems:
        k, f = san_signature(b.get("san", ""))
        key = "%s:%s:%s" % (b["status"], k, f)
        if key in seen: continue
        seen.add(key)
        chk.report(key, "process ended (%s) in case %s :: %s" % (b["status"], a, b.get("san", "")[:300].replace("\n", " | ")), dict(case=list(a)))
    return chk.finish()


def replay(path):
    print(open(path).read()[:3000]); return 0
