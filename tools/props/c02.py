"""C02 -- every input yields a complete rendering; nothing is silently dropped.

1. ParserTables.tla is generated from the parser source of the tree under test; LemonParser.tla (the lemon driver, line by line) is
   model-checked over it: all reachable parser stacks x all realizable line kinds -- no syntax error, no failure, no stack overflow,
   end of input accepted.  Complete for documents of any length (finite reachable stack space).
2. LineKinds: TLC enumerates every sequence of <= L spellings (one or more per line kind) and simulates long ones.
3. Replay in the `trace` variant (lemon's ParseTrace seam on): every recorded Parse() call of every parser instance (nested ones too)
   must be the model's step (LemonParserTrace) -- this is what makes the model *the code's* automaton, and checks the alphabet assumption.
4. Every document x 7 writers x {MMD, compatibility}: CompleteTrace accepts only if control returns with a rendering and no escape
   (exit(), unknown token, parser failed, syntax error) is taken.
"""
import json, os, random, re
from vlib import *  # noqa
import docs, lemon
sys.path.insert(0, os.path.join(VERIF, "specgen"))
import lemon_tables, writer_cases

LEVEL = "model_checking"
GEN = "CONSTANTS MaxLines = %d\n Sim = %s\nINIT Init\nNEXT Next\nINVARIANT Emit\nCHECK_DEADLOCK FALSE\n"
WORDS = []
WRITERS = ["html", "latex", "beamer", "memoir", "fodt", "opml", "itmz"]
MODES = [("mmd", docs.STD), ("compat", docs.COMPAT)]
NODEF = ("<div>", "[lnk]: http://x", "[cap]: http://x", "[x]: y \"t\"", "[>abbr]: Abbr", "[#cite]: Cite", "[^fn]: Note", "[?gl]: Term", "Key: value", "---", "", "{{TOC}}", "<!--", "-->")


def word_counts(fmt, out, words):
    """how often each LineSpell word can be read in a rendering: markup (tags, commands, environment names) removed; the outline formats keep the text in attributes"""
    import project
    b = project.lat1(out) if out is not None else b""
    if fmt == "itmz":
        ok, mem, err = project.zip_members(b)
        b = b" ".join(m["data"] for m in mem if m["name"] == "mapdata.xml")
    t = b.decode("latin-1")
    if fmt in ("html", "fodt"): t = re.sub(r"<[^>]*>", " ", t)
    elif fmt in ("latex", "beamer", "memoir"): t = re.sub(r"\\[A-Za-z]+", " ", re.sub(r"\\(begin|end)\{[^}]*\}", " ", t))
    return {w: len(re.findall(r"(?<![A-Za-z0-9])" + re.escape(w) + r"(?![A-Za-z0-9])", t)) for w in words}


def exposed_count(table, seq):
    """diagnostic only (coverage figure): how many word-bearing lines of the document LineSpell.Exposed keeps in sight"""
    T = [table[i - 1] for i in seq]; n = 0
    if T and T[0]["t"] == "---": return 0
    for i, e in enumerate(T):
        if not e["w"] or e["hide"]: continue
        gs = max([j + 1 for j in range(i) if T[j]["t"] == ""] or [0])
        if any(T[j]["hide"] for j in range(gs, i)): continue
        if any(T[j]["t"] == "<!--" for j in range(i)): continue
        IND = ("\ttabbed", "    spaced", " \tmixed")
        if e["t"] in IND and any(T[j]["first"].startswith("LINE_DEF_") for j in range(i)): continue
        if any(T[j]["t"] in IND and any(T[k]["first"].startswith("LINE_DEF_") for k in range(j)) for j in range(gs, i)): continue
        n += 1
    return n


def gen_docs(tier, seed):
    r = tlc.run("LineKinds", GEN % (2, "FALSE"), workers=8)
    istable = lambda v: isinstance(v, list) and v and isinstance(v[0], dict)
    table = [v for v in r.printed if istable(v)][0]
    seqs = [d for d in r.printed if not istable(d)]
    seqs += [[i] for i in range(1, len(table) + 1)]
    r3 = tlc.run("LineKinds", GEN % (3, "FALSE"), workers=8)
    seqs3 = [d for d in r3.printed if not istable(d)]
    rs = tlc.run("LineKinds", GEN % (12, "TRUE"), workers=4, simulate=(100 if tier == "quick" else 1000), depth=13, seed=seed, timeout=600)
    sim = [d for d in rs.printed if not istable(d)]
    seqs4 = []
    if tier == "thorough":
        r4 = tlc.run("LineKinds", GEN % (4, "TRUE"), workers=4, simulate=15000, depth=5, seed=seed + 1, timeout=900)
        seqs4 = uniq([d for d in r4.printed if not istable(d)])
    return table, seqs, seqs3, sim, seqs4


def text_of(table, seq, eol="\n", final=True):
    t = eol.join(table[i - 1]["t"] for i in seq)
    return (t + (eol if final else "")).encode()


def run(tier, seed):
    chk = Check("C02", LEVEL, tier, seed)
    chk.assumptions += ["the line classifier never produces the pseudo-kinds LINE_CONTINUATION, LINE_FALLBACK, LINE_BACKTICK (checked on every recorded Parse call)",
                        "trace variant = ASan+UBSan build without NDEBUG (lemon's ParseTrace seam and its diagnostics compiled in)",
                        "inline token kinds are exercised by the corpus, the spellings and the delimiter soup (every ordered pair of 27 inline delimiters); see C01 for longer inline sequences"]
    rnd = random.Random(seed)
    # 1. the model is derived from the code, then explored completely
    gd = os.path.join(BUILD, "specgen")
    tables = lemon_tables.generate(gd)
    mc = tlc.run("LemonParser", os.path.join(VERIF, "spec", "LemonParserMC.cfg"), workers=NCPU, coverage=True, timeout=900, spec_dirs=(gd,))
    chk.cov["states"] = mc.distinct; chk.cov["transitions"] = mc.generated
    chk.cov["mc"] = dict(module="LemonParser over generated ParserTables", states=tables["YYNSTATE"], rules=tables["YYNRULE"], stackdepth=tables["YYSTACKDEPTH"],
                         distinct_stacks=mc.distinct, transitions=mc.generated, coverage={k: list(v) for k, v in mc.coverage.items()}, exhaustive=True)
    problems = []
    if mc.violated:
        # a counterexample of the model over the code's own tables is a property violation: spell it and confirm it on the code below
        toks = [int(x) for x in re.findall(r"lastTok = (\d+)", mc.cex)]
        problems.append(("model", mc.violated, "line kinds fed: %s ... %s" % ([tables["yyTokenName"][k] for k in toks[1:]], mc.cex[-1200:])))
    elif mc.coverage.get("Feed", (0, 0))[0] == 0 or mc.coverage.get("FeedEOF", (0, 0))[1] == 0:
        raise FrameworkError("LemonParser: Feed/FeedEOF never taken")
    # 1b. the writers' dispatch tables, generated from the sources, are mutually consistent
    names, vals, cases = writer_cases.generate(gd)
    chk.cov["writer_cases"] = {w: len(c) for w, c in cases.items()}
    try:
        wc = tlc.run("WriterCover", "INIT Init\nNEXT Next\nINVARIANTS Consistent LabelsAreKinds EnumOK\n", workers=1, spec_dirs=(gd,), extra=("-nowarning",))
        bad = wc.violated
    except tlc.TlcError as ex:
        # the invariants of this module are constant-level: when one is false TLC says so before exploring ("The invariant of X is equal to FALSE")
        m = re.search(r"invariant of (\w+) is equal to FALSE", str(ex))
        if not m: raise
        bad = m.group(1); wc = None
    if bad:
        rep = tlc.run("WriterCover", "INIT Init\nNEXT Next\nINVARIANT Report\n", workers=1, spec_dirs=(gd,), extra=("-nowarning",), want_printed=False)
        miss = [l for l in rep.out.splitlines() if "missing" in l]
        problems.append(("writers", bad, " ".join(miss)[:1500]))
    # 2. behaviours
    table, seqs, seqs3, sim, seqs4 = gen_docs(tier, seed)
    exe = build.build_harness("trace")
    global WORDS
    WORDS = sorted({e["w"] for e in table if e["w"]} | {e["wc"] for e in table if e.get("wc")})
    corp = docs.corpus()
    traced = [("seq", s) for s in seqs] + [("seq", s) for s in (rnd.sample(seqs3, 3000) if tier == "quick" else seqs3)] + [("seq", s) for s in sim]
    alldocs = [("seq", s) for s in seqs + seqs3 + sim + seqs4]
    docbytes = {}
    def body(d):
        k, s = d
        return text_of(table, s) if k == "seq" else (text_of(table, s, final=False) if k == "seqnf" else s)
    # 3. lemon traces (html, both modes for the short ones)
    segs = []
    tr_docs = traced + [("raw", corp[n]) for n in sorted(corp)]
    per = 40
    for i in range(0, len(tr_docs), per):
        s = ["seg\tlemon", "ptrace\t1"]
        for j, d in enumerate(tr_docs[i:i + per]):
            s.append(line("src", "d%d" % j, sx(body(d))))
            s.append(line("conv", "s_conv", "d%d" % j, 0, docs.STD if (i + j) % 3 else docs.COMPAT, 0))
        segs.append(s)
    res = run_harness(exe, segs, timeout=60)
    ltrace = []; nsess = 0; rules_seen = set(); pairs_seen = set(); kinds_seen = set()
    first_mismatch = []
    for si, (seg, r) in enumerate(zip(segs, res)):
        if r["status"] != "ok":
            problems.append(("crash", seg, r)); continue
        convs = [e for e in r["events"] if e.get("e") == "conv"]
        for j, ev in enumerate(convs):
            try:
                ss = lemon.sessions(ev.get("lemon", ""), tables)
            except lemon.TraceShapeError as ex:
                raise FrameworkError("lemon trace not understood: %s" % ex)
            d = tr_docs[si * per + j]
            for k, s in enumerate(ss):
                nsess += 1
                ltrace.append(dict(e="reset"))
                for c in s:
                    kinds_seen.add(c["tok"]); rules_seen.update(x for x in c["rules"] if isinstance(x, int))
                    for sh in c["shifts"]:
                        pairs_seen.add((sh[1], c["tok"]))
                    ltrace.append(dict(e="feed", tok=c["tok"], rules=c["rules"], fb=c["fb"], out=c["out"], ret=c["ret"], doc=si * per + j))
            # LineKinds' claim about the first line of an MMD-mode document (the top-level parser instance is the last to finish)
            if d[0] == "seq" and (si * per + j) % 3 and ss:
                exp = table[d[1][0] - 1]["first"]
                got = tables["yyTokenName"][ss[-1][0]["tok"]]
                if exp != got and not (exp == "LINE_YAML" and got in ("LINE_HR", "LINE_SETEXT_2", "LINE_YAML")) and not (exp == "LINE_META" and len(d[1]) >= 1 and got in ("LINE_META", "LINE_PLAIN")):
                    first_mismatch.append((table[d[1][0] - 1]["t"], exp, got))
    if first_mismatch:
        chk.notes.append("LineKinds first-line predictions refuted (spec refinement needed, not a violation): %s" % sorted(set(first_mismatch))[:8])
    acc, rejected, states, info = tlc.validate_trace("LemonParserTrace", os.path.join(VERIF, "spec", "LemonParserTrace.cfg"), ltrace, spec_dirs=(gd,), timeout=1500, heap="16g", independent=True)
    chk.add("traces_validated_against_impl", nsess - len(rejected))
    chk.cov["lemon"] = dict(parser_instances=nsess, parse_calls_validated=acc, rules_exercised=len(rules_seen), rules_total=tables["YYNRULE"],
                            state_kind_pairs_exercised=len(pairs_seen), kinds_observed=sorted(tables["yyTokenName"][k] for k in kinds_seen), trace_states=states)
    for seg, idx in rejected:
        problems.append(("lemon", seg, idx))
    # 4. end to end: all writers x modes
    segs2 = []; meta2 = []
    per = 25
    edocs = alldocs + [("raw", corp[n]) for n in sorted(corp)]
    if tier == "quick":
        edocs = [("seq", s) for s in seqs] + [("seq", s) for s in rnd.sample(seqs3, 6000)] + [("seq", s) for s in sim] + [("raw", corp[n]) for n in sorted(corp)]
    # the same short sequences ending at end of input without a final newline (the last block meets EOF in every writer)
    edocs += [("seqnf", s) for s in seqs]
    # every short sequence again after a metadata block, and after a complete table (what follows a table may be its caption -- or ordinary text)
    ix = {e["t"]: i + 1 for i, e in enumerate(table)}
    short = [s for s in seqs if len(s) <= 2]
    edocs += [("seq", [ix["Key: value"], ix[""]] + s) for s in short] + [("seq", [ix["a | b"], ix["--|:-:"], ix["| c |"]] + s) for s in short]
    # ... and followed by a reference definition for the label the bracket lines use
    edocs += [("seq", s + [ix[""], ix["[cap]: http://x"]]) for s in short]
    # continuation lines: every line that opens a container, a blank line, every spelling of an indented line (and a plain line after it)
    OPENERS = ["* item", "1. item", "   + item", "[^fn]: Note", "[?gl]: Term", "> quote", ": definition", "[#cite]: Cite"]
    INDENTS = ["\ttabbed", "    spaced", " \tmixed"]
    for o_ in OPENERS:
        for n_ in INDENTS:
            for pre_ in ([], [ix["plain text"]]):
                edocs += [("seq", pre_ + [ix[o_], ix[""], ix[n_]]), ("seq", pre_ + [ix[o_], ix[""], ix[n_], ix["plain text"]]), ("seq", pre_ + [ix[o_], ix[n_]]), ("seqnf", pre_ + [ix[o_], ix[""], ix[n_]])]
    # a container whose first line is the header row of a table (the table is then the first block of the item / quote / definition / note)
    for pre_ in ("* ", "*  ", "1. ", "> ", ": ", "[^fn]: ", "+   "):
        for tb_ in ("|a|\n|-|\n|c|\n", "| a | b |\n|---|:-:|\n| c | d |\n\nplain text\n", "a | b\n--|--\nc | d\n"):
            edocs.append(("raw", ((("term\n" if pre_ == ": " else "") + pre_ + tb_) + ("\nuse[^fn]\n" if pre_.startswith("[^") else "")).encode()))
    # metadata that re-configures the conversion (format switch, header levels, languages, inserted headers/footers)
    CONF = ["latex mode: beamer", "latex mode: memoir", "latexmode: article", "base header level: 3", "html header level: 4", "latex header level: -1", "odf header level: 2", "language: de", "quotes language: fr",
            "css: x.css", "html header: <script></script>", "html footer: <!-- f -->", "latex config: article", "latex input: pre", "latex footer: post", "bibtex: refs", "biblio style: plain", "xhtml header: <x/>",
            "title: T", "author: A\ndate: D", "mmd footer: nofile.txt", "transclude base: .", "latex leader: lead\nlatex begin: begin\nlatex footer: foot", "latex title: LT\nlatex author: LA", "uuid: u-1", "lang: xx", "language: zz"]
    BODY = "# One [one]\n\ntext \"q\" [^n] [#c] [?g] [>a]\n\n## Two\n\n* item\n\n### Three\n\n[^n]: note\n[#c]: cite\n[?g]: gloss\n[>a]: abbr\n"
    edocs += [("raw", (c.replace("\\n", "\n") + "\n\n" + BODY).encode()) for c in CONF]
    # inline token kinds: every ordered pair of inline delimiters (three shapes) through every writer
    soup = docs.delimiter_soup()
    edocs += [("raw", d.encode()) for (k, a, b2, d) in (soup if tier == "thorough" else soup[::3] + soup[1::3][::4])]
    for i in range(0, len(edocs), per):
        s = ["seg\te2e", "ptrace\t0", "wantout\t1"]
        for j, d in enumerate(edocs[i:i + per]):
            s.append(line("src", "d%d" % j, sx(body(d))))
            for w in WRITERS:
                for mn, mx in MODES:
                    s.append(line("conv", "s_data" if w == "itmz" else "s_conv", "d%d" % j, docs.FMT[w], mx, 0))        # (the map is a ZIP archive: only the data entry point returns all of it)
        segs2.append(s)
    res2 = run_harness(exe, segs2, timeout=60)
    ctrace = []; nconv = 0
    for si, (seg, r) in enumerate(zip(segs2, res2)):
        ctrace.append(dict(e="reset"))
        for ev in r["events"]:
            if ev.get("e") == "conv":
                di = si * per + int(ev["src"][1:])
                d = edocs[di]
                nonblank = d[0] == "seq" and table[d[1][0] - 1]["t"] not in NODEF and ev["fmt"] == 0 and not (ev["ext"] & 1)
                fname = docs.FMTNAME[ev["fmt"]]; isseq = d[0] in ("seq", "seqnf")
                ctrace.append(dict(e="conv", null=ev["null"], diag=ev["diag"], len=ev["len"], nonblank=nonblank, fmt=ev["fmt"], ext=ev["ext"], doc=di,
                                   seq=list(d[1]) if isseq else [], cnt=word_counts(fname, ev.get("out"), WORDS) if isseq else {}, carries=fname in ("opml", "itmz"), compat=bool(ev["ext"] & 1))); nconv += 1
            elif ev.get("e") in ("exit", "aborted", "timeout"):
                # which document was being converted: the last `src` line at or before the command's line in this segment
                sl = ev.get("sline", 0); dj = -1
                for ln in seg[:sl]:
                    if ln.startswith("src\t"): dj = int(ln.split("\t")[1][1:])
                ctrace.append(dict(e=ev["e"], doc=(si * per + dj) if dj >= 0 else -1, cmd=ev.get("cmd", ""), fmtline=seg[sl - 1] if 0 < sl <= len(seg) else ""))
        if r["status"] != "ok":
            ctrace.append(dict(e=r["status"], doc=-1, san=r.get("san", "")[:1500], seg=si))
    acc2, rejected2, states2, info2 = tlc.validate_trace("CompleteTrace", os.path.join(VERIF, "spec", "CompleteTrace.cfg"), ctrace, max_rejects=10, timeout=1500, heap="16g", independent=True)
    chk.add("traces_validated_against_impl", len(segs2) - len(rejected2))
    chk.cov["end_to_end"] = dict(documents=len(edocs), conversions=nconv, writers=WRITERS, modes=[m[0] for m in MODES], events_validated=acc2)
    hideset = {i + 1 for i, e in enumerate(table) if e["hide"]}
    chk.cov["visible_text"] = dict(words=WORDS, conversions_of_generated_documents=len([e for e in ctrace if e.get("seq")]),
                                   judged_in_every_writer=len([e for e in ctrace if e.get("seq") and not (set(e["seq"][2:] if [table[i - 1]["t"] for i in e["seq"][:2]] == ["Key: value", ""] else e["seq"]) & hideset)]),
                                   lines_required_by_exposure_rule=sum(exposed_count(table, e["seq"]) for e in ctrace if e.get("seq") and not e["carries"]),          # (diagnostic mirror of LineSpell.Exposed: the verdict is TLC's)
                                   judged_in_outline_formats=len([e for e in ctrace if e.get("seq") and e["carries"]]),
                                   rule="LineSpell.Complete: a document without hiding lines (HTML blocks/comments, definitions, metadata/YAML at the top) shows every word-bearing line at least as often as written, in all 7 writers; OPML/ITMZ for every document")
    chk.cov["evaluations"] = nconv + acc
    chk.cov["distinct_nontrivial"] = len(edocs)
    chk.cov["rule"] = ("documents = every sequence of <= 2 line spellings (32 spellings covering every realizable line kind), %s sequences of 3, TLC-simulated sequences of 12 lines, "
                       "and the repository corpus; each x 7 writers x 2 modes; lemon traces validated for html" % ("6000 sampled" if tier == "quick" else "all 32768"))
    chk.sample(dict(lines=[table[i - 1]["t"] for i in seqs3[17]])); chk.sample(dict(lines=[table[i - 1]["t"] for i in sim[0]]))
    chk.sample([e for e in ltrace if e["e"] == "feed"][:2])
    # triage
    seen = set()
    for p in problems:
        if p[0] == "model":
            chk.report("model:%s" % p[1], "the block parser's own tables admit a rejected/overflowing line-kind sequence (TLC counterexample over ParserTables): %s" % p[2][-1500:], dict(tlc=p[2]))
        elif p[0] == "writers":
            chk.report("writer-cases:%s" % p[1], "the writers' dispatch tables (case labels extracted from the sources) are inconsistent: %s" % p[2], dict(tlc=p[2]))
        elif p[0] == "lemon":
            seg, idx = p[1], p[2]; ev = seg[idx]
            what = "syntax" if ev["out"] in ("syntax", "fail", "overflow") else "mismatch"
            key = "lemon-%s:%s" % (what, tables["yyTokenName"][ev["tok"]] if ev["tok"] >= 0 else "?")
            if key in seen: continue
            seen.add(key)
            d = tr_docs[ev["doc"]]
            chk.report(key, "Parse call refused by the model: token %s outcome %s rules %s in document %r" % (tables["yyTokenName"][ev["tok"]], ev["out"], ev["rules"], body(d)[:200]),
                       dict(source=body(d).decode("latin-1"), events=seg, refused=idx))
        else:
            k, f = san_signature(p[2].get("san", "")); key = "%s:%s:%s" % (p[2]["status"], k, f)
            if key in seen: continue
            seen.add(key)
            chk.report(key, "process ended while tracing :: %s" % p[2].get("san", "")[:300].replace("\n", " | "), dict(script=p[1][:60]))
    for seg, idx in rejected2:
        ev = seg[idx]
        prev = [x for x in seg[:idx] if x.get("e") == "conv"]
        di = ev["doc"] if ev.get("doc", -1) >= 0 else (prev[-1]["doc"] if prev else -1)
        src = body(edocs[di]) if di >= 0 else b""
        if ev["e"] == "conv":
            kind = "no-result" if ev["null"] else ("escape:" + ",".join(sorted(set(ev["diag"]) & {"unknown_token", "parser_failed", "syntax_error"})) if set(ev["diag"]) & {"unknown_token", "parser_failed", "syntax_error"} else "empty-rendering")
            key = "%s:%s" % (kind, docs.FMTNAME[ev["fmt"]])
            if kind == "empty-rendering" and not (ev["nonblank"] and ev["len"] <= 1) and ev.get("seq"):
                short = sorted(w for w in WORDS if ev["cnt"].get(w, 0) < len([k for k, i in enumerate(ev["seq"]) if table[i - 1]["w"] == w and not (w == "cap" and k + 1 < len(ev["seq"]) and table[ev["seq"][k + 1] - 1]["t"] in ("===", "---"))]))
                key = "dropped-line:%s:%s:%s" % (docs.FMTNAME[ev["fmt"]], "compat" if ev["ext"] & 1 else "mmd", "+".join(short))
        elif ev["e"] == "exit":
            key = "exit-from-library"
        else:
            k, f = san_signature(ev.get("san", "")); key = "%s:%s:%s" % (ev["e"], k, f)
        if key in seen: continue
        seen.add(key)
        chk.report(key, "%s on a document near %r (event %s)" % (key, src[:200], json.dumps({k: v for k, v in ev.items() if k != "san"})[:300]), dict(source=src.decode("latin-1"), event=ev))
    return chk.finish()


def replay(path):
    print(open(path).read()[:3000]); return 0
