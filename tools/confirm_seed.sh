#!/bin/bash
# Confirm a seeded change: in a scratch worktree of /repo (HEAD), (1) demo passes unpatched, (2) patch applies, the repository's
# suite still passes, demo fails.  usage: confirm_seed.sh <seed-dir containing patch.diff and demo.sh>
set -u
D=$(realpath "$1"); WT=$(mktemp -d /tmp/seedwt.XXXXXX); rmdir "$WT"
git -C /repo worktree add -q --detach "$WT" HEAD || exit 2
trap 'git -C /repo worktree remove --force "$WT" >/dev/null 2>&1; rm -rf "$WT"' EXIT
bash "$D/demo.sh" "$WT" >/tmp/seed_demo0.log 2>&1; r0=$?
git -C "$WT" apply "$D/patch.diff" || { echo "PATCH DOES NOT APPLY"; exit 2; }
t=$(/verif/tools/run_repo_tests.sh "$WT" 2>&1 | tail -1)
bash "$D/demo.sh" "$WT" >/tmp/seed_demo1.log 2>&1; r1=$?
echo "demo_unpatched_rc=$r0 tests_patched='$t' demo_patched_rc=$r1"
[ $r0 = 0 ] && [ $r1 != 0 ] && [[ "$t" == "PASSED 345 FAILED 0" ]] && echo CONFIRMED
