"""Byte table of the Hostile.tla generator (indices are 1-based there)."""
def table(n):  # n columns
    return (b"|a" * n + b"|\n" + b"|-" * n + b"|\n" + b"|c" * n + b"|\n")
FRAGS = [
 b"plain text", b"[", b"[[", b"![", b"(", b"{", b"{{", b"{{TOC", b"{++", b"{--", b"{~~a~>", b"{>>", b"{==", b"`", b"``", b"```\ncode", b"<", b"<!--", b"<a href=\"x",
 b"*a", b"**a", b"_a", b"__a", b"***a*", b"$x", b"$$x", b"\\\\(x", b"\\\\[x", b"[^", b"[^a]", b"[#a", b"[?a", b"[>a", b"[%a", b"x^a", b"x~a", b"\"q", b"'q", b"&", b"&#", b"&amp", b"\\", b"\\\n",
 b"![p](p.png width=\"50%\" height=\"3em\")", b"![p](p.png height=2cm width=40%)", b"![p][r] ![q][r]\n\n[r]: p.png width=5em height=3cm class=c", b"![p](p.png width=30px height=3em) ![p](p.png width=3em height=30px)",
 b"![a](b.png width= height=3)", b"![a](b.png \"t\" class=)", b"[l](u \"t\" a=b c=\"d", b"[r]: u \"t\" w= h=\"\"\n\n[x][r]", b"![i][r]\n\n[r]: p.png =", b"[a](<b c> \"t\"", b"<http://a.b/?x=1&y=2", b"<mailto:a@b.c>", b"<a@b.c",
 table(1), table(47), table(48), table(49), table(64), table(200), b"|a|\n|:-:|:-|-:|\n", b"| a || b |\n|---|---|---|\n| c |||\n[cap]", b"a|b\n-|-\n",
 b"a\r\nb\r\n\r\n", b"a\rb\r\r", b"a\n\rb", b"\r", b"\x80", b"\xc3", b"a\xe2\x82", b"\xf0\x9f\x92", b"\xc0\xaf", b"\xff\xfe", b"caf\xc3\xa9 \xc2\xa0x", b"\xe2\x80\x9cq\xe2\x80\x9d",
 b"Title: t\nAuthor:", b"---\nk: v\n---", b"key: v\n   cont", b"[%key]", b"{{f.*}}", b"{{" + b"n" * 1200 + b"}}", b"<div>\n*a*\n</div>", b"<!-- c -->", b"-->", b"&#x41;&#65;&nbsp;",
 b"1. a\n   2. b\n\t* c", b"> > > q", b"term\n: def\n: def2", b"```c\nx\n````", b"~~~\nx", b"# h [lbl]", b"h\n===", b"h\n---", b"###### h ######", b"####### h", b"* * *", b"- - -x",
 b"[a]: b\n[a]: c\n[a][] [a]", b"[^n]: note\n\n[^n][^n]", b"[#c]: cite\n\n[p][#c] [#c;]", b"[?g]: gl\n\n[?g] [?(inline) def]", b"[>ab]: Abbr\n\nab ab [>(cd) Cd] cd", b"x[^inline *note*] y[#inline cite]",
 b"![a](" + b"x" * 1500 + b")", b"[a](" + b"y" * 1100 + b" \"" + b"t" * 1200 + b"\")", b"![i](p.png \"" + b"T" * 2000 + b"\" width=" + b"9" * 300 + b"px)", b"[r]: " + b"u" * 1500 + b" \"t\"\n\n![z][r] [z][r]",
 b"```{=html}", b"```{=latex}\n", b"```{=*}", b"~~~{=odt}\nx", b"`x`{=html} {=latex} y", b"```{=html}\n```",
 b"a  \nb\\\nc", b"*a **b* c**", b"_a*b_c*", b"***", b"* ", b"\t", b"    ", b"\n\n\n", b"",
]
CTX = [b"", b"> ", b"* ", b"    ", b"# ", b"| ", b": ", b"[^n]: ", b"1. ", b"<div> "]
TERM = [b"", b"\n", b"\n\n"]
SEP = b" "
OPML = [
 b'<?xml version="1.0"?><opml version="1.0"><head><title>T</title></head><body><outline text="A" _note="n"/></body></opml>',
 b'<opml><body><outline id="1" text="Title" _note="x"/></body></opml>',
 b'<opml><body><outline _note="first" text="T"><outline text="&gt;&gt;Metadata&lt;&lt;"><outline text="k" _note="v"/></outline></outline></body></opml>',
 b'<opml><body><outline text="a" x="y" _note="&#10;&amp;&lt;"></outline><outline></outline><outline text=""/></body></opml>',
 b'<opml><body><outline text="unterminated', b'<opml><body><outline text=a _note=b></body>', b'<opml><head></head></opml>', b'<opml>', b'', b'not xml at all', b'<outline text="x"/>',
 b'<opml><body><outline t="1" te="2" tex="3" text="4" _n="5" _note="6"/></body></opml>', b'<opml><body><outline text="' + b'x' * 3000 + b'" _note="' + b'y' * 5000 + b'"/></body></opml>',
 b'<opml><body>' + b'<outline text="d">' * 40 + b'</outline>' * 40 + b'</body></opml>', b'<opml><body><outline text="&gt;&gt;Preamble&lt;&lt;" _note="p"/><outline text="&gt;&gt;Metadata&lt;&lt;"/></body></opml>',
 b'<opml><body><outline text="a&b" _note="c<d"/></body></opml>', b"<opml><body><outline text='single' _note='q'/></body></opml>",
]


def scale_docs():
    """size boundaries: every definition kind / container in numbers that make the library's growing tables (stacks, search tries, label hashes) grow several times"""
    out = []
    for n in (40, 140, 300, 1100):
        r = range(n)
        out.append(("abbr%d" % n, "".join("[>abbrev%03d]: expansion %d\n" % (i, i) for i in r) + "\n" + " ".join("abbrev%03d" % i for i in r) + " end\n"))
        out.append(("gloss%d" % n, "".join("[?term%03d]: definition %d\n" % (i, i) for i in r) + "\n" + " ".join("[?term%03d]" % i for i in r) + " term%03d\n" % (n // 2)))
        out.append(("note%d" % n, " ".join("w[^f%d]" % i for i in r) + "\n\n" + "".join("[^f%d]: note %d\n" % (i, i) for i in r)))
        out.append(("cite%d" % n, " ".join("[p. %d][#c%d]" % (i, i) for i in r) + "\n\n" + "".join("[#c%d]: reference %d\n" % (i, i) for i in r)))
        out.append(("link%d" % n, " ".join("[t%d][l%d] ![i][l%d]" % (i, i, i) for i in r) + "\n\n" + "".join("[l%d]: http://x.y/%d \"t\" width=%dpx\n" % (i, i, i) for i in r)))
        out.append(("head%d" % n, "{{TOC}}\n\n" + "".join("%s h%d\n\ntext [h%d][]\n\n" % ("#" * (1 + i % 6), i, (i * 7) % n) for i in r)))
        out.append(("meta%d" % n, "".join("key%d: value [%%key%d]\n" % (i, (i * 3) % n) for i in r) + "\nbody [%%key1] [%%key%d]\n" % (n - 1)))
    # every note kind called from a heading (headings are rendered again for tables of contents and EPUB navigation)
    out.append(("headnotes", "# H [?g] [>ab] ab x[^f] y[#c] [?(t) inl] [>(cd) Cd] z[^inline]\n\n{{TOC}}\n\n## Two [?g] ab\n\ntext [?g] [>ab]\n\n[?g]: gl\n[>ab]: abbr\n[^f]: fn\n[#c]: cite\n"))
    # more notes of one kind than a 16-bit counter holds
    out.append(("fn33k", "[^a]a" * 33000 + "\n"))
    out.append(("gloss33k", " ".join("[?(t%d) d]" % i for i in range(33000)) + "\n"))
    out.append(("abbr33k", " ".join("[>(a%d) x]" % i for i in range(33000)) + "\n"))
    out.append(("cite33k", " ".join("[p. 1][#c%d]" % (i % 50) for i in range(33000)) + "\n\n" + "".join("[#c%d]: ref\n" % i for i in range(50))))
    out.append(("longabbr", "[>" + "a" * 300 + "]: x\n[>" + "b" * 255 + "]: y\n[>" + "c" * 256 + "]: z\n\n" + "a" * 300 + " " + "b" * 255 + " " + "c" * 256 + "\n"))
    out.append(("inlineabbr", " ".join("[>(ab%d) Abbr %d]" % (i, i) for i in range(300)) + " ab7 ab299\n"))
    out.append(("table", "|" + "c|" * 300 + "\n|" + "-|" * 300 + "\n" + ("|" + "x|" * 300 + "\n") * 30))
    return [(k, v.encode()) for k, v in out]
