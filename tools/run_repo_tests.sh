#!/bin/bash
# Build <tree>/src out of tree (plain cc, guard OFF) and run the repository's own
# integration suite (tests/MarkdownTest.pl, the nine ctest groups that form the 345-test baseline).
# usage: run_repo_tests.sh <tree> [builddir]
# exit 0 iff every sub-test passes. Prints "PASSED n FAILED m".
set -u
TREE=${1:-/repo}
BD=${2:-$(mktemp -d /tmp/mmdtests.XXXXXX)}
mkdir -p "$BD"
if [ -f "$TREE/_build/version.h" ]; then cp "$TREE/_build/version.h" "$BD/version.h"; else
sed -e 's/@My_Project_Title_Caps@/LIBMULTIMARKDOWN/g' -e 's/@My_Project_Version@/6.7.0/g' -e 's/@[A-Za-z_]*@/x/g' "$TREE/templates/version.h.in" > "$BD/version.h"; fi
SRCS=$(ls "$TREE"/src/*.c | grep -v char_lookup.c)
( cd "$BD" && printf '%s\n' $SRCS | xargs -P 16 -I{} sh -c 'cc -O1 -DNDEBUG -w -Wno-cpp -I"$0" -I"$1/src" -c {} -o "$0/$(basename {} .c).o"' "$BD" "$TREE" ) 2>/dev/null || { echo "BUILD FAILED"; exit 2; }
cc -o "$BD/multimarkdown" "$BD"/*.o -lm -lpthread 2>"$BD/link.log" || cc -o "$BD/multimarkdown" "$BD"/*.o -lm -lpthread -lcurl 2>>"$BD/link.log" || { cat "$BD/link.log"; echo "LINK FAILED"; exit 2; }
pass=0; fail=0
run() { # name flags folder ext
  out=$(cd "$TREE/tests" && perl ./MarkdownTest.pl --Script="$BD/multimarkdown" --testdir="$TREE/tests/$3" "--Flags=$2" --ext=$4 2>&1)
  p=$(echo "$out" | grep -c '\.\.\. OK'); f=$(echo "$out" | grep -c 'FAILED')
  pass=$((pass+p)); fail=$((fail+f))
  if [ "$f" != 0 ]; then echo "[$1]"; echo "$out" | grep FAILED; fi
}
run mmd-6 "" MMD6Tests html
run mmd-6-compat "-c" MMD6Tests htmlc
run mmd-6-latex "-t latex" MMD6Tests tex
run mmd-6-beamer "-t beamer" Beamer tex
run mmd-6-memoir "-t memoir" Memoir tex
run mmd-6-fodt "-t fodt" MMD6Tests fodt
run mmd-6-opml "-t opml" MMD6Tests opml
run mmd-6-critic-accept "-a" CriticMarkup htmla
run mmd-6-critic-reject "-r" CriticMarkup htmlr
echo "PASSED $pass FAILED $fail"
[ "${KEEP_BUILD:-0}" = 1 ] || rm -rf "$BD"
[ "$fail" = 0 ] && [ "$pass" -ge 345 ]
