#!/bin/bash
# Run a property's check against a seeded change: apply to /repo, run, undo.  usage: seedrun.sh <seed-dir> <ID> [tier]
D=$(realpath "$1"); ID=$2; TIER=${3:-quick}
git -C /repo apply "$D/patch.diff" || exit 2
( cd /verif && tools/vcheck $ID --tier $TIER ) ; rc=$?
git -C /repo checkout -- .
echo "check_rc=$rc"
