#!/bin/bash
# run every registered check (tier $1, default quick) on /repo as it is; summary line per property
TIER=${1:-quick}; cd /verif
for id in $(python3 -c "import json;print(' '.join(c['property_id'] for c in json.load(open('MANIFEST.json'))['checks']))"); do
  s=$(date +%s); out=$(tools/vcheck $id --tier $TIER 2>&1); rc=$?; e=$(date +%s)
  echo "$id rc=$rc $((e-s))s known=$(echo "$out" | grep -c '^KNOWN-FINDING') viol=$(echo "$out" | grep -c '^VIOLATION') $(echo "$out" | grep -m1 'FRAMEWORK-ERROR' | cut -c1-200)"
done
