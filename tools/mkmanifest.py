#!/usr/bin/env python3
"""Regenerates MANIFEST.json from the table below (one source of truth for claims)."""
import json, os
V = os.path.dirname(os.path.dirname(os.path.abspath(__file__)))
CHECKS = {
 "C19": dict(cat="model_checking", tech="TLA+ ideal-string model (DString.tla) model-checked with TLC; TLC-generated operation histories replayed on d_string.c (ASan/UBSan); every recorded post-state validated by TLC against the model (DStringTrace.tla)",
             text="The ideal string model and the capacity-growth design are model-checked exhaustively (small StartCap). At the code's real scale TLC enumerates every 1-operation history over boundary arguments and simulates longer ones; each is executed on the real d_string.c and every recorded post-state (content, length, strlen, NUL, capacity, allocation) must be the model's next state.",
             note="Bounded: histories of 1 (quick) / 2 (thorough) operations exhaustively, random histories of 5-9 beyond; payload alphabet fixed by the spec; preconditions listed in the evidence file. Trusted: TLC, clang sanitizers.", ref="5/C19"),
}
NOT_APPLICABLE = {}
def main():
    props = [json.loads(l) for l in open(os.path.join(V, "properties.jsonl"))]
    checks = []
    for p in props:
        i = p["id"]
        if i in CHECKS:
            c = CHECKS[i]
            checks.append(dict(property_id=i, quick_cmd="tools/vcheck %s --tier quick" % i, thorough_cmd="tools/vcheck %s --tier thorough" % i,
                               evidence_file="/verif/evidence/%s.json" % i, replay_cmd_template="tools/vcheck %s --replay {path}" % i, engine="vcheck",
                               level_claimed=dict(category=c["cat"], text=c["text"], design_ref="DESIGN.md section " + c["ref"]), level_note=c["note"], technique=c["tech"]))
    na = [dict(property_id=p["id"], reason=NOT_APPLICABLE.get(p["id"], "check not built yet in this round; planned, see DESIGN.md section 5")) for p in props if p["id"] not in CHECKS]
    m = dict(version=1, setup_cmd="tools/vcheck --setup",
             hooks=dict(guard="MMD6_VERIF", enable="-DMMD6_VERIF, out-of-tree clang builds of /repo/src by tools/build.py (variants asan, nopool, trace, tsan, plain, cli)",
                        baseline_off_cmd="tools/run_repo_tests.sh /repo", source_commits=[], add_only=True),
             engines=[dict(name="vcheck", path="tools/vcheck", serves_properties=sorted(CHECKS), kind_free_text="TLC model checking + TLC-generated behaviours replayed on the real code + TLC trace validation")],
             checks=checks, not_applicable=na,
             notes="Specifications in spec/, code-derived TLA+ modules from specgen/, replay harness in harness/. Exit codes: 0 held, 1 VIOLATION, 3 framework error.")
    open(os.path.join(V, "MANIFEST.json"), "w").write(json.dumps(m, indent=1) + "\n")
main()
