#!/usr/bin/env python3
"""Regenerates MANIFEST.json from the table below (one source of truth for claims)."""
import json, os
V = os.path.dirname(os.path.dirname(os.path.abspath(__file__)))
CHECKS = {
 "C19": dict(cat="model_checking", tech="TLA+ ideal-string model (DString.tla) model-checked with TLC; TLC-generated operation histories replayed on d_string.c (ASan/UBSan); every recorded post-state validated by TLC against the model (DStringTrace.tla)",
             text="The ideal string model and the capacity-growth design are model-checked exhaustively (small StartCap). At the code's real scale TLC enumerates every 1-operation history over boundary arguments and simulates longer ones; each is executed on the real d_string.c and every recorded post-state (content, length, strlen, NUL, capacity, allocation) must be the model's next state.",
             note="Bounded: histories of 1 (quick) / 2 (thorough) operations exhaustively, random histories of 5-9 beyond; payload alphabet fixed by the spec; preconditions listed in the evidence file. Trusted: TLC, clang sanitizers.", ref="5/C19"),
 "C05": dict(cat="model_checking", tech="TLA+ Session specification (conversion results are a function of the key) model-checked with TLC incl. defect flags; TLC-generated call histories replayed on the library; recorded traces validated by TLC (SessionTrace.tla) against fresh-process reference executions",
             text="Session.tla models the process state the code has (global generator, engine stacks) and TLC checks HistoryIndependent over all histories of the small model, exhibiting the violation for each defect flag. TLC enumerates all 2-step (thorough 3-step) histories over a document pool x option sets x entry-point families x a reusable engine and simulates 12-step ones; plus random reused-engine walks over the repository corpus. Every key is first converted in a process of its own; SessionTrace accepts a trace only if every later conversion with the same key returns the same digest and leaves the caller's buffer unchanged.",
             note="Bounded histories and a finite pool of documents/options; digest = FNV-1a-64 of returned bytes; ASan build with pool on.", ref="5/C05"),
 "C18": dict(cat="model_checking", tech="TLA+ TokenPool specification model-checked exhaustively (TLC, SlabSize 2, histories <= 10/12) with defect flags; TLC-generated well-bracketed histories replayed on token.c/object_pool.c under ASan with link-time interposition of pool_allocate_object; trace validated by TLC (TokenPoolTrace.tla, SlabSize 1024)",
             text="All histories of the pool protocol up to 10 (12) actions are model-checked for NoDangling, ReleasedAtOutermostDrain, CleanStart, CleanAfterFree, CounterAgrees. Every BFS history of 6 (7) actions and simulated 24-action histories, with documents sized by dry run to land on the 1024-object slab boundary and to span up to 18 slabs, are executed on the real pool; after every call the pool's slab count and next pointer, allocation counts, tree walks of held trees and result digests must be what the model predicts.",
             note="Environment discipline (well-bracketed) is part of the spec; harness plays main.c's role. Trusted: --wrap interposition, ASan.", ref="5/C18"),
 "C06": dict(cat="model_checking", tech="TLA+ Session specification (no entry-point family in the key) + TLC trace validation (SessionTrace.tla) of recorded conversions through 9 API families and 4 CLI modes; packaged outputs projected member-wise",
             text="Every case (document x format x extension set) is executed through the C-string, DString and engine variants of convert / convert_to_data / convert_to_file in the ASan harness and through the sanitized command line tool (stdin, file argument, -o, -b). SessionTrace accepts the trace only if every family returns/writes a result and all families that the property relates produce the same digest as the first one; metadata has/keys/value triplets are validated the same way.",
             note="Design-level part is the model-checked Session spec; the code-level part is bounded by the document pool (hand-picked + corpus sample) x 10 formats x 3-6 extension sets. Packages compared member-wise with uuids/timestamps masked (python zipfile).", ref="5/C06"),
 "C02": dict(cat="model_checking", tech="TLA+ model of the lemon driver (LemonParser.tla) over action tables extracted from the parser source at check time, explored exhaustively by TLC; lemon's own ParseTrace output of real conversions validated step by step against the model (LemonParserTrace.tla); writers' case labels extracted into WriterCases.tla and checked for mutual consistency; end-to-end escapes monitored by CompleteTrace.tla",
             text="Parser half: complete - TLC explores every reachable parser stack (about 7k with symbols) x every realizable line kind over the code's own tables: no syntax error, failure or stack overflow, end of input accepted, for documents of any length. The model is bound to the code by validating every recorded Parse() call (nested parser instances too) of generated line sequences and the corpus against it. Writer half: bounded - every sequence of <=2 (sampled/all 3) line spellings, simulated 12-line documents and the corpus x 7 writers x 2 modes must return a rendering without exit(), 'unknown token', 'parser failed' or 'syntax error'; plus a static consistency check of the writers' dispatch tables.",
             note="Alphabet assumption (three pseudo line kinds never produced) is re-checked on every trace. Inline token kinds are covered by corpus + spellings only.", ref="5/C02"),
 "C15": dict(cat="model_checking", tech="TLA+ tree invariant (TreeInv.tla) evaluated by TLC on dumps of the real token tree after parse, sub-range parse and every export; enum relations (TokenEnum.tla over constants generated from the headers) checked by TLC",
             text="The invariant (finite tree, root spans the parsed range, spans inside the source, next/prev symmetric, sibling starts non-decreasing, mates symmetric) lives in TLA+; the harness only serialises pointers as node numbers. TLC evaluates it on every dump: corpus and pool documents x 4-9 extension sets x 4-7 formats plus TLC-generated line sequences, after parse, after each export and after three sub-range parses. The compile-time relations between the published enum and the library's tables are TLC invariants over a module generated from the headers.",
             note="Bounded by the inputs explored (monitor, not a proof); one known finding (inline abbreviation/glossary definitions) is listed in KNOWN_FINDINGS.txt by cause signature.", ref="5/C15"),
}
NOT_APPLICABLE = {}
def main():
    props = [json.loads(l) for l in open(os.path.join(V, "properties.jsonl"))]
    checks = []
    for p in props:
        i = p["id"]
        if i in CHECKS:
            c = CHECKS[i]
            checks.append(dict(property_id=i, quick_cmd="tools/vcheck %s --tier quick" % i, thorough_cmd="tools/vcheck %s --tier thorough" % i,
                               evidence_file="/verif/evidence/%s.json" % i, replay_cmd_template="tools/vcheck %s --replay {path}" % i, engine="vcheck",
                               level_claimed=dict(category=c["cat"], text=c["text"], design_ref="DESIGN.md section " + c["ref"]), level_note=c["note"], technique=c["tech"]))
    na = [dict(property_id=p["id"], reason=NOT_APPLICABLE.get(p["id"], "check not built yet in this round; planned, see DESIGN.md section 5")) for p in props if p["id"] not in CHECKS]
    m = dict(version=1, setup_cmd="tools/vcheck --setup",
             hooks=dict(guard="MMD6_VERIF", enable="-DMMD6_VERIF, out-of-tree clang builds of /repo/src by tools/build.py (variants asan, nopool, trace, tsan, plain, cli)",
                        baseline_off_cmd="tools/run_repo_tests.sh /repo", source_commits=[], add_only=True),
             engines=[dict(name="vcheck", path="tools/vcheck", serves_properties=sorted(CHECKS), kind_free_text="TLC model checking + TLC-generated behaviours replayed on the real code + TLC trace validation")],
             checks=checks, not_applicable=na,
             notes="Specifications in spec/, code-derived TLA+ modules from specgen/, replay harness in harness/. Exit codes: 0 held, 1 VIOLATION, 3 framework error.")
    open(os.path.join(V, "MANIFEST.json"), "w").write(json.dumps(m, indent=1) + "\n")
main()
