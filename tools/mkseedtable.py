#!/usr/bin/env python3
"""rewrite the seed table of DESIGN.md (between the SEEDTABLE markers) from seeded/*/meta.json"""
import json, os, re
VERIF = os.path.dirname(os.path.dirname(os.path.abspath(__file__)))
rows = ["| seed | round | files changed | quick check of its property | first signature reported |", "|---|---|---|---|---|"]
n = {"caught": 0, "MISSED": 0, "other": 0}
for s in sorted(os.listdir(os.path.join(VERIF, "seeded"))):
    mp = os.path.join(VERIF, "seeded", s, "meta.json")
    if not os.path.exists(mp): continue
    m = json.load(open(mp))
    res = m.get("result", "?")
    n["caught" if res == "caught" else ("MISSED" if res == "MISSED" else "other")] += 1
    sig = (m.get("first_signature", "") or "").replace("|", "/").replace("\n", " ")[:110]
    rows.append("| %s | %s | %s | %s | %s |" % (s, m.get("round", 1), ", ".join(m.get("files", [])), res.split(":")[0], sig))
p = os.path.join(VERIF, "DESIGN.md"); t = open(p).read()
a = t.index("<!-- SEEDTABLE BEGIN -->"); b = t.index("<!-- SEEDTABLE END -->")
t = t[:a] + "<!-- SEEDTABLE BEGIN -->\n" + "\n".join(rows) + "\n\n%d seeds: %d caught, %d missed, %d obsolete/other.\n" % (sum(n.values()), n["caught"], n["MISSED"], n["other"]) + t[b:]
open(p, "w").write(t)
print(n)
