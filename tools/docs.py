"""Document pools shared by the checks (hand-picked to exercise stateful machinery) + the repository corpus."""
import glob, os
REPO = os.environ.get("MMD6_REPO", "/repo")

EXT = dict(COMPAT=1, COMPLETE=2, SNIPPET=4, SMART=8, NOTES=16, NO_LABELS=32, PROCESS_HTML=64, NO_METADATA=128, OBFUSCATE=256,
           CRITIC=512, CRITIC_ACCEPT=1024, CRITIC_REJECT=2048, RANDOM_FOOT=4096, TRANSCLUDE=8192, PARSE_OPML=16384, PARSE_ITMZ=32768,
           RANDOM_LABELS=65536)
STD = EXT["SMART"] | EXT["NOTES"] | EXT["CRITIC"]          # the command line's defaults, minus transclusion
COMPAT = EXT["COMPAT"] | EXT["NO_LABELS"] | EXT["OBFUSCATE"] | EXT["NO_METADATA"]
FMT = dict(html=0, epub=1, latex=2, beamer=3, memoir=4, fodt=5, odt=6, textbundle=7, bundlezip=8, opml=9, itmz=10, mmd=11, htmlassets=12)
FMTNAME = {v: k for k, v in FMT.items()}
LANG = dict(en=0, es=1, de=2, fr=3, nl=4, sv=5, he=6)
TEXTUAL = ["html", "latex", "beamer", "memoir", "fodt", "opml"]

POOL = {
 "mail": "Write to <mailto:joe@example.com> or <jane@example.org>.\n\nSecond *para* with \"quotes\".\n",
 "notes": "# Title #\n\nText with a footnote[^a] and another[^b], cite [#k] and again[^a].\n\n[^a]: First *note*.\n\n[^b]: Second note.\n\n[#k]: Knuth. TAOCP.\n\n## Sub [custom] ##\n\nSee [Title][] and [custom].\n",
 "meta_de": "Title: Ein Titel\nLanguage: de\nAuthor: Jemand\n\n# Kopf #\n\n\"Zitat\" mit 'Apostroph' -- und Fussnote[^x].\n\n[^x]: Die Note.\n",
 "quotes": "He said \"hello\" -- it's 'fine'... really.[^q]\n\n[^q]: Note \"text\".\n",
 "tables": "| a | b |\n|:--|--:|\n| 1 | 2 |\n[Caption][tbl]\n\n*[HTML]: Hyper Text\n\nHTML is used. See [tbl].\n\n[?term]: A glossary entry.\n\nUse [?term] here.\n",
 "critic": "This {++is ++}a test{-- not--} of {~~old~>new~~} marks{>>note<<} and {==hi==}.\n\n* item one\n* item two\n\n    code block\n",
 "rawfilter": "Raw `<b>bold</b>`{=html} and `\\textbf{x}`{=latex} plus x^2^ and H~2~O.\n\n```{=html}\n<div>raw</div>\n```\n",
 "toc": "{{TOC}}\n\n# One #\n\n## Two ##\n\nText.\n\n# Three #\n\n[One][] [Two][]\n",
 "lists": "1. one\n2. two\n\n   para in two\n\n* a\n* b\n\n> quote\n> more\n\nTerm\n: Definition\n\n```\nfenced\n```\n",
 "assets": "css: style.css\n\n![one *1*](img.png \"Title\" width=40px) text ![two](b.png) and ![three](c.png)\n\n![fig][ref]\n\n[ref]: pic.jpg \"T\" class=x\n",
 "images": "![alt *text*](img.png \"Title\" width=40px)\n\n![fig][ref]\n\n[ref]: pic.jpg \"T\" class=x\n\n[link](http://a.b/?x=1&y=2) <http://auto.link>\n",
 "plain": "Just a paragraph.\n",
 "math": "Inline \\\\(x^2\\\\) and $y_1$ and\n\n\\\\[ E=mc^2 \\\\]\n\n$$z$$\n",
}


def corpus(kind="MMD6Tests"):
    out = {}
    for f in sorted(glob.glob(os.path.join(REPO, "tests", kind, "*.text"))):
        name = os.path.basename(f)[:-5]
        out[name] = open(f, "rb").read()
    return out


DELIMS = ["`", "``", "\'\'", "\'", "\"", "*", "**", "_", "[", "]", "(", ")", "<", ">", "$", "$$", "^", "~", "{++", "++}", "{--", "--}", "\\\\(", "[^", "[#", "<<", ">>"]


def delimiter_soup():
    """every ordered pair of inline delimiters in three shapes: the pairing passes meet every delimiter inside every other -> [(shape index, a, b, text)]"""
    out = []
    for a in DELIMS:
        for b in DELIMS:
            for k, d in enumerate(("%s x = %s end" % (a, b), "%sx = %s %s" % (a, b, a), "%s%s%s y" % (a, b, a))):
                out.append((k, a, b, d + "\n"))
    return out
