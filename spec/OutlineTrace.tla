---------------------------- MODULE OutlineTrace ----------------------------
EXTENDS Outline, IOUtils
Tr == ndJsonDeserialize(IOEnv.TRACE)
VARIABLE l
TInit == l = 1 /\ doc = [m |-> 1, p |-> 1, secs |-> <<>>]
\* (KNOWN_FINDINGS.txt, C14) named deviation: a Setext heading whose title ends in '#' comes back as an ATX heading with closing hashes, which the
\* writers render with a blank before them -- every event that takes this way out is reported by the check
SetextHashTitle(d) == \E i \in 1 .. Len(d.secs) : d.secs[i].t \in HashEnd /\ d.secs[i].style = "setext"
TNext == /\ l <= Len(Tr) /\ l' = l + 1 /\ UNCHANGED doc
         /\ LET r == Tr[l] IN
            IF r.e = "reset" THEN TRUE
            ELSE /\ r.e = "outline"
                 /\ r.src = Src(r.doc)
                 /\ r.wellformed                                           \* the OPML parses
                 /\ r.items = Expected(r.doc)                              \* every heading one item, nested by level, note = source verbatim
                 /\ ~r.rt_null
                 /\ (Proper(r.doc) => (r.html_rt = r.html_src \/ SetextHashTitle(r.doc)))      \* re-import renders identically
TraceAccepted == TLCGet("stats").diameter = Len(Tr) + 1
=============================================================================
