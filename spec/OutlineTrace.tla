---------------------------- MODULE OutlineTrace ----------------------------
EXTENDS Outline, IOUtils
Tr == ndJsonDeserialize(IOEnv.TRACE)
VARIABLE l
TInit == l = 1 /\ doc = [m |-> 1, p |-> 1, secs |-> <<>>]
TNext == /\ l <= Len(Tr) /\ l' = l + 1 /\ UNCHANGED doc
         /\ LET r == Tr[l] IN
            IF r.e = "reset" THEN TRUE
            ELSE /\ r.e = "outline"
                 /\ r.src = Src(r.doc)
                 /\ r.wellformed                                           \* the OPML parses
                 /\ r.items = Expected(r.doc)                              \* every heading one item, nested by level, note = source verbatim
                 /\ ~r.rt_null
                 /\ (Proper(r.doc) => r.html_rt = r.html_src)              \* re-import renders identically
TraceAccepted == TLCGet("stats").diameter = Len(Tr) + 1
=============================================================================
