CONSTANTS MaxLen = 1
          Thr = 1000
          Sim = FALSE
          Table <- SynTable
INIT TInit
NEXT TNext
POSTCONDITION TraceAccepted
CHECK_DEADLOCK FALSE
