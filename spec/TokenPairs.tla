----------------------------- MODULE TokenPairs -----------------------------
(* Property C15 (mates symmetric, tree well formed) and the pairing half of C03/C12: the pairing engine of        *)
(* token_pairs.c, token_pairs_match_pairs_inside_token(), transcribed statement by statement for one chain level.   *)
(* A chain is a sequence of tokens [ty, len, adj, co, cc]: type, length, "the next token starts where this one      *)
(* ends", can_open, can_close (the lexer's / ambidexterity pass's decisions are inputs here).  The engine walks     *)
(* the chain once; per token first the closer phase (search the shared stack downwards for an admissible opener,    *)
(* with the large-stack shortcut), then the opener phase (push).  One action = one token, as in the code's loop.    *)
(* TLC explores every chain of <= MaxLen tokens over an alphabet that has every option combination of the real      *)
(* tables (ALLOW_EMPTY, MATCH_LENGTH, PRUNE_MATCH, an opener shared by two closers, ambidextrous types).            *)
EXTENDS Integers, Sequences, FiniteSets, TLC, Json
CONSTANTS Table,       \* the engine's pairing registrations (cfg: Table <- SynTable, or a real engine's)
          MaxLen,      \* chains of 1 .. MaxLen tokens
          Thr,         \* kLargeStackThreshold (1000 in token_pairs.h; 0 in the exhaustive configuration so that the shortcut is always taken)
          Sim

\* ---- the pairing table -----------------------------------------------------------------------------------------------------
\* Table: what token_pair_engine_add_pairing() was called with, in order: <<opener type, closer type, pair type, options>> (options: 1 = ALLOW_EMPTY,
\* 2 = MATCH_LENGTH, 4 = PRUNE_MATCH).  Types: the token types the table mentions plus Plain, a type it does not mention.
\* The synthetic table below has every option combination; TokenPairsReal substitutes the tables of a real engine (extracted from the running library).
TA == 11  Ta == 12  Tb == 13  Tq == 14  TS == 15  Tx == 16          \* A opener; a, b closers of A; q, S ambidextrous; x plain
SynTable == << <<TA, Ta, 21, 5>>, <<TA, Tb, 22, 4>>, <<Tq, Tq, 23, 6>>, <<TS, TS, 24, 0>> >>
Bit(n, b) == (n \div b) % 2 = 1
\* e->pair_type[o][c]: the last registration wins; the option flags of a pair type are sticky (set by any registration that carries them)
PairType(o, c) == LET hits == {i \in 1 .. Len(Table) : Table[i][1] = o /\ Table[i][2] = c} IN
                  IF hits = {} THEN 0 ELSE Table[CHOOSE i \in hits : \A k \in hits : k <= i][3]
EmptyAllowed(p) == \E i \in 1 .. Len(Table) : Table[i][3] = p /\ Bit(Table[i][4], 1)
MatchLen(p) == \E i \in 1 .. Len(Table) : Table[i][3] = p /\ Bit(Table[i][4], 2)
ShouldPrune(p) == \E i \in 1 .. Len(Table) : Table[i][3] = p /\ Bit(Table[i][4], 4)
CanOpenPair(t) == \E i \in 1 .. Len(Table) : Table[i][1] = t
CanClosePair(t) == \E i \in 1 .. Len(Table) : Table[i][2] = t
Openers == {Table[i][1] : i \in 1 .. Len(Table)}
Closers == {Table[i][2] : i \in 1 .. Len(Table)}
Plain == 16
Types == Openers \cup Closers \cup {Plain}
\* types for which the length matters (some MATCH_LENGTH pair involves them) come in two lengths
LenMatters(t) == \E i \in 1 .. Len(Table) : (Table[i][1] = t \/ Table[i][2] = t) /\ MatchLen(Table[i][3])
Tok(ty, len, adj, co, cc) == [ty |-> ty, len |-> len, adj |-> adj, co |-> co, cc |-> cc]
FlagsOf(t) == IF t \in Openers /\ t \in Closers THEN {<<TRUE, TRUE>>, <<TRUE, FALSE>>, <<FALSE, TRUE>>}
              ELSE IF t \in Openers THEN {<<TRUE, FALSE>>} ELSE IF t \in Closers THEN {<<FALSE, TRUE>>} ELSE {<<FALSE, FALSE>>}
TokVariants == UNION {{Tok(t, l, a, f[1], f[2]) : l \in (IF LenMatters(t) THEN {1, 2} ELSE {1}), a \in (IF t = Plain THEN {TRUE} ELSE BOOLEAN), f \in FlagsOf(t)} : t \in Types}

\* ---- state of one run ---------------------------------------------------------------------------------------------------
\* toks: the chain; p: index of the token the walker is at; st: the stack (indices of pushed openers, oldest first);
\* cnt: opener_count per type; mate: the matching so far (0 = unmatched); conts: the pruned pairs <<opener, closer, pair type>>
VARIABLES toks, p, st, cnt, mate, conts
vars == <<toks, p, st, cnt, mate, conts>>
ZeroCnt == [t \in Types |-> 0]

\* the closer phase for token j on state s = [st, cnt, mate, conts]; returns the new state
RECURSIVE Search(_, _, _, _)
\* i: current stack index being examined (the code's i, counting down to start_counter = 0)
Search(ts, s, j, i) ==
  IF i = 0 THEN s
  ELSE LET pk == s.st[i]  pt == PairType(ts[pk].ty, ts[j].ty) IN
       IF pt = 0 THEN Search(ts, s, j, i - 1)
       ELSE IF ~EmptyAllowed(pt) /\ pk + 1 = j /\ ts[pk].adj THEN s                 \* consecutive tokens: "we can't use this token as a closer" (i = start_counter)
       ELSE IF MatchLen(pt) /\ ts[pk].len # ts[j].len THEN Search(ts, s, j, i - 1)
       ELSE \* mate, clear the stack down to and including the opener, prune
            LET popped == SubSeq(s.st, i, Len(s.st))
                cnt2 == [t \in Types |-> s.cnt[t] - Cardinality({q \in 1 .. Len(popped) : ts[popped[q]].ty = t})] IN
            [st |-> SubSeq(s.st, 1, i - 1), cnt |-> cnt2,
             mate |-> [s.mate EXCEPT ![pk] = j, ![j] = pk],
             conts |-> IF ShouldPrune(pt) THEN s.conts \cup {<<pk, j, pt>>} ELSE s.conts,
             pruned |-> ShouldPrune(pt)]
CloserPhase(ts, s, j) ==
  IF ~(ts[j].cc /\ CanClosePair(ts[j].ty) /\ s.mate[j] = 0) THEN s
  ELSE IF Len(s.st) > Thr /\ ~(\E t \in Types : s.cnt[t] > 0 /\ PairType(t, ts[j].ty) # 0) THEN s        \* the large-stack shortcut: "no opener available for this as closer"
  ELSE Search(ts, s, j, Len(s.st))
\* after a prune the walker stands on the container, which cannot open; otherwise the opener phase looks at the token itself
OpenerPhase(ts, s, j) ==
  IF ~s.pruned /\ ts[j].co /\ CanOpenPair(ts[j].ty) /\ s.mate[j] = 0
  THEN [s EXCEPT !.st = Append(@, j), !.cnt[ts[j].ty] = @ + 1] ELSE s
StepTok(ts, s, j) == OpenerPhase(ts, CloserPhase(ts, [s EXCEPT !.pruned = FALSE], j), j)
S0(ts) == [st |-> <<>>, cnt |-> ZeroCnt, mate |-> [i \in 1 .. Len(ts) |-> 0], conts |-> {}, pruned |-> FALSE]
RECURSIVE RunFrom(_, _, _)
RunFrom(ts, s, j) == IF j > Len(ts) THEN s ELSE RunFrom(ts, StepTok(ts, s, j), j + 1)
Run(ts) == RunFrom(ts, S0(ts), 1)
Depth(ts, r, i) == Cardinality({c \in r.conts : c[1] <= i /\ i <= c[2]})

\* ---- the transition system: one token per step -----------------------------------------------------------------------------
Pick(S) == IF Sim THEN {RandomElement(S)} ELSE S
SeqsOf(n) == [1 .. n -> TokVariants]
Init == /\ \E n \in Pick(1 .. MaxLen) : toks \in (IF Sim THEN {[i \in 1 .. n |-> RandomElement(TokVariants)]} ELSE SeqsOf(n))
        /\ p = 1 /\ st = <<>> /\ cnt = ZeroCnt /\ mate = [i \in 1 .. Len(toks) |-> 0] /\ conts = {}
Process == /\ p <= Len(toks)
           /\ LET s == StepTok(toks, [st |-> st, cnt |-> cnt, mate |-> mate, conts |-> conts, pruned |-> FALSE], p) IN
              st' = s.st /\ cnt' = s.cnt /\ mate' = s.mate /\ conts' = s.conts
           /\ p' = p + 1 /\ UNCHANGED toks
Next == Process
Done == p > Len(toks)

\* ---- invariants ---------------------------------------------------------------------------------------------------------------
\* what the shortcut relies on: the counters are the census of the stack
CountAgrees == \A t \in Types : cnt[t] = Cardinality({q \in 1 .. Len(st) : toks[st[q]].ty = t})
\* the stack holds unmatched openers, oldest first, all behind the walker
StackOK == /\ \A q \in 1 .. Len(st) : st[q] < p /\ mate[st[q]] = 0 /\ toks[st[q]].co
           /\ \A q \in 1 .. (Len(st) - 1) : st[q] < st[q + 1]
MateSym == \A i \in 1 .. Len(toks) : mate[i] # 0 => mate[mate[i]] = i /\ mate[i] # i
Admissible == \A i \in 1 .. Len(toks) : (mate[i] > i) =>
                 LET j == mate[i] pt == PairType(toks[i].ty, toks[j].ty) IN
                 /\ pt # 0 /\ toks[i].co /\ toks[j].cc
                 /\ (MatchLen(pt) => toks[i].len = toks[j].len)
                 /\ (~EmptyAllowed(pt) => ~(j = i + 1 /\ toks[i].adj))
\* pairs never cross (so the pruned pairs form a tree)
WellNested == \A a, c \in 1 .. Len(toks) : (mate[a] > a /\ mate[c] > c /\ a < c /\ c < mate[a]) => mate[c] < mate[a]
\* nothing is overlooked.  Opener i was in sight of closer j when j was examined: unmatched at that time (never, or only later), and not
\* swallowed by a pair that closed between them.
InSight(i, j) == /\ i < j /\ (mate[i] = 0 \/ mate[i] >= j) /\ toks[i].co /\ CanOpenPair(toks[i].ty) /\ PairType(toks[i].ty, toks[j].ty) # 0
                 /\ ~\E a \in 1 .. Len(toks) : mate[a] > a /\ a < i /\ i < mate[a] /\ mate[a] < j
Usable(i, j) == LET pt == PairType(toks[i].ty, toks[j].ty) IN MatchLen(pt) => toks[i].len = toks[j].len
\* the search stops without a match when the token just before the closer is a type-compatible opener that touches it and the pair may not be empty
Stopped(j) == j > 1 /\ InSight(j - 1, j) /\ toks[j - 1].adj /\ ~EmptyAllowed(PairType(toks[j - 1].ty, toks[j].ty))
IsCloser(j) == toks[j].cc /\ CanClosePair(toks[j].ty)
Greedy == Done => \A j \in 1 .. Len(toks) :
            LET cands == {i \in 1 .. (j - 1) : InSight(i, j) /\ Usable(i, j)} IN
            /\ (IsCloser(j) /\ (mate[j] = 0 \/ mate[j] > j)) => (cands = {} \/ Stopped(j))                                         \* an unmatched closer had nothing to take
            /\ (mate[j] # 0 /\ mate[j] < j) => (mate[j] \in cands /\ \A i \in cands : i <= mate[j])                  \* a matched one took the nearest usable opener
\* the step machine and the recursive definition used by the trace module agree
FoldAgrees == Done => LET r == Run(toks) IN r.mate = mate /\ r.conts = conts
\* an opener that itself later closes (ambidextrous) is never both: once matched it is neither pushed nor used again -- part of MateSym/StackOK

\* ---- behaviours for the replay harness ----------------------------------------------------------------------------------------
Result(ts) == LET r == Run(ts) IN [toks |-> ts, mate |-> r.mate, depth |-> [i \in 1 .. Len(ts) |-> Depth(ts, r, i)],
                                   conts |-> [c \in r.conts |-> c]]
\* chains that take the pairing stack across the real threshold: a run of n unmatched openers, then a tail from the small alphabet
RECURSIVE RepTok(_, _)
RepTok(tk, n) == IF n = 0 THEN <<>> ELSE <<tk>> \o RepTok(tk, n - 1)
DeepChains == {RepTok(Tok(o, 1, FALSE, TRUE, FALSE), n) \o tail :
                 o \in {TA, TS, Tq}, n \in {998, 999, 1000, 1001, 1300},
                 tail \in {<<Tok(TA, 1, FALSE, TRUE, FALSE), Tok(Tx, 1, TRUE, FALSE, FALSE), Tok(Ta, 1, FALSE, FALSE, TRUE), Tok(TS, 1, FALSE, FALSE, TRUE)>>,
                           <<Tok(Tq, 2, FALSE, TRUE, FALSE), Tok(Tx, 1, TRUE, FALSE, FALSE), Tok(Tq, 2, FALSE, FALSE, TRUE), Tok(Tb, 1, FALSE, FALSE, TRUE), Tok(Ta, 1, TRUE, FALSE, TRUE)>>,
                           <<Tok(Tb, 1, FALSE, FALSE, TRUE), Tok(TS, 1, FALSE, TRUE, TRUE), Tok(Tx, 1, TRUE, FALSE, FALSE), Tok(TS, 1, FALSE, TRUE, TRUE)>>}}
InitDeep == /\ toks \in DeepChains /\ p = Len(toks) + 1 /\ st = <<>> /\ cnt = ZeroCnt /\ conts = {} /\ mate = <<>>        \* (generator only: the chains are printed, not run)
EmitDeep == PrintT(ToJson([toks |-> toks]))
Emit == Done => PrintT(ToJson([toks |-> toks, mate |-> mate, depth |-> [i \in 1 .. Len(toks) |-> Cardinality({c \in conts : c[1] <= i /\ i <= c[2]})]]))
View == <<toks, p, st, mate, conts>>
=============================================================================
