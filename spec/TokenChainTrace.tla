--------------------------- MODULE TokenChainTrace ---------------------------
(* Replay of TokenChain behaviours on real token objects: after every primitive the pointer graph of the real      *)
(* tokens (serialised by model ids) must be the model's forest, field by field, for every token the model holds.   *)
EXTENDS TokenChain, IOUtils
Tr == ndJsonDeserialize(IOEnv.TRACE)
VARIABLE k
TInit == Init /\ k = 1
Apply(r) == CASE r.op = "new" -> New(r.t, r.s, r.l) [] r.op = "append_child" -> AppendChild(r.a, r.b) [] r.op = "remove_first_child" -> RemoveFirstChild(r.a)
              [] r.op = "remove_last_child" -> RemoveLastChild(r.a) [] r.op = "pop_link" -> PopLink(r.a) [] r.op = "prune" -> Prune(r.a, r.b)
              [] r.op = "prune_graft" -> PruneGraft(r.a, r.b, r.t) [] r.op = "split" -> Split(r.a, r.s, r.l, r.t) [] r.op = "new_parent" -> NewParent(r.a, r.t)
              [] r.op = "mate" -> Mate(r.a, r.b) [] OTHER -> FALSE
\* node = <<type, start, len, next, prev, child, tail, mate>>
Same(r) == \A i \in used' : /\ i <= Len(r.nodes)
                            /\ LET o == r.nodes[i] IN                          \* (o[7], the tail pointer, is bookkeeping of the primitives: C15 does not speak of it, so a
                               <<o[1], o[2], o[3], o[4], o[5], o[6], o[8]>> = <<ty'[i], st'[i], ln'[i], nxt'[i], prv'[i], chd'[i], mt'[i]>>      \*  different tail discipline is not refused -- it shows as soon as a later primitive links through it)
TNext == /\ k <= Len(Tr) /\ k' = k + 1
         /\ LET r == Tr[k] IN
            IF r.e = "reset" THEN used' = {} /\ nxt' = Z /\ prv' = Z /\ chd' = Z /\ tl' = Z /\ st' = Z /\ ln' = Z /\ mt' = Z /\ ty' = Z /\ hist' = <<>>
            ELSE r.e = "chain" /\ Apply(r) /\ Same(r)
TraceAccepted == TLCGet("stats").diameter = Len(Tr) + 1
=============================================================================
