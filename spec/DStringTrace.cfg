CONSTANTS StartCap = 1024
INIT TInit
NEXT TNext
POSTCONDITION TraceAccepted
CHECK_DEADLOCK FALSE
