-------------------------- MODULE AhoCorasickTrace --------------------------
(* Replay of AhoCorasick cases on the real trie: ac_trie_search must report the matches the automaton of the   *)
(* specification reports, in the same order, and ac_trie_leftmost_longest_search the selection the transcribed  *)
(* filter leaves.                                                                                                *)
EXTENDS AhoCorasick, IOUtils
Tr == ndJsonDeserialize(IOEnv.TRACE)
VARIABLE k
TInit == k = 1 /\ c = [keys |-> <<>>, text |-> "", start |-> 0, len |-> 0]
AsRec(s) == [i \in 1 .. Len(s) |-> [start |-> s[i][1], len |-> s[i][2], ty |-> s[i][3]]]
TNext == /\ k <= Len(Tr) /\ k' = k + 1 /\ UNCHANGED c
         /\ LET r == Tr[k] IN
            IF r.e = "reset" THEN TRUE
            ELSE /\ r.e = "ac"
                 /\ LET m == Search(r.keys, r.text, r.start, r.len) IN
                    /\ ToSet(AsRec(r.all)) = ToSet(m) /\ Len(r.all) = Len(m)          \* every occurrence, once (the order of the report is the implementation's business)
                    /\ AsRec(r.sel) = Filter(m)
TraceAccepted == TLCGet("stats").diameter = Len(Tr) + 1
=============================================================================
