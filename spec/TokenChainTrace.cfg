CONSTANTS N = 6
          MaxOps = 1000000
          WithSplit = TRUE
INIT TInit
NEXT TNext
POSTCONDITION TraceAccepted
CHECK_DEADLOCK FALSE
