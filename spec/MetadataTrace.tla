---------------------------- MODULE MetadataTrace ----------------------------
(* Trace validation for C11: the answers of the real metadata API (any family, incl. one engine object reused   *)
(* across calls, and the command line) must be the answers the Metadata specification gives.                    *)
EXTENDS Metadata, Json, IOUtils, FiniteSets
Tr == ndJsonDeserialize(IOEnv.TRACE)
VARIABLES l, doc, meta, body, nupd
tvars == <<l, doc, meta, body, nupd>>
NoDoc == [fence |-> FALSE, entries |-> <<>>, term |-> 2, body |-> 1]
TInit == l = 1 /\ doc = NoDoc /\ meta = <<>> /\ body = "" /\ nupd = 0
Same == UNCHANGED <<doc, meta, body, nupd>>
TNext ==
  /\ l <= Len(Tr) /\ l' = l + 1
  /\ LET r == Tr[l] IN
     CASE r.e = "reset" -> doc' = NoDoc /\ meta' = <<>> /\ body' = "" /\ nupd' = 0
       [] r.e = "load"  -> /\ r.src = Spell(r.doc)                         \* the harness ran exactly the text the spec spells
                           /\ doc' = r.doc /\ meta' = MetaOf(r.doc) /\ body' = BodyOf(r.doc) /\ nupd' = 0
       [] r.e = "has"   -> /\ r.has                                         \* the block is recognised ...
                           /\ (nupd = 0 => r.end = BlockEnd(doc))           \* ... and delimited exactly
                           /\ r.body = body                                 \* what follows the block is the body, unchanged
                           /\ Same
       [] r.e = "keys"  -> r.res = KeyList(meta) /\ Same
       [] r.e = "val"   -> r.res = Lookup(meta, Keys[r.k].n) /\ Same
       [] r.e = "head"  -> /\ ~r.null /\ LET firsts == {i \in 1 .. Len(meta) : \A j \in 1 .. (i - 1) : meta[j].k # meta[i].k} IN          \* (a key written twice is reported -- and carried -- with its first value)
                                        {r.pairs[i] : i \in 1 .. Len(r.pairs)} = {<<meta[i].k, meta[i].v>> : i \in firsts} /\ Len(r.pairs) = Cardinality(firsts)
                           /\ Same      \* the complete document carries the same keys and values (each once; their order is not prescribed)
       [] r.e = "upd"   -> meta' = Update(meta, r.k, r.u) /\ nupd' = nupd + 1 /\ UNCHANGED <<doc, body>>
       [] OTHER -> FALSE
TraceAccepted == TLCGet("stats").diameter = Len(Tr) + 1
=============================================================================
