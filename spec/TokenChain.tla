----------------------------- MODULE TokenChain -----------------------------
(* Property C15, primitive level.  The token-chain surgery primitives of token.c, each written down as the       *)
(* code performs it (same assignments, same NULL guards), over a forest of at most N token records.               *)
(* TLC explores every sequence of primitives applied to every reachable forest with every argument choice that    *)
(* satisfies the primitive's precondition (what its callers guarantee) and checks that the structural invariants   *)
(* the property names are preserved: next/prev symmetric, the head of every chain knows its tail, no pointer to a  *)
(* freed token, no cycle, mates symmetric.  TokenChainTrace replays the same behaviours on real tokens.           *)
EXTENDS Integers, Sequences, FiniteSets, TLC, Json
CONSTANTS N, MaxOps, WithSplit      \* token_split (used by the writers, after pairing) does not maintain tail pointers at all
Ids == 1 .. N
VARIABLES used, nxt, prv, chd, tl, st, ln, mt, ty, hist
vars == <<used, nxt, prv, chd, tl, st, ln, mt, ty, hist>>
Z == [i \in Ids |-> 0]
Init == used = {} /\ nxt = Z /\ prv = Z /\ chd = Z /\ tl = Z /\ st = Z /\ ln = Z /\ mt = Z /\ ty = Z /\ hist = <<>>
Fresh == CHOOSE i \in Ids \ used : \A j \in Ids \ used : i <= j
HasFresh(k) == Cardinality(Ids \ used) >= k
Fresh2 == CHOOSE i \in Ids \ (used \cup {Fresh}) : \A j \in Ids \ (used \cup {Fresh}) : i <= j
Log(o) == hist' = Append(hist, o)
R(o) == o @@ [a |-> 0, b |-> 0, s |-> 0, l |-> 0, t |-> 0]

\* helpers over the *current* state
RECURSIVE Last(_, _, _), Subtree(_, _, _)
Last(f, n, fuel) == IF fuel = 0 \/ f[n] = 0 THEN n ELSE Last(f, f[n], fuel - 1)
HeadOf(n) == Last(prv, n, N)
LastOf(n) == Last(nxt, n, N)
ChainFrom(n) == LET RECURSIVE C(_, _) C(m, fuel) == IF m = 0 \/ fuel = 0 THEN {} ELSE {m} \cup C(nxt[m], fuel - 1) IN C(n, N)
Subtree(n, fuel, acc) == IF n = 0 \/ fuel = 0 THEN {} ELSE {n} \cup Subtree(chd[n], fuel - 1, acc) \cup Subtree(nxt[n], fuel - 1, acc)
IsHead(n) == n \in used /\ prv[n] = 0
IsFirstChild(n) == \E p \in used : chd[p] = n
Roots == {n \in used : prv[n] = 0 /\ ~IsFirstChild(n)}

\* ---- primitives (token.c) -------------------------------------------------------------------------------------
\* token_new(type, start, len)
New(t, s, l) ==
  /\ HasFresh(1)
  /\ LET i == Fresh IN
     /\ used' = used \cup {i} /\ ty' = [ty EXCEPT ![i] = t] /\ st' = [st EXCEPT ![i] = s] /\ ln' = [ln EXCEPT ![i] = l]
     /\ nxt' = [nxt EXCEPT ![i] = 0] /\ prv' = [prv EXCEPT ![i] = 0] /\ chd' = [chd EXCEPT ![i] = 0] /\ tl' = [tl EXCEPT ![i] = i] /\ mt' = [mt EXCEPT ![i] = 0]
  /\ Log(R([op |-> "new", t |-> t, s |-> s, l |-> l]))

\* token_chain_append(chain_start, t):  chain_start->tail->next = t; t->prev = chain_start->tail; chain_start->tail = t->tail
ChainAppendF(h, t, f) == [f EXCEPT !.nxt[f.tl[h]] = t, !.prv[t] = f.tl[h], !.tl[h] = f.tl[t]]
\* token_append_child(parent, t)
AppendChild(p, t) ==
  /\ p \in used /\ t \in Roots /\ p # t /\ p \notin Subtree(t, 2 * N, {}) /\ tl[t] = LastOf(t)       \* t heads a free-standing chain, not an ancestor of p
  /\ (chd[p] # 0 => tl[chd[p]] = LastOf(chd[p]))
  /\ LET f0 == [nxt |-> nxt, prv |-> prv, tl |-> tl]
         f1 == IF chd[p] = 0 THEN f0 ELSE ChainAppendF(chd[p], t, f0)
         c  == IF chd[p] = 0 THEN t ELSE chd[p] IN
     /\ nxt' = f1.nxt /\ prv' = f1.prv /\ tl' = f1.tl /\ chd' = [chd EXCEPT ![p] = c]
     /\ ln' = [ln EXCEPT ![p] = st[f1.tl[c]] + ln[f1.tl[c]] - st[p]]
  /\ UNCHANGED <<used, st, mt, ty>> /\ Log(R([op |-> "append_child", a |-> p, b |-> t]))

\* token_remove_first_child(parent)
RemoveFirstChild(p) ==
  /\ p \in used /\ chd[p] # 0 /\ chd[chd[p]] = 0 /\ mt[chd[p]] = 0
  /\ LET t == chd[p] c == nxt[t] IN
     /\ chd' = [chd EXCEPT ![p] = c]
     /\ prv' = IF c # 0 THEN [prv EXCEPT ![c] = 0] ELSE prv
     /\ tl' = IF c # 0 THEN [tl EXCEPT ![c] = tl[t]] ELSE tl
     /\ used' = used \ {t}
  /\ UNCHANGED <<nxt, st, ln, mt, ty>> /\ Log(R([op |-> "remove_first_child", a |-> p]))

\* token_remove_last_child(parent) -- callers use it on parents with at least two children
RemoveLastChild(p) ==
  /\ p \in used /\ chd[p] # 0 /\ nxt[chd[p]] # 0 /\ tl[chd[p]] = LastOf(chd[p])
  /\ LET t == tl[chd[p]] IN
     /\ chd[t] = 0 /\ mt[t] = 0
     /\ nxt' = [nxt EXCEPT ![prv[t]] = 0] /\ tl' = [tl EXCEPT ![chd[p]] = prv[t]] /\ used' = used \ {t}
  /\ UNCHANGED <<prv, chd, st, ln, mt, ty>> /\ Log(R([op |-> "remove_last_child", a |-> p]))

\* fix_token_chain_tail(t): walk to the head, walk to the end, head->tail = end
FixTail(f, t) == LET h == Last(f.prv, t, N) e == Last(f.nxt, t, N) IN [f EXCEPT !.tl[h] = e]
\* token_pop_link_from_chain(t) -- t is neither the head of its chain nor a first child
PopLink(t) ==
  /\ t \in used /\ prv[t] # 0 /\ mt[t] = 0
  /\ LET p == prv[t] x == nxt[t]
         f0 == [nxt |-> [nxt EXCEPT ![t] = 0, ![p] = x], prv |-> [prv EXCEPT ![t] = 0], tl |-> [tl EXCEPT ![t] = t]]
         f1 == FixTail(f0, p)
         f2 == IF x # 0 THEN [f1 EXCEPT !.prv[x] = p] ELSE f1 IN
     nxt' = f2.nxt /\ prv' = f2.prv /\ tl' = f2.tl
  /\ UNCHANGED <<used, chd, st, ln, mt, ty>> /\ Log(R([op |-> "pop_link", a |-> t]))

\* tokens_prune(first, last) -- first is not the head of its chain; the pruned tokens are freed with their subtrees
Prune(a, b) ==
  /\ a \in used /\ b \in ChainFrom(a) /\ prv[a] # 0
  /\ LET gone == UNION {{m} \cup Subtree(chd[m], 2 * N, {}) : m \in ChainFrom(a) \ ChainFrom(nxt[b])} IN
     /\ \A g \in gone : mt[g] = 0 \/ mt[g] \in gone
     /\ LET p == prv[a] x == nxt[b]
            f0 == [nxt |-> [nxt EXCEPT ![p] = x, ![b] = 0], prv |-> [prv EXCEPT ![a] = 0], tl |-> tl]
            f1 == IF x = 0 THEN FixTail(f0, p) ELSE f0          \* the tail is looked for again only when the pruned tokens ended the chain
            f2 == IF x # 0 THEN [f1 EXCEPT !.prv[x] = p] ELSE f1 IN
        nxt' = f2.nxt /\ prv' = f2.prv /\ tl' = f2.tl /\ used' = used \ gone
  /\ UNCHANGED <<chd, st, ln, mt, ty>> /\ Log(R([op |-> "prune", a |-> a, b |-> b]))

\* token_prune_graft(first, last, container_type)
PruneGraft(a, b, t) ==
  /\ a \in used /\ b \in ChainFrom(a) /\ HasFresh(1) /\ (mt[a] # 0 => mt[mt[a]] = a)
  /\ LET c == Fresh x == nxt[b]
         last == IF a = b THEN c ELSE b
         \* new_child = copy of first; new_child->prev = NULL; new_child->tail = last(original pointer); if (new_child->next) new_child->next->prev = new_child
         nxt1 == [nxt EXCEPT ![c] = nxt[a]]
         prv1 == IF nxt[a] # 0 THEN [prv EXCEPT ![c] = 0, ![nxt[a]] = c] ELSE [prv EXCEPT ![c] = 0]
         tl1 == [tl EXCEPT ![c] = b]
         \* first->child = new_child; first->next = next; last->next = NULL; if (next) next->prev = first
         nxt2 == [[nxt1 EXCEPT ![a] = x] EXCEPT ![last] = 0]
         prv2 == IF x # 0 THEN [prv1 EXCEPT ![x] = a] ELSE prv1
         \* fix tail if first is now the end of its chain
         hd == Last(prv2, a, N)
         tl2 == IF x = 0 THEN [[tl1 EXCEPT ![a] = a] EXCEPT ![hd] = a] ELSE tl1 IN
     /\ used' = used \cup {c}
     /\ ty' = [ty EXCEPT ![c] = ty[a], ![a] = t] /\ st' = [st EXCEPT ![c] = st[a]]
     /\ ln' = [ln EXCEPT ![c] = ln[a], ![a] = st[IF a = b THEN a ELSE b] + ln[IF a = b THEN a ELSE b] - st[a]]
     /\ chd' = [chd EXCEPT ![c] = chd[a], ![a] = c]
     /\ mt' = IF mt[a] # 0 THEN [mt EXCEPT ![c] = mt[a], ![a] = 0, ![mt[a]] = c] ELSE [mt EXCEPT ![c] = 0]
     /\ nxt' = nxt2 /\ prv' = prv2 /\ tl' = tl2
  /\ Log(R([op |-> "prune_graft", a |-> a, b |-> b, t |-> t]))

\* token_split(t, start, len, new_type)
Split(t, s, l, nt) ==
  /\ t \in used /\ chd[t] = 0 /\ l >= 1 /\ s >= st[t] /\ s + l <= st[t] + ln[t]
  /\ LET stop == s + l  is == s > st[t]  ie == stop < st[t] + ln[t]  x == nxt[t] IN
     IF is /\ ie THEN          \* t -> A -> T2
        /\ HasFresh(2)
        /\ LET A == Fresh T2 == Fresh2 IN
           /\ used' = used \cup {A, T2}
           /\ ty' = [ty EXCEPT ![A] = nt, ![T2] = ty[t]] /\ st' = [st EXCEPT ![A] = s, ![T2] = stop] /\ ln' = [ln EXCEPT ![A] = l, ![T2] = st[t] + ln[t] - stop, ![t] = s - st[t]]
           /\ nxt' = [nxt EXCEPT ![t] = A, ![A] = T2, ![T2] = x]
           /\ prv' = IF x # 0 THEN [prv EXCEPT ![A] = t, ![T2] = A, ![x] = T2] ELSE [prv EXCEPT ![A] = t, ![T2] = A]
           /\ chd' = [chd EXCEPT ![A] = 0, ![T2] = 0] /\ tl' = [tl EXCEPT ![A] = A, ![T2] = T2] /\ mt' = [mt EXCEPT ![A] = 0, ![T2] = 0]
     ELSE IF is THEN           \* t -> A
        /\ HasFresh(1)
        /\ LET A == Fresh IN
           /\ used' = used \cup {A}
           /\ ty' = [ty EXCEPT ![A] = nt] /\ st' = [st EXCEPT ![A] = s] /\ ln' = [ln EXCEPT ![A] = l, ![t] = s - st[t]]
           /\ nxt' = [nxt EXCEPT ![t] = A, ![A] = x]
           /\ prv' = IF x # 0 THEN [prv EXCEPT ![A] = t, ![x] = A] ELSE [prv EXCEPT ![A] = t]
           /\ chd' = [chd EXCEPT ![A] = 0] /\ tl' = [tl EXCEPT ![A] = A] /\ mt' = [mt EXCEPT ![A] = 0]
     ELSE IF ie THEN           \* A -> T, swapped so that t keeps its place and takes the new type
        /\ HasFresh(1)
        /\ LET A == Fresh IN
           /\ used' = used \cup {A}
           /\ ty' = [ty EXCEPT ![A] = ty[t], ![t] = nt] /\ st' = [st EXCEPT ![A] = stop] /\ ln' = [ln EXCEPT ![A] = st[t] + ln[t] - stop, ![t] = l]
           /\ nxt' = [nxt EXCEPT ![t] = A, ![A] = x]
           /\ prv' = IF x # 0 THEN [prv EXCEPT ![A] = t, ![x] = A] ELSE [prv EXCEPT ![A] = t]
           /\ chd' = [chd EXCEPT ![A] = 0] /\ tl' = [tl EXCEPT ![A] = A] /\ mt' = [mt EXCEPT ![A] = 0]
     ELSE                      \* the whole token: just retype
        /\ ty' = [ty EXCEPT ![t] = nt] /\ UNCHANGED <<used, st, ln, nxt, prv, chd, tl, mt>>
  /\ Log(R([op |-> "split", a |-> t, s |-> s, l |-> l, t |-> nt]))

\* token_new_parent(child, type)
NewParent(c, t) ==
  /\ c \in Roots /\ HasFresh(1)
  /\ LET p == Fresh e == LastOf(c) IN
     /\ used' = used \cup {p} /\ ty' = [ty EXCEPT ![p] = t] /\ st' = [st EXCEPT ![p] = st[c]]
     /\ ln' = [ln EXCEPT ![p] = IF nxt[c] = 0 THEN ln[c] ELSE st[e] + ln[e] - st[c]]
     /\ chd' = [chd EXCEPT ![p] = c] /\ prv' = [prv EXCEPT ![p] = 0, ![c] = 0] /\ nxt' = [nxt EXCEPT ![p] = 0] /\ tl' = [tl EXCEPT ![p] = p] /\ mt' = [mt EXCEPT ![p] = 0]
  /\ Log(R([op |-> "new_parent", a |-> c, t |-> t]))

\* pairing two tokens of one chain (what token_pairs does to mates)
Mate(a, b) == /\ a \in used /\ b \in ChainFrom(nxt[a]) /\ mt[a] = 0 /\ mt[b] = 0
              /\ mt' = [mt EXCEPT ![a] = b, ![b] = a] /\ UNCHANGED <<used, nxt, prv, chd, tl, st, ln, ty>> /\ Log(R([op |-> "mate", a |-> a, b |-> b]))

NextBuild ==
           \/ \E s \in {0, 3, 6}, l \in {1, 3} : New(1, s, l)
           \/ \E p \in used, t \in used : AppendChild(p, t)
           \/ \E p \in used : RemoveFirstChild(p) \/ RemoveLastChild(p) \/ PopLink(p)
           \/ \E a \in used, b \in used : Prune(a, b) \/ PruneGraft(a, b, 7)
           \/ \E c \in used : NewParent(c, 5)

\* the writers split tokens only after the tree is complete; from then on nothing consults tail pointers any more
SplitDone == \E i \in 1 .. Len(hist) : hist[i].op = "split"
Next == /\ Len(hist) < MaxOps
        /\ \/ (WithSplit /\ \E t \in used, s \in 0 .. 8, l \in {1, 2} : Split(t, s, l, 9))
           \/ (\E a \in used, b \in used : Mate(a, b))
           \/ (~SplitDone /\ NextBuild)
\* ---- the structural invariants ---------------------------------------------------------------------------------------
NoDangling == \A n \in used : /\ nxt[n] \in used \cup {0} /\ prv[n] \in used \cup {0} /\ chd[n] \in used \cup {0} /\ mt[n] \in used \cup {0} /\ tl[n] \in used
Linked == \A n \in used : (nxt[n] # 0 => prv[nxt[n]] = n) /\ (prv[n] # 0 => nxt[prv[n]] = n)
Acyclic == \A n \in used : n \notin ChainFrom(nxt[n]) /\ n \notin Subtree(chd[n], 2 * N, {})
TailOK == \A n \in used : (prv[n] = 0) => tl[n] = LastOf(n)              \* every chain head (root or first child) knows its last token
\* TailOK does NOT hold of the code: token_prune_graft(first, last) with first = last sets new_child->tail = last *before* it swaps
\* last for new_child, so the child's tail points at its own container (TLC: new; prune_graft(1,1)).  The property (C15) does not
\* speak about tail, so this is recorded as an observation (DESIGN.md 11.6), and the invariant is required of top-level chains only.
TailOKRoots == \A n \in Roots : tl[n] = LastOf(n)
MateOK == \A n \in used : mt[n] # 0 => mt[mt[n]] = n
OneParent == \A p, q \in used : (p # q /\ chd[p] # 0) => chd[p] # chd[q]
View == <<used, nxt, prv, chd, tl, st, ln, mt, ty>>
Emit == (Len(hist) = MaxOps) => PrintT(ToJson(hist))
EmitAll == (Len(hist) >= 1) => PrintT(ToJson(hist))
=============================================================================
