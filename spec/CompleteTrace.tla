---------------------------- MODULE CompleteTrace ----------------------------
(* C02, writer half, as a monitor: every conversion returns control with a rendering; the process is not     *)
(* ended from inside the library; no "unknown token", "parser failed" or "syntax error" escape is taken;     *)
(* and of a document made of LineSpell lines every word-bearing line is still there to read (LineSpell).    *)
EXTENDS LineSpell, TLC, Json, IOUtils
Tr == ndJsonDeserialize(IOEnv.TRACE)
VARIABLES l, converted
tvars == <<l, converted>>
TInit == l = 1 /\ converted = 0
Escapes == {"unknown_token", "parser_failed", "syntax_error"}
TNext ==
  /\ l <= Len(Tr) /\ l' = l + 1
  /\ LET r == Tr[l] IN
     CASE r.e = "reset" -> UNCHANGED converted
       [] r.e = "conv"  -> /\ ~r.null                                   \* a rendering was returned
                           /\ \A i \in 1 .. Len(r.diag) : r.diag[i] \notin Escapes
                           /\ (r.nonblank => r.len > 1)                 \* a document that starts with a rendered block does not render to nothing
                           /\ (r.seq # <<>> => Complete(r.seq, r.cnt, r.carries, r.compat))   \* no line of a generated document is missing from its rendering (LineSpell)
                           /\ converted' = converted + 1
       [] OTHER -> FALSE                                                \* "exit", "aborted", "timeout": control did not come back
TraceAccepted == TLCGet("stats").diameter = Len(Tr) + 1
=============================================================================
