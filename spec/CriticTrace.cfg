CONSTANTS Sim = FALSE
          Big = FALSE
INIT TInit
NEXT TNext
POSTCONDITION TraceAccepted
CHECK_DEADLOCK FALSE
