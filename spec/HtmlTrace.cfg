CONSTANTS Sim = FALSE
          MaxBlocks = 0
          Family = "single"
INIT TInit
NEXT TNext
POSTCONDITION TraceAccepted
CHECK_DEADLOCK FALSE
