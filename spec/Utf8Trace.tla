----------------------------- MODULE Utf8Trace -----------------------------
(* Trace validation for C16.  An ill-formed sequence always lies inside a maximal run of bytes >= 0x80, so the      *)
(* harness projects every output to its non-ASCII runs; TLC runs the Utf8 DFA over each run.                         *)
EXTENDS Utf8, IOUtils
Tr == ndJsonDeserialize(IOEnv.TRACE)
VARIABLE l
TInit == l = 1 /\ w = <<>>
TNext == /\ l <= Len(Tr) /\ l' = l + 1 /\ UNCHANGED w
         /\ LET r == Tr[l] IN
            IF r.e = "reset" THEN TRUE
            ELSE /\ r.e = "out" /\ ~r.null
                 /\ \A i \in 1 .. Len(r.srcruns) : Accepts(r.srcruns[i])                                      \* precondition: the source itself is valid UTF-8
                 /\ \A i \in 1 .. Len(r.runs) : Accepts(r.runs[i])                 \* every non-ASCII run of the output is well formed
TraceAccepted == TLCGet("stats").diameter = Len(Tr) + 1
=============================================================================
