------------------------------- MODULE Outline -------------------------------
(* Property C14.  A document as an outline: optional single-line metadata, an optional preamble, and sections   *)
(* (level, title, heading style, body).  The specification gives the source spelling, the outline the OPML      *)
(* export must contain -- every heading one item carrying its title, nested by level with the open-level stack   *)
(* of mmd_outline_add_opml, its note being the source between this heading and the next, verbatim -- and the      *)
(* condition (properly nested levels) under which re-importing must reproduce a document that renders            *)
(* identically.                                                                                                   *)
EXTENDS Integers, Sequences, FiniteSets, TLC, Json
CONSTANTS MaxSecs, MaxLevel, Sim

Titles == << "One", "A & B", "Q \"uote\" 'x'", "T<ag> >", "Caf~E", "C#", "# starts with a hash", "### and a longer run", "arrow ~>" >>
HashStart == {7, 8}   \* titles that begin with a run of '#' and a blank: text after the opening marker (as a Setext heading the line would itself be an ATX heading)
HashEnd == {6}        \* titles that end in '#': unambiguous only with closing hashes or as Setext headings
Bodies == << "plain body\n\n", "a & b < c > \"q\" 'x' &amp; &#10;\n\n", "", "tab\there  two\nline2\n\n", "* item <b>\n* two\n\n", "    code & <pre>\n\n", "form~Ffeed and~Vvertical tab, unit~Useparator\n\n", "    code first\n\nthen text\n\n" >>      \* (~F ~V ~U: form feed, vertical tab, 0x1F -- written by the check)
Pres   == << "", "pre <amble> & \"text\"\n\n", "\n\nNote: this opening paragraph follows two blank lines and looks like a key\n\n", "    indented opening lines\n\n  text\n\n" >>
Metas  == << <<>>, << [k |-> "Title", n |-> "title", v |-> "My Title"] >>, << [k |-> "Title", n |-> "title", v |-> "T <1>"], [k |-> "Author", n |-> "author", v |-> "A \"B\" C"] >>,
           << [k |-> "Title", n |-> "title", v |-> "B"], [k |-> "Base Header Level", n |-> "baseheaderlevel", v |-> "2"] >>,
           \* keys that re-configure other writers must not touch this one
           << [k |-> "LaTeX Mode", n |-> "latexmode", v |-> "memoir"], [k |-> "HTML Header Level", n |-> "htmlheaderlevel", v |-> "3"], [k |-> "Language", n |-> "language", v |-> "de"] >> >>

RECURSIVE Cat(_), Rep(_, _)
Cat(ss) == IF ss = <<>> THEN "" ELSE Head(ss) \o Cat(Tail(ss))
Rep(c, n) == IF n = 0 THEN "" ELSE c \o Rep(c, n - 1)
HeadSrc(s) == CASE s.style = "atx"  -> Rep("#", s.lvl) \o " " \o Titles[s.t] \o "\n"
                [] s.style = "atxc" -> Rep("#", s.lvl) \o " " \o Titles[s.t] \o " " \o Rep("#", s.lvl) \o "\n"
                [] OTHER            -> Titles[s.t] \o "\n" \o (IF s.lvl = 1 THEN "=====" ELSE "-----") \o "\n"
\* tight (optional field): the body follows the heading line at once, without a blank line between them -- the note then begins with the body's own first character
Tight(s) == "tight" \in DOMAIN s
Gap(s) == IF Tight(s) THEN "" ELSE "\n"
SecSrc(s) == HeadSrc(s) \o Gap(s) \o Bodies[s.b]
MetaSrc(m) == IF m = <<>> THEN "" ELSE Cat([i \in 1 .. Len(m) |-> m[i].k \o ": " \o m[i].v \o "\n"]) \o "\n"
\* cut (optional field): the text ends right after the title of the last heading (which has an empty body) -- no final newline
Cut(d) == "cut" \in DOMAIN d
FullSrc(d) == MetaSrc(Metas[d.m]) \o Pres[d.p] \o Cat([i \in 1 .. Len(d.secs) |-> SecSrc(d.secs[i])])
Src(d) == IF Cut(d) THEN SubSeq(FullSrc(d), 1, Len(FullSrc(d)) - 2) ELSE FullSrc(d)

\* ---- the outline the export must contain: <<depth, text, note>> in document order -------------------------------
\* open-level stack: an item at level L closes every open item of level >= L
RECURSIVE PopTo(_, _)
PopTo(st, lvl) == IF st # <<>> /\ st[Len(st)] >= lvl THEN PopTo(SubSeq(st, 1, Len(st) - 1), lvl) ELSE st
RECURSIVE Items(_, _, _)
Items(secs, i, st) == IF i > Len(secs) THEN <<>>
                      ELSE LET st2 == Append(PopTo(st, secs[i].lvl), secs[i].lvl) IN
                           << <<Len(st2), Titles[secs[i].t], Gap(secs[i]) \o Bodies[secs[i].b]>> >> \o Items(secs, i + 1, st2)
\* whatever lies between the metadata block and the first heading (at least the blank line that ends the block) is the preamble item
PreText(d) == (IF Metas[d.m] = <<>> THEN "" ELSE "\n") \o Pres[d.p]
PreItem(d) == IF PreText(d) = "" THEN <<>> ELSE << <<1, ">>Preamble<<", PreText(d)>> >>
MetaItems(d) == IF Metas[d.m] = <<>> THEN <<>>
                ELSE << <<1, ">>Metadata<<", "">> >> \o [i \in 1 .. Len(Metas[d.m]) |-> <<2, Metas[d.m][i].n, Metas[d.m][i].v>>]
CutLast(it) == [i \in 1 .. Len(it) |-> IF i = Len(it) THEN <<it[i][1], it[i][2], "">> ELSE it[i]]          \* (nothing follows the last title: its note is empty)
Expected(d) == PreItem(d) \o (IF Cut(d) THEN CutLast(Items(d.secs, 1, <<>>)) ELSE Items(d.secs, 1, <<>>)) \o MetaItems(d)
\* properly nested: the first heading is level 1 and no level is skipped on the way down
Proper(d) == /\ (d.secs # <<>> => d.secs[1].lvl = 1)
             /\ \A i \in 2 .. Len(d.secs) : d.secs[i].lvl <= d.secs[i - 1].lvl + 1

\* ---- generation ----------------------------------------------------------------------------------------------
VARIABLE doc
Pick(S) == IF Sim THEN {RandomElement(S)} ELSE S
Styles(l) == IF l <= 2 THEN {"atx", "atxc", "setext"} ELSE {"atx", "atxc"}
Init == doc \in {[m |-> m, p |-> p, secs |-> <<>>] : m \in Pick(1 .. Len(Metas)), p \in Pick(1 .. Len(Pres))}
\* BFS varies levels exhaustively and derives title/body/style from the position (every value occurs); simulation draws all at random
Next == /\ Len(doc.secs) < MaxSecs
        /\ \E l \in Pick(1 .. MaxLevel) :
             LET n == Len(doc.secs) + 1 IN
             \E t \in (IF Sim THEN {RandomElement(1 .. Len(Titles))} ELSE {((n + l) % Len(Titles)) + 1}),
                b \in (IF Sim THEN {RandomElement(1 .. Len(Bodies))} ELSE {((2 * n + l + doc.m) % Len(Bodies)) + 1}),
                s \in (IF Sim THEN {RandomElement(Styles(l))} ELSE {CHOOSE x \in Styles(l) : x = (IF (n + doc.p) % 3 = 0 /\ l <= 2 THEN "setext" ELSE IF (n + l) % 2 = 0 THEN "atx" ELSE "atxc")}) :
                LET sec == [lvl |-> l, t |-> t, b |-> b, style |-> IF t \in HashEnd /\ s = "atx" THEN "atxc" ELSE IF t \in HashStart /\ s = "setext" THEN "atx" ELSE s]
                    tg == IF Sim THEN RandomElement({TRUE, FALSE, FALSE}) ELSE (n + 2 * l + doc.m) % 3 = 0 IN
                doc' = [doc EXCEPT !.secs = Append(@, IF tg /\ Bodies[b] # "" THEN sec @@ [tight |-> TRUE] ELSE sec)]
\* deep outlines: every level down to 6 with k sections on each level (siblings on the whole path), and saw-tooth shapes at the bottom
RECURSIVE Stair(_, _, _)
Stair(l, d, k) == IF l > d THEN <<>> ELSE [j \in 1 .. k |-> l] \o Stair(l + 1, d, k)
SecOf(lv, n) == [lvl |-> lv, t |-> ((n + lv) % Len(Titles)) + 1, b |-> ((2 * n + lv) % Len(Bodies)) + 1, style |-> IF ((n + lv) % Len(Titles)) + 1 \in HashEnd THEN "atxc" ELSE IF n % 2 = 0 THEN "atx" ELSE "atxc"]
StairLevels == {Stair(1, d, k) : d \in 4 .. 6, k \in 1 .. 3} \cup {Stair(1, 6, 2) \o <<5, 6, 6, 4, 5, 6>>, Stair(1, 5, 1) \o <<6, 6, 6, 6, 5, 6, 3, 4, 5, 6>>, <<1, 2, 3, 4, 5, 6, 1, 2, 3, 4, 5, 6>>}
StairDocs == {[m |-> m, p |-> 1, secs |-> [n \in 1 .. Len(ls) |-> SecOf(ls[n], n)]] : m \in {1, 2}, ls \in StairLevels}
InitStairs == doc \in StairDocs
CutDocs == {[m |-> 1, p |-> 1, secs |-> << [lvl |-> 1, t |-> 1, b |-> 1, style |-> "atx"], [lvl |-> 2, t |-> t, b |-> 3, style |-> st] >>, cut |-> TRUE] :
              t \in 1 .. Len(Titles), st \in {"atx", "atxc"}}
InitCut == doc \in {x \in CutDocs : ~(x.secs[2].t \in HashEnd /\ x.secs[2].style = "atx")}
\* laws of the specification: depths form a valid preorder (each item at most one deeper than its predecessor), notes partition the body
DepthOK == LET it == Items(doc.secs, 1, <<>>) IN \A i \in 1 .. Len(it) : it[i][1] >= 1 /\ (i > 1 => it[i][1] <= it[i - 1][1] + 1)
Partition == LET it == Items(doc.secs, 1, <<>>) IN
             Cat([i \in 1 .. Len(it) |-> HeadSrc(doc.secs[i]) \o it[i][3]]) = Cat([i \in 1 .. Len(doc.secs) |-> SecSrc(doc.secs[i])])
Emit == PrintT(ToJson([doc |-> doc, src |-> Src(doc), proper |-> Proper(doc)]))
EmitInv == (Len(doc.secs) >= 1 \/ Metas[doc.m] # <<>>) => Emit
=============================================================================
