-------------------------------- MODULE Html --------------------------------
(* Property C03.  An executable reference for the HTML of the unambiguous Markdown / MultiMarkdown subset,        *)
(* written from the syntax guides (QuickStart, "Markdown Syntax"), not from html.c.                               *)
(* Abstract documents, every equivalent concrete spelling (Spell), the prescribed HTML (Render, in a canonical     *)
(* form without the line breaks between elements), and the compositionality law: independent blocks render to      *)
(* the concatenation of their renderings, whatever their order.                                                    *)
EXTENDS Integers, Sequences, FiniteSets, TLC, Json
CONSTANTS Sim, MaxBlocks, Family

RECURSIVE Cat(_), Rep(_, _)
Cat(ss) == IF ss = <<>> THEN "" ELSE Head(ss) \o Cat(Tail(ss))
Rep(c, n) == IF n <= 0 THEN "" ELSE c \o Rep(c, n - 1)
JoinWith(ss, sep) == Cat([i \in 1 .. Len(ss) |-> (IF i > 1 THEN sep ELSE "") \o ss[i]])

\* ---- inlines: each has a source spelling (depending on the emphasis marker style) and an HTML form ----------------
\* mode: "mmd" | "compat" ; smart: BOOLEAN (only meaningful in mmd mode)
Words == <<"alpha", "beta", "x1">>
Inl(k, a, b, c) == [k |-> k, a |-> a, b |-> b, c |-> c]
InlSrc(i, us) ==      \* us: TRUE = underscore emphasis markers
  CASE i.k = "t"    -> i.a
    [] i.k = "em"   -> (IF us THEN "_" ELSE "*") \o i.a \o (IF us THEN "_" ELSE "*")
    [] i.k = "st"   -> (IF us THEN "__" ELSE "**") \o i.a \o (IF us THEN "__" ELSE "**")
    [] i.k = "code" -> "`" \o i.a \o "`"
    [] i.k = "link" -> "[" \o i.a \o "](" \o i.b \o (IF i.c # "" THEN " \"" \o i.c \o "\"" ELSE "") \o ")"
    [] i.k = "auto" -> "<" \o i.a \o ">"
    [] i.k = "img"  -> "![" \o i.a \o "](" \o i.b \o ")"
    [] i.k = "br"   -> i.a \o "  \n" \o i.b
    [] i.k = "esc"  -> "\\" \o i.a
    [] i.k = "ent"  -> i.a
    [] i.k = "sup"  -> i.a \o "^" \o i.b \o "^"
    [] i.k = "sub"  -> i.a \o "~" \o i.b \o "~"
    [] OTHER        -> i.a                      \* "smart": punctuation written plainly
InlHtml(i, mode, smart) ==
  CASE i.k = "t"    -> i.a
    [] i.k = "em"   -> "<em>" \o i.a \o "</em>"
    [] i.k = "st"   -> "<strong>" \o i.a \o "</strong>"
    [] i.k = "code" -> "<code>" \o i.a \o "</code>"
    [] i.k = "link" -> "<a href=\"" \o i.b \o "\"" \o (IF i.c # "" THEN " title=\"" \o i.c \o "\"" ELSE "") \o ">" \o i.a \o "</a>"
    [] i.k = "auto" -> "<a href=\"" \o i.a \o "\">" \o i.a \o "</a>"
    [] i.k = "img"  -> "<img src=\"" \o i.b \o "\" alt=\"" \o i.a \o "\" />"
    [] i.k = "br"   -> i.a \o "<br />" \o i.b
    [] i.k = "esc"  -> i.a
    [] i.k = "ent"  -> i.b
    [] i.k = "sup"  -> IF mode = "mmd" THEN i.a \o "<sup>" \o i.b \o "</sup>" ELSE i.a \o "^" \o i.b \o "^"
    [] i.k = "sub"  -> IF mode = "mmd" THEN i.a \o "<sub>" \o i.b \o "</sub>" ELSE i.a \o "~" \o i.b \o "~"
    [] OTHER        -> IF mode = "mmd" /\ smart THEN i.b ELSE i.c       \* a: source, b: typographic form, c: plain form
Inlines == { Inl("t", "alpha", "", ""), Inl("em", "beta", "", ""), Inl("st", "x1", "", ""), Inl("code", "co de", "", ""),
             Inl("link", "alpha", "http://u.rl/p", ""), Inl("link", "beta", "http://u.rl/q?a=1", "ti tle"), Inl("auto", "http://a.b/c", "", ""),
             Inl("img", "alt", "i.png", ""), Inl("br", "x1", "beta", ""), Inl("esc", "*", "", ""), Inl("esc", "_", "", ""), Inl("esc", "#", "", ""),
             Inl("ent", "&copy;", "&copy;", ""), Inl("ent", "&", "&amp;", ""), Inl("ent", "<", "&lt;", ""), Inl("ent", "1 > 0", "1 &gt; 0", ""),
             Inl("sup", "x", "2", ""), Inl("sub", "H", "2", ""),
             Inl("smart", "\"alpha\"", "&#8220;alpha&#8221;", "&quot;alpha&quot;"), Inl("smart", "x1 -- beta", "x1 &#8211; beta", "x1 -- beta"),
             Inl("smart", "x1---beta", "x1&#8212;beta", "x1---beta"), Inl("smart", "alpha...", "alpha&#8230;", "alpha..."), Inl("smart", "it's", "it&#8217;s", "it's"),
             Inl("smart", "3-fold", "3-fold", "3-fold"), Inl("smart", "well-known", "well-known", "well-known"), Inl("smart", "'alpha'", "&#8216;alpha&#8217;", "'alpha'") }
LineSrc(il, us) == JoinWith([j \in 1 .. Len(il) |-> InlSrc(il[j], us)], " ")
LineHtml(il, mode, smart) == JoinWith([j \in 1 .. Len(il) |-> InlHtml(il[j], mode, smart)], " ")
\* heading id: the label of the heading text (lower case, letters and digits; our heading texts are words)
Label(il) == Cat([j \in 1 .. Len(il) |-> il[j].a])

\* ---- blocks ----------------------------------------------------------------------------------------------------------
\* spelling parameters sp: [us, bullet ("*" "+" "-"), lead (0..3 leading spaces), closed (ATX closing hashes), ul (setext underline length), fence (3..5), hr (1..3)]
B(k) == [k |-> k, l |-> 1, il |-> <<>>, s |-> <<>>, d |-> <<>>, o |-> FALSE, z |-> FALSE, info |-> ""]
Para(il) == [B("para") EXCEPT !.il = il]
Atx(l, il) == [B("atx") EXCEPT !.l = l, !.il = il]
Setext(l, il) == [B("setext") EXCEPT !.l = l, !.il = il]
Hr == B("hr")
Fenced(info, s) == [B("fenced") EXCEPT !.info = info, !.s = s]
Indented(s) == [B("indented") EXCEPT !.s = s]
Quote(d) == [B("quote") EXCEPT !.d = d]
List(o, z, d) == [B("list") EXCEPT !.o = o, !.z = z, !.d = d]       \* d: one block per item

RECURSIVE BlockSrc(_, _), DocSrc(_, _), BlockHtml(_, _, _), DocHtml(_, _, _), Prefix(_, _, _)
\* prefix every line of a text (lines end in \n); first is used for the first line
Prefix(text, first, rest) ==
  LET RECURSIVE P(_, _)
      P(i, atStart) == IF i > Len(text) THEN ""
                       ELSE LET ch == SubSeq(text, i, i) IN
                            (IF atStart THEN (IF i = 1 THEN first ELSE (IF ch = "\n" THEN (IF rest = "> " THEN ">" ELSE "") ELSE rest)) ELSE "") \o ch \o P(i + 1, ch = "\n")
  IN P(1, TRUE)
HrSrc(n) == CASE n = 1 -> "* * *" [] n = 2 -> "---" [] OTHER -> "_ _ _ _"
CodeEsc(s) == s        \* code lines in the generator's alphabet carry their reserved characters through CodeLines below
BlockSrc(b, sp) ==
  CASE b.k = "para"     -> LineSrc(b.il, sp.us) \o "\n"
    [] b.k = "atx"      -> Rep("#", b.l) \o " " \o LineSrc(b.il, sp.us) \o (IF sp.closed THEN " " \o Rep("#", b.l) ELSE "") \o "\n"
    [] b.k = "setext"   -> LineSrc(b.il, sp.us) \o "\n" \o Rep(IF b.l = 1 THEN "=" ELSE "-", sp.ul) \o "\n"
    [] b.k = "hr"       -> HrSrc(sp.hr) \o "\n"
    [] b.k = "fenced"   -> Rep("`", sp.fence) \o b.info \o "\n" \o Cat([j \in 1 .. Len(b.s) |-> b.s[j].a \o "\n"]) \o Rep("`", sp.fence) \o "\n"
    [] b.k = "indented" -> Cat([j \in 1 .. Len(b.s) |-> "    " \o b.s[j].a \o "\n"])
    [] b.k = "quote"    -> Prefix(DocSrc(b.d, sp), "> ", "> ")
    [] OTHER            -> Cat([j \in 1 .. Len(b.d) |->
                                 Prefix(BlockSrc(b.d[j], sp), Rep(" ", sp.lead) \o (IF b.o THEN ToString(j) \o ". " ELSE sp.bullet \o " "), "    ")
                                 \o (IF b.z /\ j < Len(b.d) THEN "\n" ELSE "")])
DocSrc(d, sp) == JoinWith([j \in 1 .. Len(d) |-> BlockSrc(d[j], sp)], "\n")
\* code lines: a = source, b = HTML
CodeLines == { [a |-> "plain code", b |-> "plain code"], [a |-> "a < b && c", b |-> "a &lt; b &amp;&amp; c"], [a |-> "*not em* `tick`", b |-> "*not em* `tick`"] }
Item(b, loose, mode, smart) == IF b.k = "para" /\ ~loose THEN LineHtml(b.il, mode, smart) ELSE BlockHtml(b, mode, smart)
BlockHtml(b, mode, smart) ==
  CASE b.k = "para"     -> IF mode = "mmd" /\ Len(b.il) = 1 /\ b.il[1].k = "img"
                           THEN "<figure>" \o InlHtml(b.il[1], mode, smart) \o "<figcaption>" \o b.il[1].a \o "</figcaption></figure>"      \* an image alone in a paragraph is a figure (MMD)
                           ELSE "<p>" \o LineHtml(b.il, mode, smart) \o "</p>"
    [] b.k \in {"atx", "setext"} -> "<h" \o ToString(b.l) \o (IF mode = "mmd" THEN " id=\"" \o Label(b.il) \o "\"" ELSE "") \o ">" \o LineHtml(b.il, mode, smart) \o "</h" \o ToString(b.l) \o ">"
    [] b.k = "hr"       -> "<hr />"
    [] b.k = "fenced"   -> "<pre><code" \o (IF b.info # "" THEN " class=\"" \o b.info \o "\"" ELSE "") \o ">" \o Cat([j \in 1 .. Len(b.s) |-> b.s[j].b \o "\n"]) \o "</code></pre>"
    [] b.k = "indented" -> "<pre><code>" \o Cat([j \in 1 .. Len(b.s) |-> b.s[j].b \o "\n"]) \o "</code></pre>"
    [] b.k = "quote"    -> "<blockquote>" \o DocHtml(b.d, mode, smart) \o "</blockquote>"
    [] OTHER            -> (IF b.o THEN "<ol>" ELSE "<ul>") \o Cat([j \in 1 .. Len(b.d) |-> "<li>" \o Item(b.d[j], b.z, mode, smart) \o "</li>"]) \o (IF b.o THEN "</ol>" ELSE "</ul>")
DocHtml(d, mode, smart) == Cat([j \in 1 .. Len(d) |-> BlockHtml(d[j], mode, smart)])

\* ---- generation ---------------------------------------------------------------------------------------------------------
Pick(S) == IF Sim THEN {RandomElement(S)} ELSE S
HeadTexts == {<<Inl("t", "alpha", "", "")>>, <<Inl("t", "alpha", "", ""), Inl("t", "beta", "", "")>>, <<Inl("t", "x1", "", "")>>}
ParaLines == {<<i>> : i \in Inlines} \cup {<<Inl("t", "alpha", "", ""), i, Inl("t", "x1", "", "")>> : i \in Inlines \ {Inl("br", "x1", "beta", "")}}
Leaf == {Para(<<Inl("t", "alpha", "", "")>>), Para(<<Inl("em", "beta", "", ""), Inl("t", "x1", "", "")>>)}
Singles == {Para(p) : p \in ParaLines} \cup {Atx(l, h) : l \in {1, 2, 3, 6}, h \in HeadTexts} \cup {Setext(l, h) : l \in {1, 2}, h \in HeadTexts} \cup {Hr}
           \cup {Fenced(i, <<c>>) : i \in {"", "c"}, c \in CodeLines} \cup {Fenced("", <<c1, c2>>) : c1 \in CodeLines, c2 \in CodeLines} \cup {Indented(<<c>>) : c \in CodeLines}
Simple == {Para(<<Inl("t", "alpha", "", "")>>), Para(<<Inl("st", "x1", "", ""), Inl("t", "beta", "", "")>>), Atx(2, <<Inl("t", "beta", "", "")>>), Setext(1, <<Inl("t", "x1", "", "")>>), Hr,
           Fenced("", <<[a |-> "plain code", b |-> "plain code"]>>), Indented(<<[a |-> "a < b && c", b |-> "a &lt; b &amp;&amp; c"]>>)}
Containers == {Quote(<<c>>) : c \in Simple} \cup {Quote(<<c1, c2>>) : c1 \in Leaf, c2 \in Simple}
              \cup {List(o, z, <<a, b>>) : o \in BOOLEAN, z \in BOOLEAN, a \in Leaf, b \in Leaf} \cup {List(o, FALSE, <<a>>) : o \in BOOLEAN, a \in Leaf}
              \cup {Quote(<<List(FALSE, FALSE, <<a, b>>)>>) : a \in Leaf, b \in Leaf}
Independent == Simple \cup {Quote(<<c>>) : c \in Leaf}        \* blocks that do not refer to one another: the compositionality family
Sps == {[us |-> u, bullet |-> bl, lead |-> ld, closed |-> cl, ul |-> n, fence |-> f, hr |-> h] :
          u \in Pick(BOOLEAN), bl \in Pick({"*", "+", "-"}), ld \in Pick({0, 2}), cl \in Pick(BOOLEAN), n \in Pick({2, 7}), f \in Pick({3, 5}), h \in Pick({1, 2, 3})}
DefaultSp == [us |-> FALSE, bullet |-> "*", lead |-> 0, closed |-> FALSE, ul |-> 5, fence |-> 3, hr |-> 1]
\* spelling variants that matter for a block kind (to keep the enumeration small)
SpFor(b) == CASE b.k = "para" -> {[DefaultSp EXCEPT !.us = u] : u \in BOOLEAN}
              [] b.k = "atx" -> {[DefaultSp EXCEPT !.closed = c] : c \in BOOLEAN}
              [] b.k = "setext" -> {[DefaultSp EXCEPT !.ul = n] : n \in {1, 2, 3, 12}}
              [] b.k = "hr" -> {[DefaultSp EXCEPT !.hr = h] : h \in {1, 2, 3}}
              [] b.k = "fenced" -> {[DefaultSp EXCEPT !.fence = f] : f \in {3, 4, 5}}
              [] b.k = "list" -> {[DefaultSp EXCEPT !.bullet = bl, !.lead = ld] : bl \in {"*", "+", "-"}, ld \in {0, 1, 3}}
              [] OTHER -> {DefaultSp}
VARIABLE g
Init == CASE Family = "single"    -> g \in UNION {{[d |-> <<b>>, sp |-> s] : s \in SpFor(b)} : b \in Singles \cup Containers}
          [] Family = "pair"      -> g \in {[d |-> <<a, b>>, sp |-> DefaultSp] : a \in Independent, b \in Independent}
          [] OTHER                -> g = [d |-> <<>>, sp |-> RandomElement(Sps)]
Next == Family = "random" /\ Len(g.d) < MaxBlocks /\ g' = [g EXCEPT !.d = Append(@, RandomElement(Simple \cup Containers \cup Singles))]
\* adjacent blocks that would merge or re-interpret each other are outside the unambiguous subset
Unambiguous(d) == \A i \in 1 .. (Len(d) - 1) :
   /\ ~(d[i].k = "list" /\ d[i + 1].k \in {"list", "indented"})                 \* a list followed by a list / indented text continues the list
   /\ ~(d[i].k = "indented" /\ d[i + 1].k = "indented")                         \* two indented blocks are one
   /\ ~(d[i].k = "quote" /\ d[i + 1].k = "quote")
   /\ ~(d[i].k = "para" /\ d[i + 1].k = "hr")                                   \* "---" under a paragraph is a Setext underline
Emit == (g.d # <<>> /\ Unambiguous(g.d)) => PrintT(ToJson([d |-> g.d, sp |-> g.sp, src |-> DocSrc(g.d, g.sp)]))
\* compositionality holds for the reference by construction; stated so that TLC checks the definition
CompLaw == \A m \in {"mmd", "compat"} : DocHtml(g.d, m, TRUE) = Cat([j \in 1 .. Len(g.d) |-> DocHtml(<<g.d[j]>>, m, TRUE)])
=============================================================================
