-------------------------------- MODULE Html --------------------------------
(* Property C03.  An executable reference for the HTML of the unambiguous Markdown / MultiMarkdown subset,        *)
(* written from the syntax guides (QuickStart, "Markdown Syntax"), not from html.c.                               *)
(* Abstract documents, every equivalent concrete spelling (Spell), the prescribed HTML (Render, in a canonical     *)
(* form without the line breaks between elements), and the compositionality law: independent blocks render to      *)
(* the concatenation of their renderings, whatever their order.                                                    *)
EXTENDS Integers, Sequences, FiniteSets, TLC, Json
CONSTANTS Sim, MaxBlocks, Family

RECURSIVE Cat(_), Rep(_, _), FoldSum(_)
FoldSum(q) == IF q = <<>> THEN 0 ELSE Head(q) + FoldSum(Tail(q))
Cat(ss) == IF ss = <<>> THEN "" ELSE Head(ss) \o Cat(Tail(ss))
Rep(c, n) == IF n <= 0 THEN "" ELSE c \o Rep(c, n - 1)
JoinWith(ss, sep) == Cat([i \in 1 .. Len(ss) |-> (IF i > 1 THEN sep ELSE "") \o ss[i]])

\* ---- inlines: each has a source spelling (depending on the emphasis marker style) and an HTML form ----------------
\* mode: "mmd" | "compat" ; smart: BOOLEAN (only meaningful in mmd mode)
Words == <<"alpha", "beta", "x1">>
Inl(k, a, b, c) == [k |-> k, a |-> a, b |-> b, c |-> c, x |-> ""]
Inl4(k, a, b, c, x) == [k |-> k, a |-> a, b |-> b, c |-> c, x |-> x]
\* document-level inlines: "ref" (reference link: a text, b url, c title, x label, "" = implicit [text][]), "fn" (footnote: a the word it hangs on,
\* b the note's source, c the note's HTML, x its label).  Their definitions are written after the last block (Trailer), notes in *reverse* order so that
\* numbering by first reference and numbering by definition order cannot be confused.
Upper(s) == IF s = "lab" THEN "Lab" ELSE s                       \* labels are case-insensitive: the reference spells it differently from the definition
InlSrc(i, us) ==      \* us: TRUE = underscore emphasis markers
  CASE i.k = "t"    -> i.a
    [] i.k = "em"   -> (IF us THEN "_" ELSE "*") \o i.a \o (IF us THEN "_" ELSE "*")
    [] i.k = "st"   -> (IF us THEN "__" ELSE "**") \o i.a \o (IF us THEN "__" ELSE "**")
    [] i.k = "code" -> "`" \o i.a \o "`"
    [] i.k = "link" -> "[" \o i.a \o "](" \o i.b \o (IF i.c # "" THEN " \"" \o i.c \o "\"" ELSE "") \o ")"
    [] i.k = "auto" -> "<" \o i.a \o ">"
    [] i.k = "img"  -> "![" \o i.a \o "](" \o i.b \o ")"
    [] i.k = "br"   -> i.a \o "  \n" \o i.b
    [] i.k = "esc"  -> "\\" \o i.a
    [] i.k = "ent"  -> i.a
    [] i.k = "sup"  -> i.a \o "^" \o i.b \o "^"
    [] i.k = "sub"  -> i.a \o "~" \o i.b \o "~"
    [] i.k = "lem"  -> "[" \o (IF us THEN "_" ELSE "*") \o i.a \o (IF us THEN "_" ELSE "*") \o "](" \o i.b \o ")"                 \* emphasis inside a link text
    [] i.k = "lst"  -> "[" \o (IF us THEN "__" ELSE "**") \o i.a \o (IF us THEN "__" ELSE "**") \o " " \o i.c \o "](" \o i.b \o ")"   \* strong + plain word inside a link text
    [] i.k = "lcode" -> "[`" \o i.a \o "`](" \o i.b \o ")"
    [] i.k = "emc"  -> (IF us THEN "_" ELSE "*") \o i.a \o " `" \o i.b \o "` " \o i.c \o (IF us THEN "_" ELSE "*")                \* code span inside emphasis
    [] i.k = "sem"  -> (IF us THEN "__" ELSE "**") \o i.a \o " " \o (IF us THEN "_" ELSE "*") \o i.b \o (IF us THEN "_" ELSE "*") \o " " \o i.c \o (IF us THEN "__" ELSE "**")
    [] i.k = "ref"  -> "[" \o i.a \o "][" \o Upper(i.x) \o "]"
    [] i.k = "fn"   -> i.a \o "[^" \o i.x \o "]"
    [] i.k = "math" -> (CASE i.x = "paren" -> "\\\\(" \o i.a \o "\\\\)" [] i.x = "brack" -> "\\\\[" \o i.a \o "\\\\]" [] i.x = "dollar" -> "$" \o i.a \o "$" [] OTHER -> "$$" \o i.a \o "$$")
    [] OTHER        -> i.a                      \* "smart": punctuation written plainly
Amp(s) == LET RECURSIVE A(_) A(j) == IF j > Len(s) THEN "" ELSE (IF SubSeq(s, j, j) = "&" THEN "&amp;" ELSE SubSeq(s, j, j)) \o A(j + 1) IN A(1)     \* "&" in an attribute value
RECURSIVE NoteNo(_, _, _)
NoteNo(notes, lab, j) == IF j > Len(notes) THEN 0 ELSE IF notes[j].x = lab THEN j ELSE NoteNo(notes, lab, j + 1)
InlHtml(i, cx) ==      \* cx = [mode, smart, notes]: notes = the document's footnotes in order of first reference
  CASE i.k = "t"    -> i.a
    [] i.k = "em"   -> "<em>" \o i.a \o "</em>"
    [] i.k = "st"   -> "<strong>" \o i.a \o "</strong>"
    [] i.k = "code" -> "<code>" \o Amp(i.a) \o "</code>"
    [] i.k = "link" -> "<a href=\"" \o i.b \o "\"" \o (IF i.c # "" THEN " title=\"" \o i.c \o "\"" ELSE "") \o ">" \o i.a \o "</a>"
    [] i.k = "auto" -> "<a href=\"" \o i.a \o "\">" \o i.a \o "</a>"
    [] i.k = "img"  -> "<img src=\"" \o i.b \o "\" alt=\"" \o i.a \o "\" />"
    [] i.k = "br"   -> i.a \o "<br />" \o i.b
    [] i.k = "esc"  -> i.a
    [] i.k = "ent"  -> i.b
    [] i.k = "sup"  -> IF cx.mode = "mmd" THEN i.a \o "<sup>" \o i.b \o "</sup>" ELSE i.a \o "^" \o i.b \o "^"
    [] i.k = "sub"  -> IF cx.mode = "mmd" THEN i.a \o "<sub>" \o i.b \o "</sub>" ELSE i.a \o "~" \o i.b \o "~"
    [] i.k = "lem"  -> "<a href=\"" \o i.b \o "\"><em>" \o i.a \o "</em></a>"
    [] i.k = "lst"  -> "<a href=\"" \o i.b \o "\"><strong>" \o i.a \o "</strong> " \o i.c \o "</a>"
    [] i.k = "lcode" -> "<a href=\"" \o i.b \o "\"><code>" \o i.a \o "</code></a>"
    [] i.k = "emc"  -> "<em>" \o i.a \o " <code>" \o i.b \o "</code> " \o i.c \o "</em>"
    [] i.k = "sem"  -> "<strong>" \o i.a \o " <em>" \o i.b \o "</em> " \o i.c \o "</strong>"
    [] i.k = "ref"  -> "<a href=\"" \o Amp(i.b) \o "\"" \o (IF i.c # "" THEN " title=\"" \o i.c \o "\"" ELSE "") \o ">" \o i.a \o "</a>"
    [] i.k = "fn"   -> LET n == ToString(NoteNo(cx.notes, i.x, 1)) IN
                       i.a \o "<a href=\"#fn:" \o n \o "\" id=\"fnref:" \o n \o "\" title=\"see footnote\" class=\"footnote\"><sup>" \o n \o "</sup></a>"
    [] i.k = "math" -> "<span class=\"math\">" \o (IF i.x \in {"paren", "dollar"} THEN "\\(" \o i.b \o "\\)" ELSE "\\[" \o i.b \o "\\]") \o "</span>"
    [] OTHER        -> IF cx.mode = "mmd" /\ cx.smart THEN i.b ELSE i.c       \* a: source, b: typographic form, c: plain form
Inlines == { Inl("t", "alpha", "", ""), Inl("em", "beta", "", ""), Inl("st", "x1", "", ""), Inl("code", "co de", "", ""),
             Inl("link", "alpha", "http://u.rl/p", ""), Inl("link", "beta", "http://u.rl/q?a=1", "ti tle"), Inl("auto", "http://a.b/c", "", ""),
             Inl("img", "alt", "i.png", ""), Inl("br", "x1", "beta", ""), Inl("esc", "*", "", ""), Inl("esc", "_", "", ""), Inl("esc", "#", "", ""),
             Inl("ent", "&copy;", "&copy;", ""), Inl("ent", "&", "&amp;", ""), Inl("ent", "<", "&lt;", ""), Inl("ent", "1 > 0", "1 &gt; 0", ""),
             Inl("sup", "x", "2", ""), Inl("sub", "H", "2", ""),
             Inl("smart", "\"alpha\"", "&#8220;alpha&#8221;", "&quot;alpha&quot;"), Inl("smart", "x1 -- beta", "x1 &#8211; beta", "x1 -- beta"),
             Inl("smart", "x1---beta", "x1&#8212;beta", "x1---beta"), Inl("smart", "alpha...", "alpha&#8230;", "alpha..."), Inl("smart", "it's", "it&#8217;s", "it's"),
             Inl("em", "b", "", ""), Inl("st", "s", "", ""), Inl("code", "c", "", ""), Inl("link", "l", "http://u.rl/p", ""), Inl("img", "x", "i.png", ""),      \* one-character contents
             Inl("smart", "3-fold", "3-fold", "3-fold"), Inl("smart", "well-known", "well-known", "well-known"), Inl("smart", "'alpha'", "&#8216;alpha&#8217;", "'alpha'") }
\* inlines inside inlines
NestInl == {Inl("lem", "beta", "http://u.rl/p", ""), Inl("lst", "x1", "http://u.rl/p", "alpha"), Inl("lcode", "co de", "http://u.rl/p", ""), Inl("emc", "alpha", "co de", "x1"), Inl("sem", "alpha", "beta", "x1")}
\* MultiMarkdown-only inlines (not compared in compatibility mode): math in its four spellings, reference links, footnotes
RefA == Inl4("ref", "alpha", "http://a.b/c", "", "alpha")           \* implicit label: written [alpha][]
RefB == Inl4("ref", "beta", "http://l.ab/x?p=1&q=2", "Ti tle", "lab")
FnA == Inl4("fn", "alpha", "first note", "first note", "na")
FnB == Inl4("fn", "x1", "second *note* & more", "second <em>note</em> &amp; more", "nb")
MathInl == {Inl4("math", m[1], m[2], "", x) : m \in {<<"x^2", "x^2">>, <<"a_1 *b* a_2 < c", "a_1 *b* a_2 &lt; c">>}, x \in {"paren", "brack", "dollar", "ddollar"}}
\* a note whose own text calls another note (which is called from nowhere else): the inner note is numbered -- and listed -- after every note the body calls
FnD == Inl4("fn", "see", "deep note", "deep note", "nd")
FnC == Inl4("fn", "beta", "third note see[^nd]", "", "nc")
Kids(n) == IF n.x = "nc" THEN <<FnD>> ELSE <<>>
MmdInlines == MathInl \cup {RefA, RefB, FnA, FnB}
LineSrc(il, us) == JoinWith([j \in 1 .. Len(il) |-> (IF il[j].k = "ref" /\ il[j].x = il[j].a THEN "[" \o il[j].a \o "][]" ELSE InlSrc(il[j], us))], " ")
LineHtml(il, cx) == JoinWith([j \in 1 .. Len(il) |-> InlHtml(il[j], cx)], " ")
\* heading id: the label of the heading text (lower case, letters and digits; our heading texts are words)
Label(il) == Cat([j \in 1 .. Len(il) |-> il[j].a])

\* ---- blocks ----------------------------------------------------------------------------------------------------------
\* spelling parameters sp: [us, bullet ("*" "+" "-"), lead (0..3 leading spaces), closed (ATX closing hashes: 0 none, 1 as many as opening, 2 two more, 3 a single one -- "the closing hashes need not match"), ul (setext underline length), fence (3..5), hr (1..3),
\*                          pipes (table rows written with outer pipes)]
NoT == [al |-> <<>>, hd |-> <<>>, rows |-> <<>>, cap |-> "", sp |-> <<>>]
B(k) == [k |-> k, l |-> 1, il |-> <<>>, s |-> <<>>, d |-> <<>>, o |-> FALSE, z |-> FALSE, info |-> "", t |-> NoT]
Para(il) == [B("para") EXCEPT !.il = il]
Atx(l, il) == [B("atx") EXCEPT !.l = l, !.il = il]
Setext(l, il) == [B("setext") EXCEPT !.l = l, !.il = il]
Hr == B("hr")
Fenced(info, s) == [B("fenced") EXCEPT !.info = info, !.s = s]
Indented(s) == [B("indented") EXCEPT !.s = s]
Quote(d) == [B("quote") EXCEPT !.d = d]
List(o, z, d) == [B("list") EXCEPT !.o = o, !.z = z, !.d = d]       \* d: one block per item
\* nested list: d = <<first, inner a, inner b, last>> (paragraphs); o/z describe the outer list, info = "o" for an ordered inner list (tight, indented by four spaces)
NList(o, z, io, d) == [B("nlist") EXCEPT !.o = o, !.z = z, !.info = IF io THEN "o" ELSE "u", !.d = d]
\* a list whose first item holds two paragraphs (which makes the list loose): d = <<first, continuation, last>>
PItem(o, d) == [B("pitem") EXCEPT !.o = o, !.d = d]
\* table: al = one alignment per column ("l" "c" "r" "n"), hd = header cells, rows = body rows, each cell an inline list; cap = caption word or ""
Table(al, hd, rows, cap) == [B("table") EXCEPT !.t = [al |-> al, hd |-> hd, rows |-> rows, cap |-> cap, sp |-> <<>>]]
\* sp = one sequence of widths per body row: cell j of row r spans sp[r][j] columns (written with that many pipes after it: "| x || y |")
SpanTable(al, hd, rows, sp) == [B("table") EXCEPT !.t = [al |-> al, hd |-> hd, rows |-> rows, cap |-> "", sp |-> sp]]
\* definition list: t.rows = groups, each group <<terms, definitions>>, both sequences of inline lists
DefList(groups) == [B("deflist") EXCEPT !.t = [NoT EXCEPT !.rows = groups]]

RECURSIVE BlockSrc(_, _), DocSrc(_, _), BlockHtml(_, _), DocHtml(_, _), Prefix(_, _, _), Collect(_), CollectB(_)
\* prefix every line of a text (lines end in \n); first is used for the first line
Prefix(text, first, rest) ==
  LET RECURSIVE P(_, _)
      P(i, atStart) == IF i > Len(text) THEN ""
                       ELSE LET ch == SubSeq(text, i, i) IN
                            (IF atStart THEN (IF i = 1 THEN first ELSE (IF ch = "\n" THEN (IF rest = "> " THEN ">" ELSE "") ELSE rest)) ELSE "") \o ch \o P(i + 1, ch = "\n")
  IN P(1, TRUE)
HrSrc(n) == CASE n = 1 -> "* * *" [] n = 2 -> "---" [] OTHER -> "_ _ _ _"
AlSrc(a) == CASE a = "l" -> ":--" [] a = "c" -> ":-:" [] a = "r" -> "--:" [] OTHER -> "---"
RowSrc(cells, pipes) == (IF pipes THEN "| " ELSE "") \o JoinWith(cells, " | ") \o (IF pipes THEN " |" ELSE "") \o "\n"
TableSrc(t, sp) == LET pipes == sp.pipes \/ t.al[1] \in {"l", "c"} \/ Len(t.al) = 1 \/ t.sp # <<>> IN        \* a row starting with ':' or having no inner pipe needs the outer ones
  RowSrc([j \in 1 .. Len(t.hd) |-> LineSrc(t.hd[j], sp.us)], pipes)
  \o (IF pipes THEN "|" ELSE "") \o JoinWith([j \in 1 .. Len(t.al) |-> AlSrc(t.al[j])], "|") \o (IF pipes THEN "|" ELSE "") \o "\n"
  \o Cat([r \in 1 .. Len(t.rows) |-> IF t.sp = <<>> THEN RowSrc([j \in 1 .. Len(t.rows[r]) |-> LineSrc(t.rows[r][j], sp.us)], pipes)
                                       ELSE "|" \o Cat([j \in 1 .. Len(t.rows[r]) |-> " " \o LineSrc(t.rows[r][j], sp.us) \o " " \o Rep("|", t.sp[r][j])]) \o "\n"])
  \o (IF t.cap # "" THEN "[" \o t.cap \o "]\n" ELSE "")
BlockSrc(b, sp) ==
  CASE b.k = "para"     -> LineSrc(b.il, sp.us) \o "\n"
    [] b.k = "atx"      -> Rep("#", b.l) \o " " \o LineSrc(b.il, sp.us) \o (CASE sp.closed = 0 -> "" [] sp.closed = 1 -> " " \o Rep("#", b.l) [] sp.closed = 2 -> " " \o Rep("#", b.l + 2) [] OTHER -> " #") \o "\n"
    [] b.k = "setext"   -> LineSrc(b.il, sp.us) \o "\n" \o Rep(IF b.l = 1 THEN "=" ELSE "-", sp.ul) \o "\n"
    [] b.k = "hr"       -> HrSrc(sp.hr) \o "\n"
    [] b.k = "fenced"   -> Rep("`", sp.fence) \o b.info \o "\n" \o Cat([j \in 1 .. Len(b.s) |-> b.s[j].a \o "\n"]) \o Rep("`", sp.fence) \o "\n"
    [] b.k = "indented" -> Cat([j \in 1 .. Len(b.s) |-> "    " \o b.s[j].a \o "\n"])
    [] b.k = "quote"    -> Prefix(DocSrc(b.d, sp), "> ", "> ")
    [] b.k = "nlist"    -> LET om(j) == IF b.o THEN ToString(j) \o ". " ELSE sp.bullet \o " "
                               im(j) == IF b.info = "o" THEN ToString(j) \o ". " ELSE sp.bullet \o " " IN
                           om(1) \o LineSrc(b.d[1].il, sp.us) \o "\n" \o (IF b.z THEN "\n" ELSE "")
                           \o "    " \o im(1) \o LineSrc(b.d[2].il, sp.us) \o "\n" \o "    " \o im(2) \o LineSrc(b.d[3].il, sp.us) \o "\n" \o (IF b.z THEN "\n" ELSE "")
                           \o om(2) \o LineSrc(b.d[4].il, sp.us) \o "\n"
    [] b.k = "pitem"    -> LET om(j) == IF b.o THEN ToString(j) \o ". " ELSE sp.bullet \o " " IN
                           om(1) \o LineSrc(b.d[1].il, sp.us) \o "\n\n    " \o LineSrc(b.d[2].il, sp.us) \o "\n\n" \o om(2) \o LineSrc(b.d[3].il, sp.us) \o "\n"
    [] b.k = "table"    -> TableSrc(b.t, sp)
    [] b.k = "deflist"  -> JoinWith([g \in 1 .. Len(b.t.rows) |->
                                 Cat([j \in 1 .. Len(b.t.rows[g][1]) |-> LineSrc(b.t.rows[g][1][j], sp.us) \o "\n"])
                                 \o Cat([j \in 1 .. Len(b.t.rows[g][2]) |-> ": " \o LineSrc(b.t.rows[g][2][j], sp.us) \o "\n"])], "\n")
    [] OTHER            -> Cat([j \in 1 .. Len(b.d) |->
                                 Prefix(BlockSrc(b.d[j], sp), Rep(" ", sp.lead) \o (IF b.o THEN ToString(j) \o ". " ELSE sp.bullet \o " "), "    ")
                                 \o (IF b.z /\ j < Len(b.d) THEN "\n" ELSE "")])
DocSrc(d, sp) == JoinWith([j \in 1 .. Len(d) |-> BlockSrc(d[j], sp)], "\n")
\* the document-level inlines of a document, in document order
CollectIl(il) == SelectSeq(il, LAMBDA i : i.k \in {"ref", "fn"})
CatSeq(ss) == LET RECURSIVE C(_) C(j) == IF j > Len(ss) THEN <<>> ELSE ss[j] \o C(j + 1) IN C(1)
CollectB(b) == CASE b.k \in {"para", "atx", "setext"} -> CollectIl(b.il)
                 [] b.k \in {"quote", "list", "nlist", "pitem"} -> Collect(b.d)
                 [] b.k = "table" -> CatSeq([j \in 1 .. Len(b.t.hd) |-> CollectIl(b.t.hd[j])]) \o CatSeq([r \in 1 .. Len(b.t.rows) |-> CatSeq([j \in 1 .. Len(b.t.rows[r]) |-> CollectIl(b.t.rows[r][j])])])
                 [] b.k = "deflist" -> CatSeq([g \in 1 .. Len(b.t.rows) |-> CatSeq([j \in 1 .. Len(b.t.rows[g][1]) |-> CollectIl(b.t.rows[g][1][j])]) \o CatSeq([j \in 1 .. Len(b.t.rows[g][2]) |-> CollectIl(b.t.rows[g][2][j])])])
                 [] OTHER -> <<>>
Collect(d) == CatSeq([j \in 1 .. Len(d) |-> CollectB(d[j])])
Dedup(s) == LET RECURSIVE D(_, _) D(j, acc) == IF j > Len(s) THEN acc ELSE D(j + 1, IF \E q \in 1 .. Len(acc) : acc[q].x = s[j].x THEN acc ELSE Append(acc, s[j])) IN D(1, <<>>)
\* notes in order of first call: those the body calls, then those first called from the text of a listed note (found while the list is written)
CloseNotes(ns) == LET RECURSIVE C(_, _) C(j, acc) == IF j > Len(acc) THEN acc ELSE C(j + 1, acc \o SelectSeq(Kids(acc[j]), LAMBDA k : ~\E q \in 1 .. Len(acc) : acc[q].x = k.x)) IN C(1, ns)
Notes(d) == CloseNotes(Dedup(SelectSeq(Collect(d), LAMBDA i : i.k = "fn")))
Refs(d) == Dedup(SelectSeq(Collect(d), LAMBDA i : i.k = "ref"))
Reverse(s) == [j \in 1 .. Len(s) |-> s[Len(s) + 1 - j]]
\* definitions after the last block: notes in reverse order of first reference, then link definitions (title in double quotes)
Trailer(d) == LET ns == Reverse(Notes(d)) rs == Refs(d) IN
  (IF Len(ns) + Len(rs) > 0 THEN "\n" ELSE "")
  \o Cat([j \in 1 .. Len(ns) |-> "[^" \o ns[j].x \o "]: " \o ns[j].b \o "\n"])
  \o Cat([j \in 1 .. Len(rs) |-> "[" \o rs[j].x \o "]: " \o rs[j].b \o (IF rs[j].c # "" THEN " \"" \o rs[j].c \o "\"" ELSE "") \o "\n"])
FullSrc(d, sp) == DocSrc(d, sp) \o Trailer(d)
\* code lines: a = source, b = HTML
CodeLines == { [a |-> "plain code", b |-> "plain code"], [a |-> "a < b && c", b |-> "a &lt; b &amp;&amp; c"], [a |-> "*not em* `tick`", b |-> "*not em* `tick`"] }
Item(b, loose, cx) == IF b.k = "para" /\ ~loose THEN LineHtml(b.il, cx) ELSE BlockHtml(b, cx)
AlStyle(a) == CASE a = "l" -> " style=\"text-align:left;\"" [] a = "c" -> " style=\"text-align:center;\"" [] a = "r" -> " style=\"text-align:right;\"" [] OTHER -> ""
RowHtml(tag, cells, al, cx) == "<tr>" \o Cat([j \in 1 .. Len(cells) |-> "<" \o tag \o AlStyle(al[j]) \o ">" \o LineHtml(cells[j], cx) \o "</" \o tag \o ">"]) \o "</tr>"
\* a cell takes the alignment of the COLUMN it starts in (the widths of the cells before it added up), and says how many columns it covers
ColOf(spans, j) == 1 + FoldSum([i \in 1 .. (j - 1) |-> spans[i]])
SpanRowHtml(cells, spans, al, cx) == "<tr>" \o Cat([j \in 1 .. Len(cells) |-> "<td" \o AlStyle(al[ColOf(spans, j)]) \o (IF spans[j] > 1 THEN " colspan=\"" \o ToString(spans[j]) \o "\"" ELSE "") \o ">"
                                                       \o LineHtml(cells[j], cx) \o "</td>"]) \o "</tr>"
TableHtml(t, cx) ==
  "<table" \o (IF t.cap # "" THEN " id=\"" \o t.cap \o "\"" ELSE "") \o ">"
  \o (IF t.cap # "" THEN "<caption style=\"caption-side: bottom;\">" \o t.cap \o "</caption>" ELSE "")
  \o "<colgroup>" \o Cat([j \in 1 .. Len(t.al) |-> IF t.al[j] = "n" THEN "<col />" ELSE "<col" \o AlStyle(t.al[j]) \o "/>"]) \o "</colgroup>"
  \o "<thead>" \o RowHtml("th", t.hd, t.al, cx) \o "</thead>"
  \o "<tbody>" \o Cat([r \in 1 .. Len(t.rows) |-> IF t.sp = <<>> THEN RowHtml("td", t.rows[r], t.al, cx) ELSE SpanRowHtml(t.rows[r], t.sp[r], t.al, cx)]) \o "</tbody></table>"
BlockHtml(b, cx) ==
  CASE b.k = "para"     -> IF cx.mode = "mmd" /\ Len(b.il) = 1 /\ b.il[1].k = "img"
                           THEN "<figure>" \o InlHtml(b.il[1], cx) \o "<figcaption>" \o b.il[1].a \o "</figcaption></figure>"      \* an image alone in a paragraph is a figure (MMD)
                           ELSE "<p>" \o LineHtml(b.il, cx) \o "</p>"
    [] b.k \in {"atx", "setext"} -> "<h" \o ToString(b.l) \o (IF cx.mode = "mmd" THEN " id=\"" \o Label(b.il) \o "\"" ELSE "") \o ">" \o LineHtml(b.il, cx) \o "</h" \o ToString(b.l) \o ">"
    [] b.k = "hr"       -> "<hr />"
    [] b.k = "fenced"   -> "<pre><code" \o (IF b.info # "" THEN " class=\"" \o b.info \o "\"" ELSE "") \o ">" \o Cat([j \in 1 .. Len(b.s) |-> b.s[j].b \o "\n"]) \o "</code></pre>"
    [] b.k = "indented" -> "<pre><code>" \o Cat([j \in 1 .. Len(b.s) |-> b.s[j].b \o "\n"]) \o "</code></pre>"
    [] b.k = "quote"    -> "<blockquote>" \o DocHtml(b.d, cx) \o "</blockquote>"
    [] b.k = "nlist"    -> LET ot == IF b.o THEN "ol" ELSE "ul"  it == IF b.info = "o" THEN "ol" ELSE "ul" IN
                           "<" \o ot \o "><li>" \o Item(b.d[1], b.z, cx) \o "<" \o it \o "><li>" \o LineHtml(b.d[2].il, cx) \o "</li><li>" \o LineHtml(b.d[3].il, cx) \o "</li></" \o it \o "></li><li>"
                           \o Item(b.d[4], b.z, cx) \o "</li></" \o ot \o ">"
    [] b.k = "pitem"    -> LET ot == IF b.o THEN "ol" ELSE "ul" IN
                           "<" \o ot \o "><li>" \o BlockHtml(b.d[1], cx) \o BlockHtml(b.d[2], cx) \o "</li><li>" \o BlockHtml(b.d[3], cx) \o "</li></" \o ot \o ">"
    [] b.k = "table"    -> TableHtml(b.t, cx)
    [] b.k = "deflist"  -> "<dl>" \o Cat([g \in 1 .. Len(b.t.rows) |->
                                 Cat([j \in 1 .. Len(b.t.rows[g][1]) |-> "<dt>" \o LineHtml(b.t.rows[g][1][j], cx) \o "</dt>"])
                                 \o Cat([j \in 1 .. Len(b.t.rows[g][2]) |-> "<dd>" \o LineHtml(b.t.rows[g][2][j], cx) \o "</dd>"])]) \o "</dl>"
    [] OTHER            -> (IF b.o THEN "<ol>" ELSE "<ul>") \o Cat([j \in 1 .. Len(b.d) |-> "<li>" \o Item(b.d[j], b.z, cx) \o "</li>"]) \o (IF b.o THEN "</ol>" ELSE "</ul>")
DocHtml(d, cx) == Cat([j \in 1 .. Len(d) |-> BlockHtml(d[j], cx)])
Cx(d, mode, smart) == [mode |-> mode, smart |-> smart, notes |-> Notes(d)]
\* the footnotes follow the body, numbered in order of first reference, each with its way back
NotesHtml(d, cx) == IF cx.notes = <<>> THEN "" ELSE
  "<div class=\"footnotes\"><hr /><ol>"
  \o Cat([j \in 1 .. Len(cx.notes) |-> "<li id=\"fn:" \o ToString(j) \o "\"><p>" \o (IF cx.notes[j].x = "nc" THEN "third note " \o InlHtml(FnD, cx) ELSE cx.notes[j].c)
          \o " <a href=\"#fnref:" \o ToString(j) \o "\" title=\"return to body\" class=\"reversefootnote\">&#160;&#8617;&#xfe0e;</a></p></li>"])
  \o "</ol></div>"
FullHtml(d, mode, smart) == LET cx == Cx(d, mode, smart) IN DocHtml(d, cx) \o NotesHtml(d, cx)

\* ---- generation ---------------------------------------------------------------------------------------------------------
Pick(S) == IF Sim THEN {RandomElement(S)} ELSE S
T(a) == Inl("t", a, "", "")
T1(a) == <<T(a)>>
EmB == <<Inl("em", "beta", "", "")>>
HeadTexts == {<<T("alpha")>>, <<T("alpha"), T("beta")>>, <<T("x1")>>, <<T("alpha-")>>, <<T("beta"), T("x1-")>>}
ParaLines == {<<i>> : i \in Inlines \cup MmdInlines \cup NestInl} \cup {<<T("alpha"), i, T("x1")>> : i \in (Inlines \cup MmdInlines \cup NestInl) \ {Inl("br", "x1", "beta", "")}}
             \cup {<<FnB, T("beta"), FnA>>, <<RefB, RefA, RefB>>, <<FnA, RefA>>}
Leaf == {Para(<<T("alpha")>>), Para(<<Inl("em", "beta", "", ""), T("x1")>>)}
WrapLeaf == Para(<<Inl("br", "x1", "beta", "")>>)
NestLeaf == {Para(<<Inl("lst", "x1", "http://u.rl/p", "alpha")>>), Para(<<T("beta"), Inl("emc", "alpha", "co de", "x1")>>)}
MmdLeaf == {Para(<<FnA>>), Para(<<RefB, T("x1")>>)}
Cells == {<<Inl("lem", "beta", "http://u.rl/p", "")>>, <<Inl("code", "a & b", "", "")>>, <<T("alpha")>>, <<Inl("em", "beta", "", "")>>, <<Inl("code", "co de", "", "")>>, <<Inl("ent", "&", "&amp;", ""), T("x1")>>, <<Inl("link", "alpha", "http://u.rl/p", "")>>, <<RefB>>, <<Inl("st", "x1", "", ""), T("beta")>>}
Als == {<<"l", "c", "r">>, <<"n", "n">>, <<"c">>, <<"n", "r">>, <<"r", "n", "l">>}
RowsFor(n) == {<<[j \in 1 .. n |-> c]>> : c \in Cells} \cup {<<[j \in 1 .. n |-> <<T("x1")>>], [j \in 1 .. n |-> IF j = 1 THEN c ELSE <<T("beta")>>]>> : c \in Cells}
Tables == UNION {{Table(al, [j \in 1 .. Len(al) |-> IF j = 2 THEN <<Inl("em", "beta", "", "")>> ELSE <<T("alpha")>>], rows, cap) : rows \in RowsFor(Len(al)), cap \in {"", "caption"}} : al \in Als}
\* rows whose cells cover several columns, in every position of the row (alignments chosen so that a cell counted by position instead of by column shows)
SpanTables == {SpanTable(al, [j \in 1 .. Len(al) |-> <<T("alpha")>>], << [j \in 1 .. Len(w) |-> IF j = 1 THEN c ELSE <<T("beta")>>] >>, <<w>>) :
                 al \in {<<"l", "c", "r">>, <<"r", "n", "l">>}, w \in {<<2, 1>>, <<1, 2>>, <<3>>, <<1, 1, 1>>}, c \in {<<T("x1")>>, <<Inl("em", "beta", "", "")>>}}
              \cup {SpanTable(<<"l", "c", "r", "n">>, [j \in 1 .. 4 |-> <<T("alpha")>>], << <<T1("x1"), T1("beta"), T1("alpha")>>, <<T1("x1"), T1("beta")>> >>, <<w1, w2>>) :
                      w1 \in {<<2, 1, 1>>, <<1, 2, 1>>, <<1, 1, 2>>}, w2 \in {<<3, 1>>, <<2, 2>>, <<1, 3>>}}
DefTexts == {<<T("alpha")>>, <<Inl("em", "beta", "", ""), T("x1")>>, <<Inl("code", "co de", "", "")>>, <<RefA>>, <<T("x1"), Inl("ent", "<", "&lt;", "")>>}
Grp(terms, defs) == <<terms, defs>>
DefLists == {DefList(<<Grp(<<t>>, <<d1>>)>>) : t \in DefTexts, d1 \in DefTexts}
            \cup {DefList(<<Grp(<<T1("alpha"), T1("x1")>>, <<d1, d2>>)>>) : d1 \in DefTexts, d2 \in DefTexts}
            \cup {DefList(<<Grp(<<T1("alpha")>>, <<T1("beta")>>), Grp(<<t>>, <<d1>>)>>) : t \in DefTexts, d1 \in {T1("x1"), <<Inl("st", "x1", "", "")>>}}
\* verbatim lines whose white space matters: two trailing blanks, then a line indented by one blank
TrailSp == [a |-> "if x:  ", b |-> "if x:  "]
LeadSp == [a |-> " y = 1", b |-> " y = 1"]
\* a paragraph with very many unmatched '<' before an ordinary link (the pairing engine changes strategy beyond 1000 pending openers)
RECURSIVE RepInl(_, _)
RepInl(i, n) == IF n = 0 THEN <<>> ELSE <<i>> \o RepInl(i, n - 1)
BigParas == {Para(RepInl(Inl("ent", "1 < 2", "1 &lt; 2", ""), n) \o tail) : n \in {998, 999, 1000, 1001, 1400},
               tail \in {<<Inl("link", "alpha", "http://u.rl/p", "")>>, <<Inl("em", "beta", "", ""), Inl("img", "alt", "i.png", ""), Inl("auto", "http://a.b/c", "", "")>>}}
Singles == {Para(p) : p \in ParaLines} \cup {Fenced("", <<TrailSp, LeadSp>>), Fenced("c", <<LeadSp, TrailSp, LeadSp>>), Indented(<<TrailSp, LeadSp>>)} \cup {Atx(l, h) : l \in {1, 2, 3, 6}, h \in HeadTexts} \cup {Setext(l, h) : l \in {1, 2}, h \in HeadTexts} \cup {Hr}
           \cup {Fenced(i, <<c>>) : i \in {"", "c"}, c \in CodeLines} \cup {Fenced("", <<c1, c2>>) : c1 \in CodeLines, c2 \in CodeLines} \cup {Indented(<<c>>) : c \in CodeLines}
           \cup Tables \cup SpanTables \cup DefLists
Simple == {Para(<<T("alpha")>>), Para(<<Inl("st", "x1", "", ""), T("beta")>>), Atx(2, <<T("beta")>>), Setext(1, <<T("x1")>>), Hr,
           Fenced("", <<[a |-> "plain code", b |-> "plain code"]>>), Indented(<<[a |-> "a < b && c", b |-> "a &lt; b &amp;&amp; c"]>>)}
SomeTable == Table(<<"n", "r">>, <<T1("alpha"), T1("beta")>>, << <<EmB, T1("x1")>> >>, "")

SomeDl == DefList(<<Grp(<<T1("alpha")>>, << <<T("x1"), T("beta")>> >>)>>)
\* (a table inside a block quote is not in the documented subset: the guides show tables at the top level only, and the library reads '> | a | b |' as text)
Containers == {Quote(<<c>>) : c \in Simple \cup MmdLeaf \cup {SomeDl}} \cup {Quote(<<c1, c2>>) : c1 \in Leaf, c2 \in Simple}
              \cup {List(o, z, <<a, b>>) : o \in BOOLEAN, z \in BOOLEAN, a \in Leaf \cup MmdLeaf \cup NestLeaf, b \in Leaf} \cup {List(o, FALSE, <<a>>) : o \in BOOLEAN, a \in Leaf}
              \cup {Quote(<<List(FALSE, FALSE, <<a, b>>)>>) : a \in Leaf, b \in Leaf \cup MmdLeaf}
              \* items whose first paragraph runs over two source lines (the second one indented under the first): tight and loose, bulleted and numbered
              \cup {List(o, z, <<WrapLeaf, b>>) : o \in BOOLEAN, z \in BOOLEAN, b \in Leaf} \cup {List(o, TRUE, <<WrapLeaf, WrapLeaf, a>>) : o \in BOOLEAN, a \in Leaf \cup {WrapLeaf}}
              \cup {NList(o, z, io, <<a, b, Para(<<T("x1")>>), Para(<<T("beta")>>)>>) : o \in BOOLEAN, z \in BOOLEAN, io \in BOOLEAN, a \in Leaf, b \in Leaf \cup NestLeaf}
              \cup {PItem(o, <<a, b, Para(<<T("x1")>>)>>) : o \in BOOLEAN, a \in Leaf, b \in Leaf \cup MmdLeaf}
Independent == Simple \cup {Quote(<<c>>) : c \in Leaf} \cup {SomeTable, SomeDl}        \* blocks that do not refer to one another: the compositionality family
\* documents whose notes and references interleave: numbering by first reference, definitions shared
NoteDocs == {<<Para(<<a>>), b, Para(<<c>>)>> : a \in {FnB, RefB}, b \in {Hr, SomeTable, Quote(<<Para(<<FnA>>)>>)}, c \in {FnA, FnB, RefA, RefB}}
            \cup {<<Para(<<a>>), b, Para(<<c>>)>> : a \in {FnC, FnB}, b \in {Hr, Quote(<<Para(<<FnA>>)>>)}, c \in {FnC, RefA}}
            \cup {<<Para(<<FnC>>)>>, <<List(FALSE, TRUE, <<Para(<<FnC>>), Para(<<FnA>>)>>)>>}
Sps == {[us |-> u, bullet |-> bl, lead |-> ld, closed |-> cl, ul |-> n, fence |-> f, hr |-> h, pipes |-> pp] :
          u \in Pick(BOOLEAN), bl \in Pick({"*", "+", "-"}), ld \in Pick({0, 2}), cl \in Pick(0 .. 3), n \in Pick({2, 7}), f \in Pick({3, 5}), h \in Pick({1, 2, 3}), pp \in Pick(BOOLEAN)}
DefaultSp == [us |-> FALSE, bullet |-> "*", lead |-> 0, closed |-> 0, ul |-> 5, fence |-> 3, hr |-> 1, pipes |-> TRUE]
\* spelling variants that matter for a block kind (to keep the enumeration small)
SpFor(b) == CASE b.k = "para" -> {[DefaultSp EXCEPT !.us = u] : u \in BOOLEAN}
              [] b.k = "atx" -> {[DefaultSp EXCEPT !.closed = c] : c \in 0 .. 3}
              [] b.k = "setext" -> {[DefaultSp EXCEPT !.ul = n] : n \in {1, 2, 3, 12}}
              [] b.k = "hr" -> {[DefaultSp EXCEPT !.hr = h] : h \in {1, 2, 3}}
              [] b.k = "fenced" -> {[DefaultSp EXCEPT !.fence = f] : f \in {3, 4, 5}}
              [] b.k = "list" -> {[DefaultSp EXCEPT !.bullet = bl, !.lead = ld] : bl \in {"*", "+", "-"}, ld \in {0, 1, 3}}
              [] b.k \in {"nlist", "pitem"} -> {[DefaultSp EXCEPT !.bullet = bl] : bl \in {"*", "-"}}
              [] b.k = "table" -> {[DefaultSp EXCEPT !.pipes = pp] : pp \in BOOLEAN}
              [] OTHER -> {DefaultSp}
VARIABLE g
Init == CASE Family = "single"    -> g \in UNION {{[d |-> <<b>>, sp |-> s] : s \in SpFor(b)} : b \in Singles \cup Containers}
          [] Family = "pair"      -> g \in {[d |-> <<a, b>>, sp |-> DefaultSp] : a \in Independent, b \in Independent}
          [] Family = "notes"     -> g \in {[d |-> d, sp |-> DefaultSp] : d \in NoteDocs}
          [] Family = "big"       -> g \in {[d |-> <<b>>, sp |-> DefaultSp] : b \in BigParas} \cup {[d |-> <<Para(<<T("alpha")>>), b>>, sp |-> DefaultSp] : b \in BigParas}
          [] OTHER                -> g = [d |-> <<>>, sp |-> RandomElement(Sps)]
Next == Family = "random" /\ Len(g.d) < MaxBlocks /\ g' = [g EXCEPT !.d = Append(@, RandomElement(Simple \cup Containers \cup Singles))]
\* adjacent blocks that would merge or re-interpret each other are outside the unambiguous subset
Unambiguous(d) == \A i \in 1 .. (Len(d) - 1) :
   /\ ~(d[i].k \in {"list", "nlist", "pitem"} /\ d[i + 1].k \in {"list", "nlist", "pitem", "indented"})                 \* a list followed by a list / indented text continues the list
   /\ ~(d[i].k = "indented" /\ d[i + 1].k = "indented")                         \* two indented blocks are one
   /\ ~(d[i].k = "quote" /\ d[i + 1].k = "quote")
   /\ ~(d[i].k = "para" /\ d[i + 1].k = "hr")                                   \* "---" under a paragraph is a Setext underline
   /\ ~(d[i].k = "table" /\ d[i + 1].k = "table")                               \* a table after a table is a further section of it
   /\ ~(d[i].k = "deflist" /\ d[i + 1].k \in {"deflist", "indented"})           \* further terms / continuation of the definition
   /\ ~(d[i].k = "table" /\ d[i + 1].k = "para" /\ Len(d[i + 1].il) = 1 /\ d[i + 1].il[1].k = "ref")      \* "[text][label]" after a table is its caption
\* a note referred to twice is outside the subset (which of the references carries the id is not prescribed)
NoDupNotes(d) == LET f == SelectSeq(Collect(d), LAMBDA i : i.k = "fn") IN Len(f) = Len(Dedup(f))
Emit == (g.d # <<>> /\ Unambiguous(g.d) /\ NoDupNotes(g.d)) => PrintT(ToJson([d |-> g.d, sp |-> g.sp, src |-> FullSrc(g.d, g.sp)]))
\* compositionality holds for the reference by construction; stated so that TLC checks the definition
CompLaw == \A m \in {"mmd", "compat"} : DocHtml(g.d, Cx(g.d, m, TRUE)) = Cat([j \in 1 .. Len(g.d) |-> DocHtml(<<g.d[j]>>, Cx(g.d, m, TRUE))])
=============================================================================
