------------------------- MODULE TokenPairsRealTrace -------------------------
EXTENDS TokenPairsTrace, RealPairings
=============================================================================
