------------------------------ MODULE Utf8Gen ------------------------------
(* Generator for C16: every code point of interest at every character position of every construct spelling        *)
(* (incl. first / last byte of the source and end of input without a newline), optionally a second one next to it. *)
EXTENDS Utf8
CONSTANTS Sim
Templates == <<
  "plain text here", "# Heading #", "Heading\n=====", "*em* and **strong**", "_em_ __strong__", "`code span`", "[text](http://u.rl/p \"title\")", "![alt](img.png \"ti\")",
  "[ref][] and [r2]\n\n[ref]: http://x \"T\"\n[r2]: y", "> quoted line", "* item one\n* item two", "1. first\n2. second", "| a | b |\n|---|:-:|\n| c | d |\n[cap]",
  "Title: value\nAuthor: me\n\nbody [%title]", "fn[^f] cite[#c]\n\n[^f]: note\n\n[#c]: cite", "x^sup^ y~sub~", "\"dq\" 'sq' -- --- ...", "<http://auto.link/x>", "two  \nhard\\\nbreaks",
  "{++add++}{--del--}{~~a~>b~~}{>>c<<}{==h==}", "$x+y$ \\\\(z\\\\)", "term\n: definition", "```lang\ncode\n```", "    indented code", "[>ab]: Abbr\n\nab here", "{{TOC}}\n\n# One\n\n## Two [lbl]",
  "<div>html</div>\n\n<!-- c -->", "a &amp; b &#x41; &copy;", "\\*esc\\* \\[b\\]", "[?g]: gloss\n\n[?g]", "- - -\n\n***",
  "![alt](img.png width=\"50px\" height=2cm)", "Title: value\nAuthor: me", "![i][r] [l][r]\n\n[r]: p.png \"T\" width=40px class=\"c\"", "Key: v\nOther Key: w\n\n# h [%key]",
  "[a](<http://e.org/c) and ![i](<p.png \"t\")", "[a](<http://e.org/c>) [r]\n\n[r]: <http://e.org/d",
  \* metadata the package documents of EPUB / OpenDocument quote (dates, identifiers, names): a character at every byte offset of the value
  "Title: T\nDate: 2026 10 1 x\nAuthor: A B\nuuid: id 1\nCopyright: c\nLanguage: en\n\nbody",
  \* CriticMarkup inside CriticMarkup (the accept / reject passes edit the text in place, from the back)
  "a {~~ab~>x{++y++}z~~} b {++c{--d--}e++} f {==g{>>h<<}==} i",
  \* an outline as the library's own OPML export spells white space (read with the OPML import switched on): a character next to every reference
  "<opml version=\"1.0\"><body><outline text=\"T\" _note=\"a&#9;b&#10;c&#13;d&amp;e\"/></body></opml>",
  \* numeric character references that name no character (surrogates, beyond U+10FFFF, zero, non-characters) in text, destinations, titles, definitions: an
  \* all-ASCII source is valid input whatever its references say
  "[a](http://x/&#xD800;) &#xDFFF; &#55296; <http://x/&#xDC00;>", "![i](p&#xD800;.png \"t&#xDBFF;\") [r] &#x110000; &#0;\n\n[r]: http://y/&#xD900;&#xFFFE; \"T&#xD800;\"" >>
VARIABLE c
Pick(S) == IF Sim THEN {RandomElement(S)} ELSE S
Cases == {[t |-> t, p |-> p, cp |-> n, cp2 |-> "", nl |-> nl] : t \in Pick(1 .. Len(Templates)), p \in 0 .. 90, n \in Pick(DOMAIN CPs), nl \in Pick(BOOLEAN)}
GInit == w = <<>> /\ c \in {x \in Cases : x.p <= Len(Templates[x.t])}
GNext == Sim /\ UNCHANGED w /\ c' \in {[t |-> t, p |-> p, cp |-> n, cp2 |-> n2, nl |-> nl] : t \in Pick(1 .. Len(Templates)), p \in Pick(0 .. 60), n \in Pick(DOMAIN CPs), n2 \in Pick(DOMAIN CPs), nl \in Pick(BOOLEAN)}
Emit == (c.p <= Len(Templates[c.t])) => PrintT(ToJson([t |-> c.t, p |-> c.p, cp |-> c.cp, cp2 |-> c.cp2, nl |-> c.nl, pre |-> SubSeq(Templates[c.t], 1, c.p), post |-> SubSeq(Templates[c.t], c.p + 1, Len(Templates[c.t]))]))
=============================================================================
