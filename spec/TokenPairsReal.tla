--------------------------- MODULE TokenPairsReal ---------------------------
(* TokenPairs over the pairing tables of a real engine (RealPairings is generated from the running library):    *)
(* cfg: Table <- RealStd3 etc.  Same transition system, same invariants, same trace module.                      *)
EXTENDS TokenPairs, RealPairings
=============================================================================
