---------------------------- MODULE LemonParser ----------------------------
(* Line-by-line model of the lemon driver in parser.c (Parse, yy_find_shift_action incl. the %fallback       *)
(* loop, yy_find_reduce_action, yy_shift, yy_reduce's stack effect, stack overflow, the no-YYERRORSYMBOL     *)
(* error branch) over the action tables EXTRACTED from the tree under test (ParserTables, generated).         *)
(* Property C02, parser half: from every reachable parser stack every realizable line kind is consumed        *)
(* without a syntax error, parse failure or stack overflow, and end of input is accepted.  The reachable      *)
(* stack space is finite and TLC explores all of it, so the result holds for documents of any length.         *)
EXTENDS Integers, Sequences, FiniteSets, TLC, ParserTables

\* Line kinds the tokenizer / line classifier can hand to the parser: every terminal except the three
\* pseudo-kinds that exist only as %fallback targets or as re-typings inside reduce actions.
Realizable == (1 .. (NTERMINALS - 1)) \ {LINE_CONTINUATION, LINE_FALLBACK, LINE_BACKTICK}

VARIABLES stack,    \* sequence of <<state, major>>; stack[1] = <<0, 0>> is the bottom entry (yystack[0])
          status,   \* "run" | "accepted" | "syntaxError" | "failed" | "overflow"
          fed,      \* tokens consumed by this parser instance
          lastTok, lastRules   \* ghosts: last token fed, rules reduced while consuming it
vars == <<stack, status, fed, lastTok, lastRules>>

A(i)  == yy_action[i + 1]
LA(i) == yy_lookahead[i + 1]
Top(s) == s[Len(s)][1]

\* yy_find_shift_action, including the %fallback loop; returns <<action, sequence of fallback steps taken>>
RECURSIVE FindShift(_, _, _)
FindShift(state, la, fb) ==
  IF state >= YY_MIN_REDUCE THEN <<state, fb>>
  ELSE LET i == yy_shift_ofst[state + 1] + la IN
       IF i < 0 \/ i >= YY_ACTTAB_COUNT \/ LA(i) # la
       THEN IF la < Len(yyFallback) /\ yyFallback[la + 1] # 0
            THEN FindShift(state, yyFallback[la + 1], Append(fb, yyFallback[la + 1]))
            ELSE <<yy_default[state + 1], fb>>
       ELSE <<A(i), fb>>

\* yy_find_reduce_action (no YYERRORSYMBOL: the C code only asserts that the lookup hits)
ReduceLookupOK(state, lhs) ==
  LET i == yy_reduce_ofst[state + 1] + lhs IN
  state <= YY_REDUCE_COUNT /\ i >= 0 /\ i < YY_ACTTAB_COUNT /\ LA(i) = lhs
FindReduce(state, lhs) == A(yy_reduce_ofst[state + 1] + lhs)

ShiftTarget(act) == IF act > YY_MAX_SHIFT THEN act + (YY_MIN_REDUCE - YY_MIN_SHIFTREDUCE) ELSE act

\* One call of Parse(major): reduce until the token is shifted, or error.  Returns <<stack, outcome, rules, fallbacks>>.
RECURSIVE Drive(_, _, _, _)
Drive(s, major, rules, fbs) ==
  LET fs  == FindShift(Top(s), major, <<>>)
      act == fs[1]
      fb2 == fbs \o fs[2] IN
  IF act <= YY_MAX_SHIFTREDUCE THEN
       IF Len(s) + 1 > YYSTACKDEPTH THEN <<(<< <<0, 0>> >>), "overflow", rules, fb2>>        \* yy_shift: yytos >= &yystack[YYSTACKDEPTH]
       ELSE <<Append(s, <<ShiftTarget(act), major>>), "shifted", rules, fb2>>
  ELSE IF act <= YY_MAX_REDUCE THEN
       LET r   == act - YY_MIN_REDUCE
           n   == rule_nrhs[r + 1]
           s2  == SubSeq(s, 1, Len(s) - n)
           lhs == rule_lhs[r + 1] IN
       IF n = 0 /\ Len(s) >= YYSTACKDEPTH THEN <<(<< <<0, 0>> >>), "overflow", Append(rules, r), fb2>> \* yy_reduce: yytos >= &yystack[YYSTACKDEPTH-1]
       ELSE IF ~ReduceLookupOK(Top(s2), lhs) THEN <<s2, "assertFail", Append(rules, r), fb2>>
       ELSE LET a == FindReduce(Top(s2), lhs) IN
            IF a = YY_ACCEPT_ACTION THEN <<s2, "accepted", Append(rules, r), fb2>>
            ELSE IF a > YY_MAX_SHIFTREDUCE THEN <<s2, "assertFail", Append(rules, r), fb2>>
            ELSE Drive(Append(s2, <<ShiftTarget(a), lhs>>), major, Append(rules, r), fb2)
  ELSE <<s, "error", rules, fb2>>

Init == stack = << <<0, 0>> >> /\ status = "run" /\ fed = 0 /\ lastTok = 0 /\ lastRules = <<>>

Feed(k) ==
  /\ status = "run"
  /\ LET r == Drive(stack, k, <<>>, <<>>) IN
     /\ stack' = r[1]
     /\ status' = CASE r[2] = "shifted"  -> "run"
                    [] r[2] = "error"    -> "syntaxError"      \* token dropped: part of the document is lost
                    [] r[2] = "overflow" -> "overflow"         \* whole stack popped: the front of the document is lost
                    [] OTHER             -> "failed"
     /\ lastRules' = r[3]
  /\ fed' = fed + 1 /\ lastTok' = k

FeedEOF ==
  /\ status = "run" /\ fed >= 1
  /\ LET r == Drive(stack, 0, <<>>, <<>>) IN
     /\ stack' = r[1]
     /\ status' = IF r[2] = "accepted" THEN "accepted" ELSE IF r[2] = "overflow" THEN "overflow" ELSE "failed"
     /\ lastRules' = r[3]
  /\ UNCHANGED fed /\ lastTok' = 0

Next == (\E k \in Realizable : Feed(k)) \/ FeedEOF
Spec == Init /\ [][Next]_vars

\* the parser's behaviour does not depend on fed beyond fed >= 1; ghosts are not part of the state
View == <<stack, status, IF fed >= 1 THEN 1 ELSE 0>>

NeverRejects == status \notin {"syntaxError", "failed", "overflow"}
StackBounded == Len(stack) <= YYSTACKDEPTH
AcceptsAtEOF == (status = "run" /\ fed >= 1) => Drive(stack, 0, <<>>, <<>>)[2] = "accepted"
=============================================================================
