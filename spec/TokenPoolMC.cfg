CONSTANTS SlabSize = 2
          Docs = {1, 2, 3}
          Need <- NeedMC
          Engines = {1, 2}
          MaxHist = 10
          KeepHist = TRUE
          Defect_CountOnlyFirstInit = FALSE
          Defect_NoResetOnDrain = FALSE
INIT Init
NEXT Next
INVARIANTS SlotInRange NoDangling ReleasedAtOutermostDrain CleanStart CleanAfterFree CounterAgrees IndInv
VIEW View
CHECK_DEADLOCK FALSE
