------------------------------- MODULE Critic -------------------------------
(* Property C12.  An edit script is a sequence of items: text, addition, deletion, substitution, comment,      *)
(* highlight (additions, deletions and highlights may contain items again) and -- at top level only -- one     *)
(* unmatched marker.  Src, Accept and Reject are three serialisers of the same script; accept/reject of a       *)
(* sub-range applies the edit to the items inside the range only.                                               *)
EXTENDS Integers, Sequences, FiniteSets, TLC, Json
CONSTANTS Sim, Big

Txt(s)    == [t |-> "txt", s |-> s, c |-> <<>>, o |-> "", n |-> ""]
Add(c)    == [t |-> "add", s |-> "", c |-> c, o |-> "", n |-> ""]
Del(c)    == [t |-> "del", s |-> "", c |-> c, o |-> "", n |-> ""]
Hi(c)     == [t |-> "hi",  s |-> "", c |-> c, o |-> "", n |-> ""]
Sub(o, n) == [t |-> "sub", s |-> "", c |-> <<>>, o |-> o, n |-> n]
Com(s)    == [t |-> "com", s |-> s, c |-> <<>>, o |-> "", n |-> ""]
Stray(m)  == [t |-> "stray", s |-> m, c |-> <<>>, o |-> "", n |-> ""]

RECURSIVE Src(_), Accept(_), Reject(_), SrcI(_), AccI(_), RejI(_)
SrcI(i) == CASE i.t = "txt" -> i.s [] i.t = "add" -> "{++" \o Src(i.c) \o "++}" [] i.t = "del" -> "{--" \o Src(i.c) \o "--}"
             [] i.t = "hi" -> "{==" \o Src(i.c) \o "==}" [] i.t = "sub" -> "{~~" \o i.o \o "~>" \o i.n \o "~~}"
             [] i.t = "com" -> "{>>" \o i.s \o "<<}" [] OTHER -> i.s
AccI(i) == CASE i.t = "txt" -> i.s [] i.t = "add" -> Accept(i.c) [] i.t = "del" -> "" [] i.t = "hi" -> Accept(i.c)
             [] i.t = "sub" -> i.n [] i.t = "com" -> "" [] OTHER -> i.s          \* an unmatched marker is left untouched
RejI(i) == CASE i.t = "txt" -> i.s [] i.t = "add" -> "" [] i.t = "del" -> Reject(i.c) [] i.t = "hi" -> Reject(i.c)
             [] i.t = "sub" -> i.o [] i.t = "com" -> "" [] OTHER -> i.s
Src(sc)    == IF sc = <<>> THEN "" ELSE SrcI(Head(sc)) \o Src(Tail(sc))
Accept(sc) == IF sc = <<>> THEN "" ELSE AccI(Head(sc)) \o Accept(Tail(sc))
Reject(sc) == IF sc = <<>> THEN "" ELSE RejI(Head(sc)) \o Reject(Tail(sc))
\* items from+1 .. to are inside the range
Ranged(sc, from, to, acc) == Src(SubSeq(sc, 1, from)) \o (IF acc THEN Accept(SubSeq(sc, from + 1, to)) ELSE Reject(SubSeq(sc, from + 1, to))) \o Src(SubSeq(sc, to + 1, Len(sc)))

\* ---- generation -------------------------------------------------------------------------------------------
Texts == IF Big THEN {"a", "b c", "\\{x\\}", " ", "\n\n", ""} ELSE {"a", " b", "\n\n"}
Leaves == {Txt(s) : s \in Texts \ {""}} \cup {Com(s) : s \in {"note", ""}} \cup {Sub(o, n) : o \in {"old", ""}, n \in {"new", ""}}
SeqUpTo(S, n) == UNION {[1 .. k -> S] : k \in 0 .. n}
Inner == SeqUpTo(Leaves, IF Big THEN 2 ELSE 1)
Marks1 == {Add(c) : c \in Inner} \cup {Del(c) : c \in Inner} \cup {Hi(c) : c \in Inner}
Inner2 == {<<m>> : m \in Marks1} \cup {<<Txt("a"), m>> : m \in Marks1} \cup {<<m, Txt("z")>> : m \in Marks1}
Marks2 == {Add(c) : c \in Inner2} \cup {Del(c) : c \in Inner2} \cup {Hi(c) : c \in Inner2}
Strays == {Stray(m) : m \in {"~>", "{++", "++}", "{>>", "<<}", "==}", "{--", "~~}"}}
RECURSIVE RepS(_, _)
RepS(m, n) == IF n = 0 THEN "" ELSE m \o RepS(m, n - 1)
\* a long run of one unmatched opening marker (the pairing engine changes strategy when more than 1000 openers are pending): o records the marker
StrayRun(m, n) == [t |-> "stray", s |-> RepS(m \o " ", n), c |-> <<>>, o |-> m, n |-> ""]
Family(m) == CASE m \in {"{++", "++}"} -> "add" [] m \in {"{--", "--}"} -> "del" [] m \in {"{>>", "<<}"} -> "com" [] m \in {"==}", "{=="} -> "hi" [] OTHER -> "sub"
RECURSIVE Kinds(_)
Kinds(sc) == IF sc = <<>> THEN {} ELSE {Head(sc).t} \cup Kinds(Head(sc).c) \cup Kinds(Tail(sc))
\* a stray marker must really be unmatched: only one per script, and no mark of its family anywhere in the script
StrayOK(sc) == LET st == {i \in 1 .. Len(sc) : sc[i].t = "stray"} IN
               /\ Cardinality(st) <= 1
               /\ \A i \in st : Family(IF sc[i].o # "" THEN sc[i].o ELSE sc[i].s) \notin Kinds(sc)
\* two text items side by side are one text; an empty script is nothing
Shape(sc) == /\ sc # <<>> /\ \A i \in 1 .. (Len(sc) - 1) : ~(sc[i].t = "txt" /\ sc[i + 1].t = "txt")
\* text that ends in a partial marker (top level only: inside a mark it would be ambiguous with the closing marker)
Edgy == {Txt(s) : s \in {"C++", "x--", "y~~", "e==", "q<<", "{+", "{"}}
\* backslash escapes of marker characters inside either half of a substitution (the half that is discarded is erased piece by piece), and inside comments
EscSubs == {Sub("o \\{x\\} d", "new"), Sub("old", "n \\+\\- w"), Sub("\\~\\>", "\\="), Sub("a\\}", "b\\{"), Com("c \\< \\> d")}
EscMarks == {Add(<<e>>) : e \in EscSubs} \cup {Hi(<<Txt("h "), e>>) : e \in EscSubs} \cup {Del(<<e, Txt("\\-")>>) : e \in EscSubs}
Top == Leaves \cup Marks1 \cup Strays \cup Edgy \cup EscSubs \cup EscMarks
RECURSIVE RandSeq(_, _)
RandSeq(S, n) == IF n = 0 THEN <<>> ELSE <<RandomElement(S)>> \o RandSeq(S, n - 1)
RandScript(dummy) == RandSeq(Top \cup Marks2, RandomElement(1 .. 5))

DeepScripts == {<<StrayRun("{==", n), Del(<<Txt("gone")>>), Add(<<Txt("kept")>>), Sub("old", "new"), Com("note"), Txt(" end")>> : n \in {3, 999, 1000, 1001, 1500}}
               \cup {<<Txt("a "), StrayRun("{++", n), Sub("old", "new"), Txt(" "), Hi(<<Txt("hi"), Del(<<Txt("x")>>)>>)>> : n \in {998, 1000, 1002}}
               \cup {<<StrayRun("{>>", n), Add(<<Txt("b c")>>)>> : n \in {1000, 2500}}
VARIABLE sc
InitDeep == sc \in DeepScripts
Init == IF Sim THEN sc = RandScript(0) ELSE sc \in {s \in SeqUpTo(Top, 2) \cup {<<m>> : m \in Marks2} : Shape(s) /\ StrayOK(s)}
Next == Sim /\ sc' = RandScript(sc)
\* laws of the specification itself
Idempotent == Accept(<<Txt(Accept(sc))>>) = Accept(sc) /\ Reject(<<Txt(Reject(sc))>>) = Reject(sc)
WholeIsRange == Ranged(sc, 0, Len(sc), TRUE) = Accept(sc) /\ Ranged(sc, 0, 0, TRUE) = Src(sc)
Emit == (Shape(sc) /\ StrayOK(sc)) => PrintT(ToJson([sc |-> sc, src |-> Src(sc)]))
=============================================================================
