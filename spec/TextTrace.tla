----------------------------- MODULE TextTrace -----------------------------
(* Trace validation for C04 (and the skeleton relation of C08).                                                    *)
EXTENDS TextModel, IOUtils
Tr == ndJsonDeserialize(IOEnv.TRACE)
VARIABLE l
TInit == l = 1 /\ g = <<>>
TNext == /\ l <= Len(Tr) /\ l' = l + 1 /\ UNCHANGED g
         /\ LET r == Tr[l] IN
            CASE r.e = "reset" -> TRUE
              [] r.e = "esc"   -> /\ ~r.null
                                  /\ r.count = r.basecount                                         \* the text is carried exactly as often as plain text in that position is
                                  /\ (r.visible => r.count >= 1)                                   \* ... which is at least once where the format shows that position at all
                                  /\ \A i \in 1 .. Len(r.segs) : r.segs[i] \in Allowed(r.fmt, r.slot, r.ch)   \* and only in an escaped form of the target
              [] r.e = "edge"  -> ~r.null /\ r.valid /\ r.count = r.basecount /\ (r.visible => r.count >= 1)   \* the first / last character of a text is carried whole, as often as a digit in its place
              [] r.e = "order" -> ~r.null /\ r.words = Order(r.ks, r.fmt)                          \* every word once, in the order the format prescribes
              [] r.e = "nest"  -> r.parsed /\ Dyck(r.events)                                       \* everything opened is closed, in order
              [] r.e = "rawres" -> ~r.null /\ r.leftover = <<>>                                   \* a delimiter that found no partner is text: no reserved character of the target is left bare
              [] r.e = "xml"   -> /\ r.wellformed                                                  \* C08: parses as XML ...
                                  /\ (r.hasbase => r.skeleton = r.baseskeleton)                    \* ... and the text did not change the element structure
                                  /\ (r.hasbase => r.found)                                        \* ... and is found, unescaped by the parser, as the character itself
              [] OTHER -> FALSE
TraceAccepted == TLCGet("stats").diameter = Len(Tr) + 1
=============================================================================
