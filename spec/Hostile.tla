------------------------------- MODULE Hostile -------------------------------
(* Input-space generator for C01 (memory-safe, crash-free conversion).  TLA+ cannot state "no undefined        *)
(* behaviour"; what the specification contributes here is the INPUT SPACE and the monitor: documents are        *)
(* built from a block context, two fragments drawn from the families the property names (unterminated           *)
(* constructs, attribute lists, wide tables, line-ending mixes, invalid UTF-8, ...; the byte table is           *)
(* tools/hostile_frags.py, indexed as here) and a terminator; every pair of fragments in every context is       *)
(* enumerated; extension sets cover every pair of the 17 extension bits in all four polarities.                 *)
EXTENDS Integers, Sequences, FiniteSets, TLC, Json
CONSTANTS NFrags, NCtx, NTerm, NBits, Sim, Mode
VARIABLE c
Pick(S) == IF Sim THEN {RandomElement(S)} ELSE S
DocCases == {[ctx |-> x, f1 |-> a, f2 |-> b, term |-> t] : x \in Pick(1 .. NCtx), a \in Pick(1 .. NFrags), b \in Pick(1 .. NFrags), t \in Pick(1 .. NTerm)}
\* pairwise covering of the extension bits: for every pair of bits and every polarity one set with the other bits at a fixed background
RECURSIVE Pow2(_)
Pow2(n) == IF n = 0 THEN 1 ELSE 2 * Pow2(n - 1)
Bit(i) == Pow2(i)
ExtCases == {[i |-> i, j |-> j, vi |-> vi, vj |-> vj, bg |-> bg] : i \in 0 .. (NBits - 2), j \in 1 .. (NBits - 1), vi \in {0, 1}, vj \in {0, 1}, bg \in {0, 1}}
ExtValue(e) == LET base == IF e.bg = 1 THEN Pow2(NBits) - 1 ELSE 0
                   clear == base - (IF e.bg = 1 THEN Bit(e.i) + Bit(e.j) ELSE 0) IN
               clear + e.vi * Bit(e.i) + e.vj * Bit(e.j)
Init == IF Mode = "docs" THEN c \in DocCases ELSE c \in {e \in ExtCases : e.i < e.j}
Next == Sim /\ Mode = "docs" /\ c' \in DocCases
Emit == PrintT(ToJson(IF Mode = "docs" THEN c ELSE [ext |-> ExtValue(c)]))
EmitInv == Emit
=============================================================================
