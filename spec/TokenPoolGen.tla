---------------------------- MODULE TokenPoolGen ----------------------------
EXTENDS TokenPool, Json
NeedMC == <<1, 3, 5>>
View == <<exists, count, depth, slabs, nextSlot, held, stale>>
Emit == (Len(hist) = MaxHist) => PrintT(ToJson(hist))
\* only histories that end with everything given back (what main.c does) are emitted when Closed is used
EmitClosed == (Len(hist) = MaxHist /\ ~exists) => PrintT(ToJson(hist))
=============================================================================
