------------------------------ MODULE NotesTrace ------------------------------
(* Trace validation for C10: the href/id structure projected from the real HTML must be the structure the Notes     *)
(* specification prescribes.  Under random anchors (--random / --unique) the numbers are renamed by an injective     *)
(* function that must be the same at calls, entry ids and back-links.                                                *)
EXTENDS Notes, IOUtils
Tr == ndJsonDeserialize(IOEnv.TRACE)
VARIABLE l
TInit == l = 1 /\ doc = [ev |-> <<>>, heads |-> <<>>, toc |-> FALSE, tocr |-> FALSE, table |-> FALSE, nest |-> "plain", nested |-> FALSE, base |-> 0, capsp |-> FALSE, cross |-> FALSE]
\* observed: calls = <<kind, shown, hasid>>, entries[kind] = <<shown id, backref or "">>
Renaming(exp, obs) ==       \* obs is exp with numbers renamed injectively (identity when anchors are not random)
  /\ Len(exp) = Len(obs)
  /\ \A i \in 1 .. Len(exp) : exp[i][1] = obs[i][1] /\ exp[i][3] = obs[i][3]
  /\ \A i, j \in 1 .. Len(exp) : exp[i][1] = exp[j][1] => ((exp[i][2] = exp[j][2]) <=> (obs[i][2] = obs[j][2]))
RhoOf(exp, obs, k, n) == LET hits == {i \in 1 .. Len(exp) : exp[i][1] = k /\ exp[i][2] = n} IN
                         IF hits = {} THEN "" ELSE obs[CHOOSE i \in hits : TRUE][2]
EntriesOKd(d, r, k, random, drop) ==          \* drop: that many entries at the end of the expected list may be missing (0 everywhere but in the deviation below)
  LET exp == SubSeq(Entries(d, k), 1, Len(Entries(d, k)) - drop) obs == r.entries[k] cexp == Calls(d) IN
  /\ Len(obs) = Len(exp)
  /\ \A n \in 1 .. Len(exp) :
       LET shown == IF random THEN (IF exp[n][2] THEN RhoOf(cexp, r.calls, k, n) ELSE obs[n][1]) ELSE ToString(n) IN
       /\ obs[n][1] = shown                                         \* the entry carries the id the calls link to
       /\ (exp[n][2] => obs[n][2] = shown)                          \* and links back to the first call ("not cited" entries have no call to return to)
  /\ \A m, n \in 1 .. Len(obs) : m # n => obs[m][1] # obs[n][1]
\* ---- what the code is known to do instead (KNOWN_FINDINGS.txt, C10): named deviations, accepted here and reported by the check for every event that takes one ----
\* random heading ids, but automatic cross-references still carry the title-derived label (exactly the default rendering's references)
XrefByTitle(r) == r.xrefs = Xrefs(r.doc)
\* a heading with a manual label before other headings: the table of contents numbers the later headings differently from the body
TocOutOfStep(r) == /\ \E i \in 1 .. Len(r.doc.heads) : r.doc.heads[i].manual
                   /\ r.doc.toc /\ Len(r.toc) = Len(TocOf(r.doc, r.hids))
EntriesOK(d, r, k, random) == EntriesOKd(d, r, k, random, 0)
\* (KNOWN_FINDINGS.txt, C10) a footnote first called from inside a glossary entry: the footnote list has been written by then, the call's entry never appears
NoteCalledFromLaterList(r) == LET d == r.doc IN CrossCall(d) /\ ~UsesL(d, "fn", "b") /\ EntriesOKd(D2(d), r, "fn", r.random, 1)
TNext == /\ l <= Len(Tr) /\ l' = l + 1 /\ UNCHANGED doc
         /\ LET r == Tr[l] IN
            IF r.e = "reset" THEN TRUE
            ELSE /\ r.e = "anchors" /\ r.src = Src(r.doc)
                 /\ Renaming(Calls(D2(r.doc)), r.calls)
                 /\ (~r.random => \A i \in 1 .. Len(r.calls) : r.calls[i][2] = ToString(Calls(D2(r.doc))[i][2]))
                 /\ \A k \in Kinds : EntriesOK(D2(r.doc), r, k, r.random) \/ (k = "fn" /\ NoteCalledFromLaterList(r))
                 /\ r.tids = (IF r.doc.table THEN <<TableId(r.doc)>> ELSE <<>>)                               \* the id placed on the captioned table (never random)
                 /\ (r.labels => /\ r.hids = HeadIds(r.doc)                                                  \* the id placed on each heading
                                 /\ (r.doc.toc => r.toc = TocOf(r.doc, HeadIds(r.doc)))                                    \* every TOC entry points at it
                                 /\ r.xrefs = Xrefs(r.doc))                                                   \* and so does every automatic cross-reference
                 /\ (r.unique => /\ Len(r.hids) = Len(r.doc.heads)
                                 /\ ((r.doc.toc => r.toc = TocOf(r.doc, r.hids)) \/ TocOutOfStep(r))                       \* renamed consistently
                                 /\ ((\A i \in 1 .. Len(r.xrefs) : r.xrefs[i] = TableId(r.doc) \/ \E j \in 1 .. Len(r.hids) : r.xrefs[i] = r.hids[j]) \/ XrefByTitle(r)))
TraceAccepted == TLCGet("stats").diameter = Len(Tr) + 1
=============================================================================
