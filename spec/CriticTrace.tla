----------------------------- MODULE CriticTrace -----------------------------
(* Trace validation for C12: the text the real mmd_critic_markup_accept/reject(_range) leaves in the DString    *)
(* must be the serialisation the Critic specification prescribes, and applying the operation again must change  *)
(* nothing.                                                                                                      *)
EXTENDS Critic, IOUtils
Tr == ndJsonDeserialize(IOEnv.TRACE)
VARIABLE l
TInit == l = 1 /\ sc = <<>>
TNext == /\ l <= Len(Tr) /\ l' = l + 1 /\ UNCHANGED sc
         /\ LET r == Tr[l] IN
            IF r.e = "reset" THEN TRUE
            ELSE /\ r.e = "critic"
                 /\ r.src = Src(r.sc)                                         \* the harness edited exactly the text the spec spells
                 /\ r.start = Len(Src(SubSeq(r.sc, 1, r.from))) /\ r.len = Len(Src(SubSeq(r.sc, r.from + 1, r.to)))
                 /\ r.text = Ranged(r.sc, r.from, r.to, r.op = "acc")         \* byte for byte
                 /\ ((r.from = 0 /\ r.to = Len(r.sc)) => r.twice = r.text)     \* idempotent (whole-string operations are applied twice)
                 /\ r.strlen = Len(r.text)
TraceAccepted == TLCGet("stats").diameter = Len(Tr) + 1
=============================================================================
