CONSTANTS SlabSize = 1024
          Docs = {0}
          Need <- NeedT
          Engines = {1, 2}
          MaxHist = 1000000000
          KeepHist = FALSE
          Defect_CountOnlyFirstInit = FALSE
          Defect_NoResetOnDrain = FALSE
INIT TInit
NEXT TNext
INVARIANT Inv
POSTCONDITION TraceAccepted
CHECK_DEADLOCK FALSE
