------------------------------ MODULE TextModel ------------------------------
(* Properties C04 and C08: what every output format must carry of a document's text, and how.                     *)
(*  - Slots: the text positions the property names, as templates with one hole.                                    *)
(*  - Chars: the characters reserved in some target (and their literal Markdown spelling).                         *)
(*  - Allowed[target class][char]: the escaped forms under which a reserved character may appear in that target.   *)
(*  - Block documents with numbered words and the order in which each format must show them (notes relocated).     *)
(*  - Dyck: proper nesting of the markup a writer wraps around the text (elements / environments / groups).        *)
EXTENDS Integers, Sequences, FiniteSets, TLC, Json

\* ---- slots: name, template (hole = @), class of the hole, whether the hole is verbatim ------------------------------
Slots == <<
  [n |-> "para",      t |-> "@\n",                                   v |-> FALSE],
  [n |-> "heading",   t |-> "# @ #\n",                               v |-> FALSE],
  [n |-> "setext",    t |-> "@\n=====\n",                            v |-> FALSE],
  [n |-> "item",      t |-> "* one\n* @\n",                          v |-> FALSE],
  [n |-> "quote",     t |-> "> @\n",                                 v |-> FALSE],
  [n |-> "cell",      t |-> "| h | k |\n|---|---|\n| c | @ |\n",     v |-> FALSE],
  [n |-> "linktext",  t |-> "[@](http://u.rl/)\n",                   v |-> FALSE],
  [n |-> "title",     t |-> "[t](http://u.rl/ \"@\")\n",             v |-> TRUE],      \* link titles are taken literally
  [n |-> "alt",       t |-> "![@](i.png)\n",                         v |-> FALSE],
  [n |-> "footnote",  t |-> "x[^n]\n\n[^n]: @\n",                    v |-> FALSE],
  [n |-> "strong",    t |-> "**@**\n",                               v |-> FALSE],
  [n |-> "deflist",   t |-> "term\n: @\n",                           v |-> FALSE],
  [n |-> "meta",      t |-> "Title: @\n\nbody\n",                    v |-> TRUE],     \* metadata values are not Markdown: characters are written as themselves
  [n |-> "codespan",  t |-> "a `@` b\n",                             v |-> TRUE],
  [n |-> "codeblock", t |-> "```\n@\n```\n",                         v |-> TRUE],
  [n |-> "indented",  t |-> "    @\n",                               v |-> TRUE],
  \* text that reaches the output through a second emission site
  [n |-> "caption",   t |-> "| h |\n|---|\n| c |\n[@]\n",             v |-> FALSE],
  [n |-> "dterm",     t |-> "@\n: definition\n",                     v |-> FALSE],
  [n |-> "tochead",   t |-> "{{TOC}}\n\n# @ #\n\ntext\n",             v |-> FALSE],
  [n |-> "citation",  t |-> "x[#c]\n\n[#c]: @\n",                     v |-> FALSE],
  [n |-> "glossary",  t |-> "x[?term]\n\n[?term]: @\n",               v |-> FALSE],
  [n |-> "abbrev",    t |-> "[>ab]: @\n\nab here\n",                  v |-> TRUE],      \* an abbreviation's expansion is taken literally
  [n |-> "inlinenote", t |-> "x[^@] y\n",                             v |-> FALSE],
  [n |-> "emph",      t |-> "*@*\n",                                  v |-> FALSE],
  \* addresses and image titles (an address cannot contain blanks: the run is written without them -- see Run)
  \* a metadata value that runs on over lines that look like the start of a block (a quote, a list item, a table row)
  [n |-> "metaquote", t |-> "Title: first\n> @\n\nbody\n",             v |-> TRUE],
  [n |-> "metalist",  t |-> "Title: first\n* @\n\nbody\n",             v |-> TRUE],
  [n |-> "metapipe",  t |-> "Title: first\nx | @\n\nbody\n",           v |-> TRUE],
  [n |-> "imgtitle",  t |-> "![a](i.png \"@\")\n",                    v |-> TRUE],
  [n |-> "url",       t |-> "[t](http://u.rl/?q=@)\n",                v |-> TRUE],
  [n |-> "imgurl",    t |-> "![a](i.png?q=@)\n",                      v |-> TRUE] >>
\* ---- characters: name, Markdown spelling in text, in verbatim -------------------------------------------------------
Chars == <<
  [n |-> "amp", c |-> "&", s |-> "&"], [n |-> "lt", c |-> "<", s |-> "<"], [n |-> "gt", c |-> ">", s |-> ">"], [n |-> "quot", c |-> "\"", s |-> "\""],
  [n |-> "apos", c |-> "'", s |-> "'"], [n |-> "bslash", c |-> "\\", s |-> "\\\\"], [n |-> "lbrace", c |-> "{", s |-> "{"], [n |-> "rbrace", c |-> "}", s |-> "}"],
  [n |-> "dollar", c |-> "$", s |-> "$"], [n |-> "percent", c |-> "%", s |-> "%"], [n |-> "hash", c |-> "#", s |-> "#"], [n |-> "under", c |-> "_", s |-> "_"],
  [n |-> "caret", c |-> "^", s |-> "^"], [n |-> "tilde", c |-> "~", s |-> "~"], [n |-> "bar", c |-> "|", s |-> "\\|"], [n |-> "letter", c |-> "x", s |-> "x"] >>
Mark == "QZQ"
\* the text run put into a hole: marker, space, character, space, marker (spaces keep the character out of Markdown's way)
Run(ci, verbatim) == Mark \o " " \o (IF verbatim THEN Chars[ci].c ELSE Chars[ci].s) \o " " \o Mark
TightRun(ci) == Mark \o Chars[ci].c \o Mark
Tight(slot) == slot \in {"url", "imgurl"}
Fill(t, r) == LET i == CHOOSE k \in 1 .. Len(t) : SubSeq(t, k, k) = "@" IN SubSeq(t, 1, i - 1) \o r \o SubSeq(t, i + 1, Len(t))
DocOf(si, ci) == Fill(Slots[si].t, IF Tight(Slots[si].n) THEN TightRun(ci) ELSE Run(ci, Slots[si].v))

\* ---- escaping: the forms under which a character may appear in the raw output of a target -----------------------------
XmlEsc(c) == CASE c = "&" -> {"&amp;", "&#38;"} [] c = "<" -> {"&lt;", "&#60;"} [] c = ">" -> {"&gt;", "&#62;"} [] c = "\"" -> {"&quot;", "&#34;"} [] c = "'" -> {"'", "&apos;", "&#39;"} [] OTHER -> {c}
XmlAttrEsc(c) == CASE c = "&" -> {"&amp;"} [] c = "<" -> {"&lt;"} [] c = ">" -> {"&gt;"} [] c = "\"" -> {"&quot;"} [] c = "'" -> {"'", "&apos;"} [] OTHER -> {c}
TexEsc(c) == CASE c = "\\" -> {"\\textbackslash{}", "\\textbackslash "} [] c = "{" -> {"\\{"} [] c = "}" -> {"\\}"} [] c = "$" -> {"\\$"} [] c = "%" -> {"\\%"}
               [] c = "&" -> {"\\&"} [] c = "#" -> {"\\#"} [] c = "_" -> {"\\_"} [] c = "^" -> {"\\^{}", "\\textasciicircum{}"} [] c = "~" -> {"\\ensuremath{\\sim}", "\\textasciitilde{}", "\\~{}"}
               [] c = "|" -> {"|", "\\textbar{}"} [] c = "\"" -> {"\"", "''", "``"} [] c = "<" -> {"<", "$<$"} [] c = ">" -> {">", "$>$"} [] OTHER -> {c}
\* verbatim environments of LaTeX reproduce the source characters themselves
Allowed(fmt, slot, c) ==
  CASE fmt \in {"html", "fodt"} -> (IF slot \in {"title", "alt", "imgtitle", "url", "imgurl"} THEN XmlAttrEsc(c) \cup XmlEsc(c) ELSE XmlEsc(c))
    [] fmt = "opml" -> XmlAttrEsc(c) \cup {"\\" \o c}                                 \* source spans live in attributes
    [] fmt \in {"latex", "beamer", "memoir"} -> (IF slot \in {"codeblock", "indented"} THEN {c} ELSE IF slot \in {"url", "imgurl"} THEN TexEsc(c) \cup {c} ELSE TexEsc(c))   \* (\href and \includegraphics take the address as it is)
    [] OTHER -> {c}
Reserved(fmt) == IF fmt \in {"latex", "beamer", "memoir"} THEN {"\\", "{", "}", "$", "%", "&", "#", "_", "^", "~"} ELSE {"&", "<", ">", "\""}

\* ---- block documents with numbered words ----------------------------------------------------------------------------
Kinds == {"para", "heading", "h1", "h3", "h4", "list", "quote", "table", "note", "nested", "code", "codel", "link", "emph", "tspan", "tcont", "undefref"}
Need(k) == IF k = "tcont" THEN 4 ELSE IF k \in {"list", "table", "nested", "tspan"} THEN 2 ELSE 1            \* words a block shows
RECURSIVE Wd(_), BlockSrc(_, _), DocSrc(_, _), WordsOf(_, _, _), NoteWords(_, _)
Wd(i) == "W" \o ToString(i) \o "W"
BlockSrc(k, n) ==
  CASE k = "para" -> Wd(n) \o " text\n\n" [] k = "heading" -> "## " \o Wd(n) \o "\n\n" [] k = "h1" -> "# " \o Wd(n) \o "\n\n" [] k = "h3" -> "### " \o Wd(n) \o "\n\n" [] k = "h4" -> "#### " \o Wd(n) \o "\n\n"
    [] k = "nested" -> "call[^f" \o ToString(n) \o "] after\n\n[^f" \o ToString(n) \o "]: " \o Wd(n) \o " inner[^g" \o ToString(n) \o "]\n\n[^g" \o ToString(n) \o "]: " \o Wd(n + 1) \o "\n\n" [] k = "list" -> "* " \o Wd(n) \o "\n* " \o Wd(n + 1) \o "\n\n"
    [] k = "quote" -> "> " \o Wd(n) \o "\n\n" [] k = "table" -> "| " \o Wd(n) \o " |\n|---|\n| " \o Wd(n + 1) \o " |\n\n"
    [] k = "tspan" -> "| h | i | j |\n|---|---|---|\n| " \o Wd(n) \o " || " \o Wd(n + 1) \o " |\n\n"            \* a cell spanning two columns, followed by another cell
    \* a bracketed line right after a table is its caption only when it is the whole paragraph: with a second line it is ordinary text
    [] k = "tcont" -> "| " \o Wd(n) \o " |\n|---|\n| " \o Wd(n + 1) \o " |\n[" \o Wd(n + 2) \o "]\n" \o Wd(n + 3) \o " more\n\n"
    \* a reference link whose second label is not defined (while the first happens to be) stays literal text
    [] k = "undefref" -> "[lab" \o ToString(n) \o "][" \o Wd(n) \o "] tail\n\n[lab" \o ToString(n) \o "]: /u\n\n"
    [] k = "note" -> "call[^f" \o ToString(n) \o "] after\n\n[^f" \o ToString(n) \o "]: " \o Wd(n) \o "\n\n" [] k = "code" -> "```\n" \o Wd(n) \o "\n```\n\n" [] k = "codel" -> "```python\n" \o Wd(n) \o "\n```\n\n"
    [] k = "link" -> "[" \o Wd(n) \o "](http://u.rl/)\n\n" [] OTHER -> "*" \o Wd(n) \o "* plain\n\n"
DocSrc(ks, n) == IF ks = <<>> THEN "" ELSE BlockSrc(Head(ks), n) \o DocSrc(Tail(ks), n + Need(Head(ks)))
\* order in which a format shows the words: notes are moved to a list at the end in HTML, stay at the call in LaTeX and OpenDocument, and in source order in OPML
WordsOf(ks, n, keepNotes) == IF ks = <<>> THEN <<>> ELSE
   (IF Head(ks) \in {"note", "nested"} /\ ~keepNotes THEN <<>> ELSE [i \in 1 .. Need(Head(ks)) |-> n + i - 1]) \o WordsOf(Tail(ks), n + Need(Head(ks)), keepNotes)
\* the note list is in order of first call; a note called from inside another note's text joins the end of the list when that text is printed
NoteWords(ks, n) == IF ks = <<>> THEN <<>> ELSE (IF Head(ks) \in {"note", "nested"} THEN <<n>> ELSE <<>>) \o NoteWords(Tail(ks), n + Need(Head(ks)))
RECURSIVE InnerWords(_, _)
InnerWords(ks, n) == IF ks = <<>> THEN <<>> ELSE (IF Head(ks) = "nested" THEN <<n + 1>> ELSE <<>>) \o InnerWords(Tail(ks), n + Need(Head(ks)))
Order(ks, fmt) == IF fmt = "html" THEN WordsOf(ks, 1, FALSE) \o NoteWords(ks, 1) \o InnerWords(ks, 1) ELSE WordsOf(ks, 1, TRUE)

\* ---- proper nesting ------------------------------------------------------------------------------------------------------
RECURSIVE DyckFrom(_, _, _)
DyckFrom(evs, i, st) == IF i > Len(evs) THEN st = <<>>
                        ELSE IF evs[i][1] = "o" THEN DyckFrom(evs, i + 1, Append(st, evs[i][2]))
                        ELSE st # <<>> /\ st[Len(st)] = evs[i][2] /\ DyckFrom(evs, i + 1, SubSeq(st, 1, Len(st) - 1))
Dyck(evs) == DyckFrom(evs, 1, <<>>)

\* ---- generation -----------------------------------------------------------------------------------------------------------
CONSTANTS Mode, MaxBlocks, Sim
VARIABLE g
Pick(S) == IF Sim THEN {RandomElement(S)} ELSE S
\* ---- edge family: a multi-byte character as the very last / very first character of the text in a slot ---------------------------
\* place-holders written by the check: ~A = U+00E0, ~D = U+2020, ~S = U+0160 (their UTF-8 forms end in the byte 0xA0, the second byte of a no-break space),
\* ~E = U+00E9, ~N = U+00F1 (end in other bytes); the twin carries the digit 7 in the same place
EdgeChars == <<"~A", "~D", "~S", "~E", "~N">>
EdgeRun(c, atEnd) == IF atEnd THEN Mark \o " w" \o c ELSE c \o "w " \o Mark
EdgeDoc(si, c, atEnd) == Fill(Slots[si].t, EdgeRun(c, atEnd))
EdgeSlots == {si \in 1 .. Len(Slots) : ~Tight(Slots[si].n)}
Init == IF Mode = "edge" THEN g \in {[si |-> s, ci |-> c, atEnd |-> e] : s \in EdgeSlots, c \in 1 .. Len(EdgeChars), e \in BOOLEAN} ELSE
        IF Mode = "esc" THEN g \in {[si |-> s, ci |-> c] : s \in 1 .. Len(Slots), c \in 1 .. Len(Chars)} ELSE g = <<>>
\* a bracketed line right after a table is its caption (and HTML must put a caption first): not a plain link paragraph
Next == Mode = "blocks" /\ Len(g) < MaxBlocks /\ \E k \in Pick(Kinds) : ~(k = "link" /\ g # <<>> /\ g[Len(g)] \in {"table", "tspan"}) /\ g' = Append(g, k)
Emit == IF Mode = "edge" THEN PrintT(ToJson([slot |-> Slots[g.si].n, ch |-> EdgeChars[g.ci], atEnd |-> g.atEnd, src |-> EdgeDoc(g.si, EdgeChars[g.ci], g.atEnd), base |-> EdgeDoc(g.si, "7", g.atEnd)])) ELSE
        IF Mode = "esc" THEN PrintT(ToJson([si |-> g.si, ci |-> g.ci, slot |-> Slots[g.si].n, ch |-> Chars[g.ci].c, chname |-> Chars[g.ci].n, src |-> DocOf(g.si, g.ci), base |-> DocOf(g.si, Len(Chars))]))
        ELSE (Len(g) >= 1 => PrintT(ToJson([ks |-> g, src |-> DocSrc(g, 1)])))
\* laws: escaped forms never contain the raw reserved character of the target (except where the target does not reserve it)
EscLaw == \A f \in {"html", "fodt", "latex"} : \A ci \in 1 .. Len(Chars) : Chars[ci].c \in Reserved(f) =>
             \A e \in Allowed(f, "para", Chars[ci].c) : e # Chars[ci].c
=============================================================================
