----------------------------- MODULE SafetyTrace -----------------------------
(* Monitor for C01: every call of every text-accepting entry point returns control (no sanitizer abort, no       *)
(* fatal signal, no exit() from inside the library, no watchdog expiry), and results that are strings are         *)
(* well formed (recorded length = strlen, capacity > length).                                                      *)
EXTENDS Integers, Sequences, TLC, Json, IOUtils
Tr == ndJsonDeserialize(IOEnv.TRACE)
VARIABLES l, calls
TInit == l = 1 /\ calls = 0
Returned == {"conv", "meta", "critic", "import", "transclude", "eng", "tree", "inspect", "pool"}
TNext == /\ l <= Len(Tr) /\ l' = l + 1
         /\ LET r == Tr[l] IN
            CASE r.e = "reset" -> UNCHANGED calls
              [] r.e \in Returned -> /\ (r.e \in {"critic", "import"} /\ ~r.null => r.strlen = r.len)
                                     /\ (r.e = "import" /\ ~r.null => r.cap > r.len)
                                     /\ calls' = calls + 1
              [] OTHER -> FALSE            \* aborted / timeout / exit / killed
TraceAccepted == TLCGet("stats").diameter = Len(Tr) + 1
=============================================================================
