INIT Init
NEXT Next
VIEW View
INVARIANTS NeverRejects StackBounded AcceptsAtEOF
CHECK_DEADLOCK FALSE
