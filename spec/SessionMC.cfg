CONSTANTS Docs = {1, 2, 3}
          Opts = {1, 2}
          UsesRng = {1}
          LeavesStack = {2}
          MaxSteps = 5
          Defect_GlobalRng = FALSE
          Defect_NoReset = FALSE
INIT Init
NEXT Next
INVARIANTS HistoryIndependent FreshEqualsFirst
CHECK_DEADLOCK FALSE
