------------------------------ MODULE Session ------------------------------
(* The process as a conversion service (C05, C06; basis of the C09/C20 relations).                      *)
(*                                                                                                      *)
(* Conversions are identified by a key = <<doc, opt>> (opt = format+extensions+language).  The          *)
(* specification of C05/C06 is that the result is a FUNCTION of the key: whatever happened before       *)
(* in the process, whichever entry-point family is used, whether an engine object is reused.            *)
(* To make that a checkable design statement the model carries the process state the code really       *)
(* has -- the global obfuscation generator, the per-engine stacks that mmd_engine_reset must clear,      *)
(* the process-wide pairing tables -- as variables, with one action per public call, and a render       *)
(* function that reads exactly the state the code reads.  Defect flags switch the code's known          *)
(* history dependences on, so TLC exhibits them; with the flags off HistoryIndependent holds.           *)
EXTENDS Integers, Sequences, FiniteSets, TLC

CONSTANTS Docs,            \* document ids
          Opts,            \* option-set ids
          UsesRng,         \* subset of Docs whose rendering draws from the obfuscation generator (e-mail autolinks)
          LeavesStack,     \* subset of Docs that leave entries on engine stacks (headers, footnotes, metadata)
          MaxSteps,
          Defect_GlobalRng,     \* TRUE: generator is process-global and never reseeded (the pinned tree)
          Defect_NoReset        \* TRUE: engine reuse does not clear the stacks (a seeded defect class)

VARIABLES rngPos,      \* position of the process-global generator
          eng,         \* engine slot: [open |-> BOOLEAN, doc |-> d, opt |-> o, dirty |-> SUBSET Docs]
          first,       \* key -> result observed at first use (<<>> before)
          lastRes,     \* result of the last conversion
          steps
vars == <<rngPos, eng, first, lastRes, steps>>

Keys == Docs \X Opts
NoEng == [open |-> FALSE, doc |-> CHOOSE d \in Docs : TRUE, opt |-> CHOOSE o \in Opts : TRUE, dirty |-> {}]

\* What a conversion of key k returns, as a function of everything the code reads while producing it.
Render(k, rng, dirty) ==
  <<k, IF k[1] \in UsesRng /\ Defect_GlobalRng THEN rng ELSE 0,      \* per-export reseeding makes the stream start at 0
       IF Defect_NoReset THEN dirty ELSE {}>>
Draws(k) == IF k[1] \in UsesRng THEN 1 ELSE 0

Init == /\ rngPos = 0 /\ eng = NoEng /\ first = [k \in Keys |-> <<>>] /\ lastRes = <<>> /\ steps = 0

Observe(k, res) ==
  /\ lastRes' = <<k, res>>
  /\ first' = IF first[k] = <<>> THEN [first EXCEPT ![k] = res] ELSE first
  /\ steps' = steps + 1

\* mmd_string_convert / mmd_d_string_convert / *_to_data / *_to_file / the CLI: fresh engine per call
ConvertFresh(d, o) ==
  /\ steps < MaxSteps
  /\ Observe(<<d, o>>, Render(<<d, o>>, rngPos, {}))
  /\ rngPos' = rngPos + Draws(<<d, o>>)
  /\ UNCHANGED eng

EngNew(d, o) == /\ steps < MaxSteps /\ ~eng.open
                /\ eng' = [open |-> TRUE, doc |-> d, opt |-> o, dirty |-> {}]
                /\ steps' = steps + 1 /\ UNCHANGED <<rngPos, first, lastRes>>
EngSetText(d) == /\ steps < MaxSteps /\ eng.open
                 /\ eng' = [eng EXCEPT !.doc = d]
                 /\ steps' = steps + 1 /\ UNCHANGED <<rngPos, first, lastRes>>
\* mmd_engine_convert on a reused engine: parse (reset first) + export
EngConvert == /\ steps < MaxSteps /\ eng.open
              /\ LET k == <<eng.doc, eng.opt>> IN
                 /\ Observe(k, Render(k, rngPos, eng.dirty \ {eng.doc}))
                 /\ rngPos' = rngPos + Draws(k)
                 /\ eng' = [eng EXCEPT !.dirty = IF eng.doc \in LeavesStack THEN @ \cup {eng.doc} ELSE @]
EngFree == /\ steps < MaxSteps /\ eng.open /\ eng' = NoEng /\ steps' = steps + 1 /\ UNCHANGED <<rngPos, first, lastRes>>

Next == \/ \E d \in Docs, o \in Opts : ConvertFresh(d, o) \/ EngNew(d, o)
        \/ \E d \in Docs : EngSetText(d)
        \/ EngConvert \/ EngFree
Spec == Init /\ [][Next]_vars

\* C05/C06: every result equals the result the same key gave the first time it was used in this process --
\* and (by symmetry of Init) in a fresh process.
HistoryIndependent == lastRes # <<>> => lastRes[2] = first[lastRes[1]]
FreshEqualsFirst == \A k \in Keys : first[k] # <<>> => first[k] = Render(k, 0, {})
=============================================================================
