CONSTANTS StartCap = 1024
          MaxOps = 1
          Sim = FALSE
INIT InitGen
NEXT NextGen
INVARIANTS Emit CapOK
CHECK_DEADLOCK FALSE
