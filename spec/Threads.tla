------------------------------- MODULE Threads -------------------------------
(* Property C17.  T threads, each converting its own stream of documents with its own engine, pool disabled.     *)
(* The only state they can share is the process-global state of the library; Globals (generated from the object   *)
(* files) lists every writable global symbol, and the specification refuses to claim anything about a global it     *)
(* has no model of.  Modelled: the obfuscation generator (position pointer, buffer, lagged-Fibonacci state).         *)
(* A conversion of a document with e-mail autolinks restarts the generator at its first obfuscated character         *)
(* (three writes) and then draws one number per character (read pointer, read buffer cell, write pointer).           *)
(* With Defect_SharedRng (what the code does) TLC exhibits a data race and a thread whose draws differ from          *)
(* the serial ones; with per-conversion generator state both invariants hold.                                        *)
EXTENDS Integers, Sequences, FiniteSets, TLC, Globals
CONSTANTS T, Draws, Defect_SharedRng
Modelled == {"rng:ran_arr_buf", "rng:ran_arr_dummy", "rng:ran_arr_ptr", "rng:ran_arr_started", "rng:ran_x"}
\* relocated constant tables that nothing writes after start-up (confirmed on every run by the race detector: a write to one of them is a race)
ReadOnlyInPractice == {"html:lc_lookup", "miniz:mz_error.s_error_descs"}
ASSUME GlobalsAreModelled == Globals \subseteq (Modelled \cup ReadOnlyInPractice)
\* hidden state of the C library reached from library code.  Known and outside what the runs exercise (stated as assumptions of the check): rand / srand are consulted
\* only for random anchors / labels (off, as the property presupposes for reproducible bytes) and for the uuids of packaged formats; localtime only for the time stamps
\* of packaged formats (EPUB metadata, ZIP headers).  Any other call of this kind is shared mutable state the specification has no model of.
LibcKnown == {"html:rand", "html:srand", "uuid:rand", "uuid:srand", "writer:rand", "writer:srand", "epub:localtime", "miniz:localtime"}
ASSUME LibcStateIsKnown == LibcState \subseteq LibcKnown

Threads == 1 .. T
Owner(t) == IF Defect_SharedRng THEN 0 ELSE t          \* which generator instance thread t uses
VARIABLES pc,        \* per thread: "idle" | "restart" | "read" | "write" | "done"
          drawn,     \* per thread: numbers drawn so far in this conversion
          ptr,       \* per generator instance: position of the next number
          lastacc    \* per generator instance: last access <<thread, isWrite>> with no synchronisation since
vars == <<pc, drawn, ptr, lastacc>>
Inst == IF Defect_SharedRng THEN {0} ELSE Threads
Init == pc = [t \in Threads |-> "idle"] /\ drawn = [t \in Threads |-> <<>>] /\ ptr = [i \in Inst |-> 0] /\ lastacc = [i \in Inst |-> <<0, FALSE>>]
Access(t, w) == lastacc' = [lastacc EXCEPT ![Owner(t)] = <<t, w>>]
Start(t)   == pc[t] = "idle" /\ pc' = [pc EXCEPT ![t] = "restart"] /\ UNCHANGED <<drawn, ptr, lastacc>>
Restart(t) == pc[t] = "restart" /\ ptr' = [ptr EXCEPT ![Owner(t)] = 0] /\ Access(t, TRUE) /\ pc' = [pc EXCEPT ![t] = "read"] /\ UNCHANGED drawn
Read(t)    == pc[t] = "read" /\ drawn' = [drawn EXCEPT ![t] = Append(@, ptr[Owner(t)])] /\ Access(t, FALSE) /\ pc' = [pc EXCEPT ![t] = "write"] /\ UNCHANGED ptr
Write(t)   == pc[t] = "write" /\ ptr' = [ptr EXCEPT ![Owner(t)] = @ + 1] /\ Access(t, TRUE)
              /\ pc' = [pc EXCEPT ![t] = IF Len(drawn[t]) = Draws THEN "done" ELSE "read"] /\ UNCHANGED drawn
Next == \E t \in Threads : Start(t) \/ Restart(t) \/ Read(t) \/ Write(t)
\* a race: an access to an instance whose previous access was by another thread, one of the two a write (there are no locks in the library)
Racy(t, w) == LET la == lastacc[Owner(t)] IN la[1] # 0 /\ la[1] # t /\ (w \/ la[2])
NoRace == \A t \in Threads : /\ (pc[t] = "restart" => ~Racy(t, TRUE)) /\ (pc[t] = "read" => ~Racy(t, FALSE)) /\ (pc[t] = "write" => ~Racy(t, TRUE))
SerialEquivalent == \A t \in Threads : \A i \in 1 .. Len(drawn[t]) : drawn[t][i] = i - 1      \* what a single-threaded run draws
=============================================================================
