------------------------------- MODULE Package -------------------------------
(* Property C09.  A package as the sequence of members its consumer reads from the central directory.           *)
(* Per kind: required members, order and storage constraints, manifest rules, asset consistency, and the         *)
(* relation between the main document in the package and the plain format's rendering.                           *)
EXTENDS Integers, Sequences, FiniteSets, TLC, Json, IOUtils
Required(kind) == CASE kind = "epub"      -> {"mimetype", "META-INF/container.xml", "OEBPS/main.opf", "OEBPS/nav.xhtml", "OEBPS/main.xhtml"}
                    [] kind = "odt"       -> {"mimetype", "content.xml", "styles.xml", "meta.xml", "settings.xml", "META-INF/manifest.xml"}
                    [] kind = "bundlezip" -> {"info.json", "text.markdown"}
                    [] OTHER              -> {"mapdata.xml"}
MimeType(kind) == IF kind = "epub" THEN "application/epub+zip" ELSE "application/vnd.oasis.opendocument.text"
AssetDir(kind) == CASE kind = "epub" -> "OEBPS/assets/" [] kind = "odt" -> "Pictures/" [] OTHER -> "assets/"
Names(r) == {r.members[i].name : i \in 1 .. Len(r.members)}
PackageOK(r) ==
  /\ r.iszip                                                                         \* a complete ZIP archive
  /\ \A i \in 1 .. Len(r.members) : r.members[i].crc_ok                              \* every member passes its CRC
  /\ \A i, j \in 1 .. Len(r.members) : i # j => r.members[i].name # r.members[j].name
  /\ Required(r.kind) \subseteq Names(r)
  /\ (r.kind \in {"epub", "odt"} => r.members[1].name = "mimetype" /\ r.mimetype = MimeType(r.kind))
  /\ (r.kind = "odt" => r.members[1].method = "stored")
  /\ (r.kind = "epub" => /\ r.rootfile = "OEBPS/main.opf"                            \* container.xml names the package document
                         /\ {"nav.xhtml", "main.xhtml"} \subseteq {r.manifest[i] : i \in 1 .. Len(r.manifest)}
                         /\ \A i \in 1 .. Len(r.manifest) : ("OEBPS/" \o r.manifest[i]) \in Names(r))   \* everything the manifest lists exists
  /\ (r.kind = "odt" => {"content.xml", "styles.xml", "meta.xml", "settings.xml"} \subseteq {r.manifest[i] : i \in 1 .. Len(r.manifest)})
  \* every asset the main document references is in the package (when the asset files can be read: directory given, file exists)
  /\ (r.readable => \A i \in 1 .. Len(r.assetrefs) : (AssetDir(r.kind) \o r.assetrefs[i]) \in Names(r))
  \* ... each picture that can be read is stored, whatever became of the pictures before it (one that cannot be read does not end the copying)
  /\ (r.kind \in {"epub", "odt", "bundlezip"} => r.nassets >= r.nreadable)
  \* ... and none is still referred to by the name it had outside the package
  /\ (r.readable /\ r.kind \in {"epub", "odt", "bundlezip"} => r.rawrefs = <<>>)
  \* and every asset member is one the main document references
  /\ (r.kind \in {"epub", "odt"} => \A n \in Names(r) : (Len(n) > Len(AssetDir(r.kind)) /\ SubSeq(n, 1, Len(AssetDir(r.kind))) = AssetDir(r.kind))
                                          => \E i \in 1 .. Len(r.assetrefs) : n = AssetDir(r.kind) \o r.assetrefs[i])
  /\ (r.hasplain => r.main = r.plain)                                                \* same rendering as the plain format (asset paths masked)
Tr == ndJsonDeserialize(IOEnv.TRACE)
VARIABLE l
TInit == l = 1
TNext == /\ l <= Len(Tr) /\ l' = l + 1
         /\ LET r == Tr[l] IN IF r.e = "reset" THEN TRUE ELSE r.e = "pkg" /\ ~r.null /\ PackageOK(r)
TraceAccepted == TLCGet("stats").diameter = Len(Tr) + 1
=============================================================================
