------------------------------ MODULE LineKinds ------------------------------
(* The alphabet of the block parser: one or more concrete spellings per line kind that the line classifier   *)
(* (mmd_assign_line_type) can produce, and the generator of line sequences (documents).  `first` is the kind *)
(* the classifier must assign when the spelling is the first line of a document in MultiMarkdown mode;       *)
(* in other positions the kind depends on context (that dependence is what the parser's %fallback encodes)   *)
(* and the observed kind is taken from lemon's trace instead.                                                *)
EXTENDS Integers, Sequences, TLC, Json
CONSTANTS MaxLines, Sim
Spell == <<
  [t |-> "* * *",           first |-> "LINE_HR"],
  [t |-> "===",             first |-> "LINE_SETEXT_1"],
  [t |-> "---",             first |-> "LINE_YAML"],
  [t |-> "plain text",      first |-> "LINE_PLAIN"],
  [t |-> "\ttabbed",        first |-> "LINE_INDENTED_TAB"],
  [t |-> "    spaced",      first |-> "LINE_INDENTED_SPACE"],
  [t |-> "a | b",           first |-> "LINE_TABLE"],
  [t |-> "--|:-:",          first |-> "LINE_TABLE_SEPARATOR"],
  [t |-> "<div>",           first |-> "LINE_HTML"],
  [t |-> "# h1",            first |-> "LINE_ATX_1"],
  [t |-> "## h2 ##",        first |-> "LINE_ATX_2"],
  [t |-> "###### h6",       first |-> "LINE_ATX_6"],
  [t |-> "> quote",         first |-> "LINE_BLOCKQUOTE"],
  [t |-> "* item",          first |-> "LINE_LIST_BULLETED"],
  [t |-> "1. item",         first |-> "LINE_LIST_ENUMERATED"],
  [t |-> "[>abbr]: Abbr",   first |-> "LINE_DEF_ABBREVIATION"],
  [t |-> "[#cite]: Cite",   first |-> "LINE_DEF_CITATION"],
  [t |-> "[^fn]: Note",     first |-> "LINE_DEF_FOOTNOTE"],
  [t |-> "[?gl]: Term",     first |-> "LINE_DEF_GLOSSARY"],
  [t |-> "[lnk]: http://x", first |-> "LINE_DEF_LINK"],
  [t |-> "{{TOC}}",         first |-> "LINE_TOC"],
  [t |-> ": definition",    first |-> "LINE_DEFINITION"],
  [t |-> "Key: value",      first |-> "LINE_META"],
  [t |-> "```",             first |-> "LINE_FENCE_BACKTICK_3"],
  [t |-> "`````",           first |-> "LINE_FENCE_BACKTICK_5"],
  [t |-> "```c",            first |-> "LINE_FENCE_BACKTICK_START_3"],
  [t |-> "-->",             first |-> "LINE_STOP_COMMENT"],
  [t |-> "",                first |-> "LINE_EMPTY"],
  [t |-> "<!--",            first |-> "LINE_START_COMMENT"],
  [t |-> "| c |",           first |-> "LINE_TABLE"],
  [t |-> "   + item",       first |-> "LINE_LIST_BULLETED"],
  [t |-> "[x]: y \"t\"",    first |-> "LINE_DEF_LINK"] >>
N == Len(Spell)
VARIABLE doc            \* sequence of spelling indices
Init == doc = <<>>
Pick(S) == IF Sim THEN {RandomElement(S)} ELSE S
Next == /\ Len(doc) < MaxLines
        /\ \E i \in Pick(1 .. N) : doc' = Append(doc, i)
Emit == (Len(doc) = MaxLines) => PrintT(ToJson(doc))
Table == PrintT(ToJson(Spell))
=============================================================================
