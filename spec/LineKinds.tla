------------------------------ MODULE LineKinds ------------------------------
(* The alphabet of the block parser: one or more concrete spellings per line kind that the line classifier   *)
(* (mmd_assign_line_type) can produce, and the generator of line sequences (documents).  `first` is the kind *)
(* the classifier must assign when the spelling is the first line of a document in MultiMarkdown mode;       *)
(* in other positions the kind depends on context (that dependence is what the parser's %fallback encodes)   *)
(* and the observed kind is taken from lemon's trace instead.                                                *)
EXTENDS LineSpell, TLC, Json
CONSTANTS MaxLines, Sim
VARIABLE doc            \* sequence of spelling indices
Init == doc = <<>>
Pick(S) == IF Sim THEN {RandomElement(S)} ELSE S
Next == /\ Len(doc) < MaxLines
        /\ \E i \in Pick(1 .. N) : doc' = Append(doc, i)
Emit == (Len(doc) = MaxLines) => PrintT(ToJson(doc))
Table == PrintT(ToJson(Spell))
=============================================================================
