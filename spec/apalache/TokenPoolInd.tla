---------------------------- MODULE TokenPoolInd ----------------------------
(* Property C18 for histories of ANY length and the real slab size.  The module takes TokenPool's own actions      *)
(* (EXTENDS, nothing is restated), lets a conversion allocate any number n in 1 .. MaxNeed of tokens, fixes         *)
(* SlabSize = 1024 as in object_pool.c, and gives an inductive invariant that Apalache discharges:                  *)
(*     Init => IndInv            (apalache-mc check --init=Init    --inv=IndInv --length=0)                         *)
(*     IndInv /\ Next => IndInv'  (apalache-mc check --init=IndInit --inv=IndInv --length=1)                         *)
(*     IndInv => Safety           (apalache-mc check --init=IndInit --inv=Safety --length=0)                         *)
(* Safety is the conjunction of the six invariants TLC checks on bounded histories with SlabSize 2.  TLC also checks *)
(* IndInv itself as an invariant of the bounded model (configuration of tools/props/c18.py), so the two tools look    *)
(* at the same formula over the same actions.  (Not parsed by TLC/SANY: the Apalache module is Apalache's.)           *)
EXTENDS TokenPool, Apalache
CONSTANT
  \* @type: Int;
  MaxNeed
ConstInit == /\ SlabSize = 1024 /\ Docs = {1} /\ Need = [d \in {1} |-> 1] /\ Engines = {1, 2, 3} /\ MaxNeed = 1000000
             /\ MaxHist = 1 /\ KeepHist = FALSE /\ Defect_CountOnlyFirstInit = FALSE /\ Defect_NoResetOnDrain = FALSE
\* the same actions, any allocation count
NextAny == PInit \/ PDrain \/ PFree \/ (\E n \in 1 .. MaxNeed : Convert(1, n)) \/ (\E e \in Engines : \E n \in 1 .. MaxNeed : ParseKeep(e, 1, n))
           \/ (\E e \in Engines : Inspect(e) \/ LetGo(e))
Safety == SlotInRange /\ NoDangling /\ ReleasedAtOutermostDrain /\ CleanStart /\ CleanAfterFree /\ CounterAgrees
\* an arbitrary state that satisfies IndInv (Gen: an unconstrained value with at most 3 entries; the history is not kept)
IndInit == /\ exists \in BOOLEAN /\ count \in Int /\ depth \in Int /\ slabs \in Int /\ nextSlot \in Int /\ epoch \in Int /\ held = Gen(3)
           /\ stale \in BOOLEAN /\ hist = <<>>
           /\ IndInv
=============================================================================
