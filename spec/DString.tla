------------------------------ MODULE DString ------------------------------
(* The "obvious string model" of d_string.c (property C19).                                     *)
(* State: the ideal string s and the recorded capacity cap.  One action per public operation,   *)
(* with the conventions the header documents: positions past the end are clamped to the end,    *)
(* MAX = (size_t)-1 as a length means "to the end", an out-of-range erase is a no-op, an         *)
(* out-of-range copy returns NULL.  Payloads are named so that histories stay small.            *)
EXTENDS Integers, Sequences, FiniteSets, TLC

CONSTANT StartCap        \* kStringBufferStartingSize: 1024 in the code; tiny when model checking the capacity design
MAX == -1                \* stands for (size_t)-1
MAX1 == -2               \* stands for (size_t)-2: a length that is not the "to the end" value but reaches beyond any buffer (pos + len wraps in size_t arithmetic)

RECURSIVE Rep(_, _)
Rep(c, n) == IF n <= 0 THEN "" ELSE IF n % 2 = 0 THEN LET h == Rep(c, n \div 2) IN h \o h ELSE c \o Rep(c, n - 1)

Min2(a, b) == IF a < b THEN a ELSE b
Gt(pos, n) == pos = MAX \/ pos > n                  \* size_t comparison pos > n
Clamp(pos, n) == IF Gt(pos, n) THEN n ELSE pos
Sub(s, a, b) == IF b < a THEN "" ELSE SubSeq(s, a, b)     \* 1-based inclusive, total
Prefix(s, n) == Sub(s, 1, n)
Suffix(s, n) == Sub(s, n + 1, Len(s))               \* everything after the first n characters

(* smallest 1-based index >= from at which pat occurs in s, 0 if none *)
Find(s, pat, from) ==
  LET c == {j \in from .. (Len(s) - Len(pat) + 1) : SubSeq(s, j, j + Len(pat) - 1) = pat}
  IN IF c = {} THEN 0 ELSE CHOOSE j \in c : \A k \in c : j <= k

\* ---- the ideal operations (pure) -----------------------------------------------------------
InsertAt(s, pos, p) == LET q == Clamp(pos, Len(s)) IN Prefix(s, q) \o p \o Suffix(s, q)
Bytes(p, n) == IF n = MAX THEN p ELSE Prefix(p, n)          \* precondition n <= Len(p)
EraseAt(s, pos, len) ==
  IF Gt(pos, Len(s)) \/ len = 0 THEN s
  ELSE IF len = MAX \/ len = MAX1 \/ pos + len >= Len(s) THEN Prefix(s, pos)
  ELSE Prefix(s, pos) \o Suffix(s, pos + len)
\* copy_substring: <<ok, text>>
CopyOf(s, start, len) ==
  IF start = MAX \/ start > Len(s) THEN <<FALSE, "">>
  ELSE LET n == IF len = MAX THEN Len(s) - start ELSE len IN
       IF len = MAX1 \/ start + n > Len(s) THEN <<FALSE, "">> ELSE <<TRUE, Sub(s, start + 1, start + n)>>
\* replace_text_in_range: occurrences of o that lie entirely inside [pos, pos+len) are replaced, left to right,
\* never rescanning replaced text; text outside the range is untouched.  Precondition o # "".
RECURSIVE ReplLoop(_, _, _, _, _)
ReplLoop(s, from, stop, o, r) ==        \* from, stop: 0-based offsets
  LET m == Find(s, o, from + 1) IN
  IF m = 0 \/ m - 1 + Len(o) > stop THEN s
  ELSE ReplLoop(Prefix(s, m - 1) \o r \o Suffix(s, m - 1 + Len(o)), m - 1 + Len(r), stop + Len(r) - Len(o), o, r)
ReplaceIn(s, pos, len, o, r) ==
  IF Gt(pos, Len(s)) THEN s
  ELSE LET stop == IF len = MAX \/ len = MAX1 THEN Len(s) ELSE Min2(pos + len, Len(s)) IN ReplLoop(s, pos, stop, o, r)

\* ---- capacity, as ensureStringBufferCanHold grows it ----------------------------------------
RECURSIVE Grow(_, _)
Grow(cap, need) == IF need <= cap THEN cap ELSE Grow(cap * 2, need)
NewCap(n) == Grow(StartCap, n + 1)
Ensure(cap, newlen) == Grow(cap, newlen + 1)

\* ---- named payloads and formats -------------------------------------------------------------
X(n) == Rep("x", n)
Pay == [ P0 |-> "", Pa |-> "a", Pab |-> "ab", Pba |-> "ba", Pabc |-> "abc", Ppct |-> "%d",
         PX253 |-> X(253), PX254 |-> X(254), PX255 |-> X(255), PX509 |-> X(509), PX510 |-> X(510), PX511 |-> X(511), PX1021 |-> X(1021), PX1022 |-> X(1022), PX2046 |-> X(2046), PX1023 |-> X(1023), PX1024 |-> X(1024), PX1025 |-> X(1025),
         I5 |-> "abaab", I1022 |-> "ab" \o X(1020), I1023 |-> "ab" \o X(1021), I1024 |-> "ab" \o X(1022),
         I2047 |-> "ab" \o X(2045), I2048 |-> "ab" \o X(2046),
         S3 |-> "xxx", S4 |-> "xxxx", S5 |-> "xxxxx", S7 |-> "abaabab", S8 |-> "abaababa" ]
PayNames == DOMAIN Pay
Chr == [ c97 |-> "a", c120 |-> "x", c37 |-> "%", c0 |-> "", c233 |-> "Q", c255 |-> "Z" ]      \* c0: a NUL character is documented as a no-op; Q / Z stand for the bytes 0xE9 / 0xFF (renamed by the check on both sides)
\* format kinds: "d" = "%d", "s" = "<%s>", "l" = the payload itself as the format (no conversion in it), "pp" = payload, "%%", payload (an escaped percent sign, no argument)
Fmt(kind, arg) == CASE kind = "d" -> ToString(arg) [] kind = "l" -> Pay[arg] [] kind = "pp" -> Pay[arg] \o "%" \o Pay[arg] [] OTHER -> "<" \o Pay[arg] \o ">"

\* ---- one step: op record -> new string ------------------------------------------------------
\* op records: [op |-> name, pos |-> int, len |-> int, p |-> payload name, q |-> payload name, c |-> chr name,
\*              k |-> fmt kind, a |-> fmt argument]
Apply(s, o) ==
  CASE o.op = "new"       -> Pay[o.p]
    [] o.op = "append"    -> s \o Pay[o.p]
    [] o.op = "append_c"  -> s \o Chr[o.c]
    [] o.op = "append_ca" -> s \o Bytes(Pay[o.p], o.len)
    [] o.op = "append_pf" -> s \o Fmt(o.k, o.a)
    [] o.op = "prepend"   -> Pay[o.p] \o s
    [] o.op = "insert"    -> InsertAt(s, o.pos, Pay[o.p])
    [] o.op = "insert_c"  -> InsertAt(s, o.pos, Chr[o.c])
    [] o.op = "insert_ca" -> InsertAt(s, o.pos, Bytes(Pay[o.p], o.len))
    [] o.op = "insert_pf" -> InsertAt(s, o.pos, Fmt(o.k, o.a))
    [] o.op = "erase"     -> EraseAt(s, o.pos, o.len)
    [] o.op = "copy"      -> s
    [] o.op = "replace"   -> ReplaceIn(s, o.pos, o.len, Pay[o.p], Pay[o.q])
    [] OTHER              -> s

\* preconditions that lie outside the property's "obvious model"
PreOK(s, o) ==
  /\ (o.op \in {"append_ca", "insert_ca"} => (o.len = MAX \/ o.len <= Len(Pay[o.p])))
  /\ (o.op = "replace" => Pay[o.p] # "")

VARIABLES s, cap
vars == <<s, cap>>

Step(o) == /\ PreOK(s, o)
           /\ s' = Apply(s, o)
           /\ cap' = IF o.op = "new" THEN NewCap(Len(s')) ELSE Ensure(cap, Len(s'))

CapOK == Len(s) < cap          \* "capacity always larger than the length"
=============================================================================
