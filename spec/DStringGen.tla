----------------------------- MODULE DStringGen -----------------------------
(* Behaviour generator for C19: histories of DString operations at the code's real scale             *)
(* (StartCap = 1024), arguments drawn from the boundary values the property names.  BFS enumerates     *)
(* every history of length MaxOps; -simulate draws longer ones.  Each maximal history is emitted as    *)
(* one JSON line; the replay harness executes it and DStringTrace judges the recorded states.          *)
EXTENDS DString, Json
CONSTANTS MaxOps, Sim      \* Sim = TRUE: one random successor per step (for -simulate)
VARIABLE hist
Positions(t) == {0, 1, Len(t) - 1, Len(t), Len(t) + 1, Len(t) \div 2, MAX} \ {-2}
Lens(t) == ({0, 1, 2, Len(t) - 1, Len(t), Len(t) + 1, MAX} \ {-2}) \cup {MAX1}
Inits == {"P0", "I5", "I1022", "I1023", "I1024", "I2047", "I2048"}
Adds == {"P0", "Pa", "Pab", "Pabc", "Ppct", "PX1023", "PX1024", "PX1025"}
R(o) == o @@ [pos |-> 0, len |-> 0, p |-> "P0", q |-> "P0", c |-> "c0", k |-> "d", a |-> 0]   \* total records for Json
OpsK(t) == [
  append    |-> {R([op |-> "append", p |-> p]) : p \in Adds},
  prepend   |-> {R([op |-> "prepend", p |-> p]) : p \in Adds},
  append_c  |-> {R([op |-> "append_c", c |-> c]) : c \in {"c97", "c37", "c0", "c233"}},
  append_ca |-> {R([op |-> "append_ca", p |-> p, len |-> b]) : p \in {"Pab", "PX1024"}, b \in {0, 1, 2, MAX}}
                \cup {R([op |-> "append_ca", p |-> "PX1025", len |-> b]) : b \in {1023, 1024, 1025}},
  append_pf |-> {R([op |-> "append_pf", k |-> "d", a |-> a]) : a \in {7, -12345}}
                \cup {R([op |-> "append_pf", k |-> "s", a |-> p]) : p \in {"Ppct", "PX253", "PX254", "PX255", "PX509", "PX510", "PX511", "PX1021", "PX1022", "PX1023", "PX2046"}}
                \cup {R([op |-> "append_pf", k |-> k, a |-> p]) : k \in {"l", "pp"}, p \in {"P0", "Pab", "PX1023"}},     \* formatted "<...>": 255-257, 511-513, 1023-1025, 2048 bytes (sizes at which an implementation might switch buffers)
  insert    |-> {R([op |-> "insert", pos |-> q, p |-> p]) : q \in Positions(t), p \in Adds},
  insert_c  |-> {R([op |-> "insert_c", pos |-> q, c |-> c]) : q \in Positions(t), c \in {"c97", "c0", "c233", "c255"}},
  insert_ca |-> {R([op |-> "insert_ca", pos |-> q, p |-> "Pabc", len |-> b]) : q \in Positions(t), b \in {0, 1, 3, MAX}}
                \cup {R([op |-> "insert_ca", pos |-> q, p |-> "PX1025", len |-> b]) : q \in Positions(t), b \in {1022, 1024, MAX}},
  insert_pf |-> {R([op |-> "insert_pf", pos |-> q, k |-> "d", a |-> 42]) : q \in Positions(t)}
                \cup {R([op |-> "insert_pf", pos |-> q, k |-> "s", a |-> p]) : q \in Positions(t), p \in {"Ppct", "PX1022"}}
                \cup {R([op |-> "insert_pf", pos |-> q, k |-> k, a |-> p]) : q \in Positions(t), k \in {"l", "pp"}, p \in {"Pab", "PX1023"}},
  erase     |-> {R([op |-> "erase", pos |-> q, len |-> b]) : q \in Positions(t), b \in Lens(t)},
  copy      |-> {R([op |-> "copy", pos |-> q, len |-> b]) : q \in Positions(t), b \in Lens(t)},
  replace   |-> {R([op |-> "replace", pos |-> q, len |-> b, p |-> p, q |-> r]) :
                   q \in Positions(t), b \in Lens(t), p \in {"Pa", "Pab", "Pba"}, r \in {"P0", "Pa", "Pabc"}} ]
Ops(t) == UNION {OpsK(t)[k] : k \in DOMAIN OpsK(t)}
Pick(t) == LET k == RandomElement(DOMAIN OpsK(t)) IN {RandomElement(OpsK(t)[k])}
InitGen == \E p \in (IF Sim THEN {RandomElement(Inits)} ELSE Inits) : /\ s = Pay[p] /\ cap = NewCap(Len(Pay[p]))
                            /\ hist = <<R([op |-> "new", p |-> p])>>
InitGenSmall == \E p \in {"I5", "I1023"} : /\ s = Pay[p] /\ cap = NewCap(Len(Pay[p]))
                                    /\ hist = <<R([op |-> "new", p |-> p])>>
NextGen == /\ Len(hist) <= MaxOps
           /\ \E o \in (IF Sim THEN Pick(s) ELSE Ops(s)) : Step(o) /\ hist' = Append(hist, o)
Emit == (Len(hist) = MaxOps + 1) => PrintT(ToJson(hist))
=============================================================================
