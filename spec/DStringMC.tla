----------------------------- MODULE DStringMC -----------------------------
(* Exhaustive check of the DString design with a tiny starting capacity: every history of <= MaxOps      *)
(* operations over boundary arguments keeps CapOK and the algebraic laws below.                          *)
EXTENDS DString
CONSTANT MaxOps
VARIABLE n
Positions(t) == {0, 1, Len(t) - 1, Len(t), Len(t) + 1, MAX} \ {-2}
Small == {"P0", "Pa", "Pab", "S3", "S4", "S5"}
Ops(t) ==
  {[op |-> "append", p |-> p] : p \in Small} \cup {[op |-> "prepend", p |-> p] : p \in Small}
  \cup {[op |-> "append_c", c |-> c] : c \in {"c97", "c0"}}
  \cup {[op |-> "append_ca", p |-> p, len |-> b] : p \in {"Pab", "S5"}, b \in {0, 1, 2, MAX}}
  \cup {[op |-> "append_pf", k |-> "d", a |-> a] : a \in {7, 12345}}
  \cup {[op |-> "insert", pos |-> q, p |-> p] : q \in Positions(t), p \in Small}
  \cup {[op |-> "insert_c", pos |-> q, c |-> "c97"] : q \in Positions(t)}
  \cup {[op |-> "insert_ca", pos |-> q, p |-> "Pab", len |-> b] : q \in Positions(t), b \in {0, 1, 2, MAX}}
  \cup {[op |-> "erase", pos |-> q, len |-> b] : q \in Positions(t), b \in Positions(t)}
  \cup {[op |-> "replace", pos |-> q, len |-> b, p |-> p, q |-> r] : q \in Positions(t), b \in Positions(t), p \in {"Pa", "Pab"}, r \in {"P0", "Pa", "Pabc"}}
InitMC == /\ \E p \in {"P0", "Pab", "S3", "S4", "S7", "S8"} : s = Pay[p] /\ cap = NewCap(Len(Pay[p]))
          /\ n = 0
NextMC == /\ n < MaxOps /\ n' = n + 1
          /\ \E o \in Ops(s) : Step(o)
\* laws of the ideal model that the implementation's conventions must respect
Laws == /\ \A q \in Positions(s) : EraseAt(InsertAt(s, q, "ab"), Clamp(q, Len(s)), 2) = s
        /\ \A q \in Positions(s) : Len(InsertAt(s, q, "ab")) = Len(s) + 2
        /\ \A q \in Positions(s), b \in Positions(s) : Len(EraseAt(s, q, b)) <= Len(s)
        /\ \A q \in Positions(s), b \in Positions(s) :
              LET c == CopyOf(s, q, b) IN c[1] => (Len(c[2]) <= Len(s) /\ (c[2] = "" \/ Find(s, c[2], 1) # 0))
        /\ EraseAt(s, 0, MAX) = ""
        /\ ReplaceIn(s, 0, MAX, "a", "a") = s
CapGrowthOK == cap >= StartCap /\ Len(s) < cap /\ (cap > StartCap => cap < 2 * (Len(s) + 1) + 2 * StartCap * 64)
=============================================================================
