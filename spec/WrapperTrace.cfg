CONSTANTS MaxKeys = 0
          Sim = FALSE
INIT TInit
NEXT TNext
POSTCONDITION TraceAccepted
CHECK_DEADLOCK FALSE
