--------------------------- MODULE TokenPoolTrace ---------------------------
(* Trace validation for C18: the recorded protocol calls, allocation counts and pool pointers of the real     *)
(* token.c / object_pool.c must be a behaviour of TokenPool with SlabSize = 1024.                              *)
EXTENDS TokenPool, Json, IOUtils
Tr == ndJsonDeserialize(IOEnv.TRACE)
VARIABLES l, oracle, seen
tvars == <<vars, l, oracle, seen>>
NeedT == [d \in {} |-> 0]
TInit == Init /\ l = 1 /\ oracle = ("" :> "") /\ seen = [e \in Engines |-> ""]
\* what the harness reads from the real pool after the call: slabs on the list, object offset of pool.next
PoolObs(r) == IF r.pslabs < 0 THEN TRUE          \* pool pointer not yet seen by the interposer
              ELSE /\ r.pslabs = slabs'
                   /\ r.pnext = (IF slabs' = 0 THEN -1 ELSE nextSlot')
Same == UNCHANGED <<exists, count, depth, slabs, nextSlot, epoch, held, stale, hist>>
TNext ==
  /\ l <= Len(Tr) /\ l' = l + 1
  /\ LET r == Tr[l] IN
     CASE r.e = "reset" -> /\ exists' = FALSE /\ count' = 0 /\ depth' = 0 /\ slabs' = 0 /\ nextSlot' = SlabSize /\ epoch' = epoch + 1
                           /\ held' = [e \in Engines |-> Nothing] /\ stale' = FALSE /\ hist' = hist
                           /\ seen' = [e \in Engines |-> ""] /\ UNCHANGED oracle
       [] r.e = "pool" /\ r.op = "init"  -> PInit /\ r.count = depth' /\ PoolObs(r) /\ UNCHANGED <<oracle, seen>>
       [] r.e = "pool" /\ r.op = "drain" -> PDrain /\ r.count = depth' /\ PoolObs(r) /\ UNCHANGED <<oracle, seen>>
       [] r.e = "pool" /\ r.op = "free"  -> PFree /\ ~exists' /\ r.diag = <<>> /\ UNCHANGED <<oracle, seen>>
       [] r.e = "conv" -> /\ Convert(0, r.allocs) /\ PoolObs(r) /\ ~r.null
                          /\ (IF r.key \in DOMAIN oracle THEN oracle[r.key] = r.digest ELSE TRUE)      \* results unchanged
                          /\ oracle' = IF r.key \in DOMAIN oracle THEN oracle ELSE oracle @@ (r.key :> r.digest)
                          /\ UNCHANGED seen
       [] r.e = "eng" /\ r.op = "parse" -> /\ ParseKeep(r.eid + 1, 0, r.allocs) /\ PoolObs(r) /\ r.allocs > 0
                                           /\ seen' = [seen EXCEPT ![r.eid + 1] = ""] /\ UNCHANGED oracle
       [] r.e = "inspect" -> /\ Inspect(r.eid + 1) /\ r.tokens > 0 /\ r.dirty = 0           \* a parsed tree that no writer has touched carries clean tokens, however often the pool's memory was used before /\ r.tokens <= held[r.eid + 1][3] - held[r.eid + 1][2] + 1
                             /\ (IF seen[r.eid + 1] = "" THEN TRUE ELSE seen[r.eid + 1] = r.sum)      \* the tree is intact
                             /\ seen' = [seen EXCEPT ![r.eid + 1] = r.sum] /\ UNCHANGED oracle
       [] r.e = "eng" /\ r.op = "free" -> /\ (IF held[r.eid + 1] # Nothing THEN LetGo(r.eid + 1) ELSE Same) /\ UNCHANGED <<oracle, seen>>
       [] r.e = "eng" /\ r.op \in {"new", "settext"} -> Same /\ UNCHANGED <<oracle, seen>>
       [] OTHER -> FALSE
Inv == SlotInRange /\ NoDangling /\ ReleasedAtOutermostDrain /\ CleanStart /\ CleanAfterFree /\ CounterAgrees
TraceAccepted == TLCGet("stats").diameter = Len(Tr) + 1
=============================================================================
