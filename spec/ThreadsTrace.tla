---------------------------- MODULE ThreadsTrace ----------------------------
(* Trace validation for C17: per-thread conversion records (each thread's own sequence number, no wall clock) must    *)
(* agree with the serial reference for the same key, and the happens-before race detector must have reported no       *)
(* unsynchronised access to shared state.                                                                             *)
EXTENDS Integers, Sequences, TLC, Json, IOUtils
Tr == ndJsonDeserialize(IOEnv.TRACE)
VARIABLES l, oracle, nextseq
TInit == l = 1 /\ oracle = ("" :> "") /\ nextseq = [t \in 0 .. 15 |-> 0]
TNext == /\ l <= Len(Tr) /\ l' = l + 1
         /\ LET r == Tr[l] IN
            CASE r.e = "reset"  -> nextseq' = [t \in 0 .. 15 |-> 0] /\ UNCHANGED oracle
              [] r.e = "serial" -> ~r.null /\ oracle' = (IF r.key \in DOMAIN oracle THEN oracle ELSE oracle @@ (r.key :> r.digest)) /\ UNCHANGED nextseq
              [] r.e = "tconv"  -> /\ ~r.null /\ r.seq = nextseq[r.thread] /\ nextseq' = [nextseq EXCEPT ![r.thread] = @ + 1]
                                   /\ r.key \in DOMAIN oracle /\ oracle[r.key] = r.digest         \* exactly the bytes a single-threaded run gives
                                   /\ UNCHANGED oracle
              [] OTHER -> FALSE                                                                    \* "race": two threads touched shared state without synchronisation
TraceAccepted == TLCGet("stats").diameter = Len(Tr) + 1
=============================================================================
