-------------------------------- MODULE Utf8 --------------------------------
(* Property C16.  UTF-8 well-formedness as a DFA over bytes (Unicode Table 3-7), the code points whose           *)
(* encodings contain the bytes the lexer special-cases (0xA0 as white space, 0xC2/0xC3 leads, 3- and 4-byte       *)
(* forms), and the generator that places each of them at every position of every construct spelling.              *)
(* Law (model-checked): the DFA accepts exactly the concatenations of encodings of scalar values, on all byte      *)
(* strings of length <= 3 over a representative byte alphabet.                                                     *)
EXTENDS Integers, Sequences, FiniteSets, TLC, Json
\* states: 0 accept/start; 1,2,3 = that many continuation bytes 80..BF expected; 4 = after E0 (A0..BF then 1); 5 = after ED (80..9F then 1);
\* 6 = after F0 (90..BF then 2); 7 = after F4 (80..8F then 2); 9 = reject
In(b, lo, hi) == b >= lo /\ b <= hi
Step(s, b) ==
  CASE s = 0 -> (IF b <= 127 THEN 0 ELSE IF In(b, 194, 223) THEN 1 ELSE IF b = 224 THEN 4 ELSE IF In(b, 225, 236) \/ In(b, 238, 239) THEN 2
                 ELSE IF b = 237 THEN 5 ELSE IF b = 240 THEN 6 ELSE IF In(b, 241, 243) THEN 3 ELSE IF b = 244 THEN 7 ELSE 9)
    [] s = 1 -> (IF In(b, 128, 191) THEN 0 ELSE 9)
    [] s = 2 -> (IF In(b, 128, 191) THEN 1 ELSE 9)
    [] s = 3 -> (IF In(b, 128, 191) THEN 2 ELSE 9)
    [] s = 4 -> (IF In(b, 160, 191) THEN 1 ELSE 9)
    [] s = 5 -> (IF In(b, 128, 159) THEN 1 ELSE 9)
    [] s = 6 -> (IF In(b, 144, 191) THEN 2 ELSE 9)
    [] s = 7 -> (IF In(b, 128, 143) THEN 2 ELSE 9)
    [] OTHER -> 9
RECURSIVE RunDfa(_, _)
RunDfa(s, bs) == IF bs = <<>> THEN s ELSE RunDfa(Step(s, Head(bs)), Tail(bs))
Accepts(bs) == RunDfa(0, bs) = 0

\* declarative definition: encodings of scalar values (surrogates and > 10FFFF excluded, shortest form only)
Enc(cp) == IF cp < 128 THEN <<cp>>
           ELSE IF cp < 2048 THEN <<192 + (cp \div 64), 128 + (cp % 64)>>
           ELSE IF cp < 65536 THEN <<224 + (cp \div 4096), 128 + ((cp \div 64) % 64), 128 + (cp % 64)>>
           ELSE <<240 + (cp \div 262144), 128 + ((cp \div 4096) % 64), 128 + ((cp \div 64) % 64), 128 + (cp % 64)>>
Scalar(cp) == (cp >= 0 /\ cp < 55296) \/ (cp > 57343 /\ cp <= 1114111)
\* a byte string of length <= 3 is valid iff it splits into encodings of scalars
Dec2(a, b) == (a - 192) * 64 + (b - 128)
Dec3(a, b, c) == (a - 224) * 4096 + (b - 128) * 64 + (c - 128)
Cont(b) == In(b, 128, 191)
Valid1(bs) == Len(bs) = 1 /\ bs[1] < 128
Valid2(bs) == Len(bs) = 2 /\ In(bs[1], 192, 223) /\ Cont(bs[2]) /\ Dec2(bs[1], bs[2]) >= 128
Valid3(bs) == Len(bs) = 3 /\ In(bs[1], 224, 239) /\ Cont(bs[2]) /\ Cont(bs[3]) /\ Dec3(bs[1], bs[2], bs[3]) >= 2048 /\ Scalar(Dec3(bs[1], bs[2], bs[3]))
RECURSIVE ValidUpTo2(_)
ValidUpTo3(bs) == \/ bs = <<>>
                  \/ Valid1(bs) \/ Valid2(bs) \/ Valid3(bs)
                  \/ (Len(bs) = 2 /\ Valid1(<<bs[1]>>) /\ Valid1(<<bs[2]>>))
                  \/ (Len(bs) = 3 /\ ((Valid1(<<bs[1]>>) /\ ValidUpTo2(<<bs[2], bs[3]>>)) \/ (Valid2(<<bs[1], bs[2]>>) /\ Valid1(<<bs[3]>>))))
ValidUpTo2(bs) == Valid2(bs) \/ (Valid1(<<bs[1]>>) /\ Valid1(<<bs[2]>>))
Alphabet == {0, 65, 127, 128, 143, 144, 159, 160, 191, 192, 193, 194, 195, 223, 224, 225, 236, 237, 238, 239, 240, 241, 243, 244, 245, 255}

\* ---- the code points of interest (name |-> scalar) --------------------------------------------------------------
CPs == [ nbsp |-> 160, agrave |-> 224, eacute |-> 233, Gdot |-> 288, euroA0 |-> 8352, dagger |-> 8224, ldquo |-> 8220, emdash |-> 8212, cjk |-> 20013,
         emoji |-> 128160, grin |-> 128512, Ugrave |-> 217, cent |-> 162, ydiaer |-> 255, umax |-> 1114111 ]
VARIABLE w
Init == w \in {<<>>}
Next == Len(w) < 3 /\ \E b \in Alphabet : w' = Append(w, b)
DfaLaw == Accepts(w) <=> ValidUpTo3(w)
EncLaw == \A n \in DOMAIN CPs : Accepts(Enc(CPs[n])) /\ Scalar(CPs[n])
Export == PrintT(ToJson([cps |-> [n \in DOMAIN CPs |-> Enc(CPs[n])], table |-> [s \in 0 .. 7 |-> [b \in 0 .. 255 |-> Step(s, b)]]]))
=============================================================================
