---------------------------- MODULE TranscludeMC ----------------------------
(* Exhaustive exploration: every file system over Names whose files have the shape <<text, x, text, y>> with    *)
(* x, y in {nothing, a marker to any name, a marker to a missing file}; every behaviour of the machine.          *)
EXTENDS Transclude, Json
CONSTANTS Names, Sim, Emitting
VARIABLES fs, st
vars == <<fs, st>>

Root == "R/a.txt"
PathOf(nm) == "R/" \o nm
Slots == {<<>>} \cup {<<M(nm)>> : nm \in Names \cup {"zz.txt"}}
Contents(nm) == {<<T(nm \o "1 ")>> \o x \o <<T(" " \o nm \o "2 ")>> \o y \o <<T("\n")>> : x \in Slots, y \in Slots}
Pick(S) == IF Sim THEN {RandomElement(S)} ELSE S
FileSystems == {f \in [{PathOf(nm) : nm \in Names} -> UNION {{[atoms |-> c, meta |-> mt, base |-> ""] : c \in Contents(nm), mt \in BOOLEAN} : nm \in Names}] :
                   \A nm \in Names : f[PathOf(nm)].atoms[1] = T(nm \o "1 ") /\ (nm = "a.txt" => ~f[PathOf(nm)].meta)}
Init == /\ fs \in Pick(FileSystems) /\ st = InitSt(fs, Root, "R/")
Next == ~st.done /\ st' = Step(fs, "html", st) /\ UNCHANGED fs
\* acyclic: no file reachable from itself
RECURSIVE Reach(_, _, _)
\* all paths referenced (transitively) from the files in S; missing files are referenced but not expanded
Reach(f, S, fuel) == IF fuel = 0 THEN S ELSE Reach(f, S \cup UNION {Targets(f, "html", p, "R/") : p \in S \cap DOMAIN f}, fuel - 1)
Refs(f, p) == Reach(f, Targets(f, "html", p, "R/"), Cardinality(DOMAIN f) + 1)
Acyclic(f) == \A p \in DOMAIN f : p \notin Refs(f, p)
N == Cardinality(Names)
\* properties
StackBounded == Len(st.frames) <= N + 2
TotalSize == LET RECURSIVE Sum(_) Sum(i) == IF i = 0 THEN 0 ELSE Len(st.frames[i].buf) + Sum(i - 1) IN Sum(Len(st.frames))
OutputBounded == TotalSize <= 5 * (2 ^ (N + 2))
NoDupManifest == \A i, j \in 1 .. Len(st.manifest) : i # j => st.manifest[i] # st.manifest[j]
ExactWhenAcyclic == (st.done /\ Acyclic(fs)) => st.out = Subst(fs, "html", fs[Root].atoms, "R/", 64)
ManifestComplete == (st.done /\ Acyclic(fs)) => {st.manifest[i] : i \in 1 .. Len(st.manifest)} = Refs(fs, Root)
Terminates == <>(st.done)
FairSpec == Init /\ [][Next]_vars /\ WF_vars(Next)
Emit == (Emitting /\ st.done) => PrintT(ToJson([fs |-> fs, files |-> [p \in DOMAIN fs |-> MetaText(p, fs[p]) \o Render(fs[p].atoms)], acyclic |-> Acyclic(fs)]))
=============================================================================
