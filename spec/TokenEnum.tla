------------------------------ MODULE TokenEnum ------------------------------
(* C15, last sentence: the numeric token kinds published in libMultiMarkdown.h keep the meaning the library's  *)
(* own tables and arithmetic assume.  KindValue / constants are generated from the headers of the tree under   *)
(* test (specgen/writer_cases.py).                                                                              *)
EXTENDS WriterCases, FiniteSets, TLC
VARIABLE x
Init == x = 0
Next == x' = x
V(n) == KindValue[n]
Published == TokenKinds \ LineKindNames
Consecutive(base, k) == \A i \in 2 .. k : V(base \o ToString(i)) = V(base \o "1") + (i - 1)
EnumOK ==
  /\ V("DOC_START_TOKEN") = 0                                                   \* "must be type 0"
  /\ \A n \in LineKindNames : V("BLOCK_BLOCKQUOTE") > V(n)                       \* "must start after the largest number in parser.h"
  /\ \A n \in Published : V(n) < kMaxTokenTypes                                  \* pairing tables are indexed by kind
  /\ \A a, b \in Published : a # b => V(a) # V(b)
  /\ Consecutive("BLOCK_H", 6) /\ Consecutive("HASH", 6) /\ Consecutive("MARKER_H", 6) /\ Consecutive("LINE_ATX_", 6)   \* code does (type - HASH1) + LINE_ATX_1 etc.
  /\ V("BLOCK_SETEXT_2") = V("BLOCK_SETEXT_1") + 1 /\ V("MARKER_SETEXT_2") = V("MARKER_SETEXT_1") + 1
  /\ V("LINE_FENCE_BACKTICK_4") = V("LINE_FENCE_BACKTICK_3") + 1 /\ V("LINE_FENCE_BACKTICK_5") = V("LINE_FENCE_BACKTICK_3") + 2
=============================================================================
