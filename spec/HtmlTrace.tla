------------------------------ MODULE HtmlTrace ------------------------------
EXTENDS Html, IOUtils
Tr == ndJsonDeserialize(IOEnv.TRACE)
VARIABLE l
TInit == l = 1 /\ g = [d |-> <<>>, sp |-> DefaultSp]
TNext == /\ l <= Len(Tr) /\ l' = l + 1 /\ UNCHANGED g
         /\ LET r == Tr[l] IN
            CASE r.e = "reset" -> TRUE
              [] r.e = "html"  -> /\ ~r.null /\ r.src = FullSrc(r.d, r.sp)              \* the code rendered exactly the spelling the spec wrote
                                  /\ r.out = FullHtml(r.d, r.mode, r.smart)              \* and produced the HTML the reference prescribes
              [] r.e = "comp"  -> ~r.null /\ r.whole = Cat(r.parts)                      \* independent blocks: concatenation of their own renderings, in any order
              [] OTHER -> FALSE
TraceAccepted == TLCGet("stats").diameter = Len(Tr) + 1
=============================================================================
