-------------------------- MODULE LemonParserTrace --------------------------
(* Trace validation: every Parse() call recorded through lemon's ParseTrace seam must be exactly the step     *)
(* LemonParser takes on the extracted tables -- same fallbacks, same reductions in the same order, same        *)
(* resulting stack, same outcome -- and the token fed must be a realizable line kind (or end of input           *)
(* after at least one token).  One parser instance (ParseAlloc..ParseFree) per segment.                         *)
EXTENDS LemonParser, Json, IOUtils
Tr == ndJsonDeserialize(IOEnv.TRACE)
VARIABLE l
tvars == <<vars, l>>
TInit == Init /\ l = 1
Majors(s) == [i \in 1 .. (Len(s) - 1) |-> s[i + 1][2]]
Outcome(o) == CASE o = "shifted" -> "ok" [] o = "accepted" -> "accept" [] o = "error" -> "syntax" [] o = "overflow" -> "overflow" [] OTHER -> "fail"
TNext ==
  /\ l <= Len(Tr) /\ l' = l + 1
  /\ LET r == Tr[l] IN
     IF r.e = "reset" THEN stack' = << <<0, 0>> >> /\ status' = "run" /\ fed' = 0 /\ lastTok' = 0 /\ lastRules' = <<>>
     ELSE /\ r.e = "feed" /\ status = "run"
          /\ (r.tok \in Realizable \/ (r.tok = 0 /\ fed >= 1))            \* the alphabet the model was explored over
          /\ LET d == Drive(stack, r.tok, <<>>, <<>>) IN
             /\ d[3] = r.rules /\ d[4] = r.fb /\ Outcome(d[2]) = r.out
             /\ Majors(d[1]) = r.ret
             /\ stack' = d[1] /\ lastRules' = d[3]
             /\ status' = IF d[2] = "shifted" THEN "run" ELSE IF d[2] = "accepted" THEN "accepted" ELSE "failed"
          /\ fed' = fed + 1 /\ lastTok' = r.tok
\* the property itself, on the recorded behaviour: no instance ever rejected
TraceNeverRejects == status # "failed"
TraceAccepted == TLCGet("stats").diameter = Len(Tr) + 1
=============================================================================
