---------------------------- MODULE TranscludeRich ----------------------------
(* Random file systems with nested directories, `transclude base` overrides, absolute and relative markers and   *)
(* same-named files in different directories (simulation only: the space is too large to enumerate).  The        *)
(* machine's invariants are checked on every behaviour; each final state is emitted for replay on the real code.  *)
EXTENDS Transclude, Json
VARIABLES fs, st
vars == <<fs, st>>
Root == "/R/a.txt"
Paths == {"/R/a.txt", "/R/b.txt", "/R/c.txt", "/R/s.txt", "/R/r.txt", "/R/sub/r.txt", "/R/sub/s.txt", "/R/sub/b.txt"}
Rel == {"b.txt", "c.txt", "s.txt", "r.txt", "sub/r.txt", "sub/b.txt", "zz.txt", "r.*"}
Abs == {"/R/s.txt", "/R/b.txt", "/R/sub/s.txt"}
RE(S) == RandomElement(S)
Slot(d) == LET k == RE(1 .. 5) IN IF k = 1 THEN <<>> ELSE IF k = 2 THEN <<M(RE(Abs))>> ELSE <<M(RE(Rel))>>
Content(p) == <<T(p \o ":1 ")>> \o Slot(0) \o <<T(" :2 ")>> \o Slot(1) \o <<T("\n")>>
RandFile(p) == LET mt == RE(BOOLEAN) IN [atoms |-> Content(p), meta |-> (mt /\ p # Root) \/ (p = Root /\ RE(1 .. 4) = 1), base |-> IF mt /\ RE(1 .. 2) = 1 THEN "sub" ELSE ""]
CONSTANT Mode       \* "random" (simulation) or "diamond" (exhaustive family: sharing x base override x absolute/relative markers)
Plain(p, slots) == [atoms |-> <<T(p \o ":1 ")>> \o slots \o <<T("\n")>>, meta |-> FALSE, base |-> ""]
Based(p, slots, b) == [atoms |-> <<T(p \o ":1 ")>> \o slots \o <<T("\n")>>, meta |-> b # "", base |-> b]
Inc == {"/R/s.txt", "s.txt", "b.txt", "c.txt"}
Diamonds == {[q \in Paths |->
                 CASE q = "/R/a.txt" -> Plain(q, <<M(x), T(" "), M(y)>>)
                   [] q = "/R/b.txt" -> Based(q, <<M(bs)>>, bb)
                   [] q = "/R/c.txt" -> Based(q, <<M(cs)>>, cb)
                   [] q = "/R/s.txt" -> Plain(q, ss)
                   [] q = "/R/sub/s.txt" -> Plain(q, <<M("r.txt")>>)
                   [] OTHER -> Plain(q, <<>>)] :
               x \in Inc, y \in Inc, bs \in {"/R/s.txt", "s.txt", "r.txt"}, bb \in {"", "sub"}, cs \in {"/R/s.txt", "s.txt", "r.txt"}, cb \in {"", "sub"},
               ss \in {<<M("r.txt")>>, <<>>, <<M("/R/b.txt")>>}}
Init == /\ fs \in (IF Mode = "random" THEN {[p \in Paths |-> RandFile(p)]} ELSE Diamonds) /\ st = InitSt(fs, Root, "/R/")
Next == ~st.done /\ st' = Step(fs, "html", st) /\ UNCHANGED fs
StackBounded == Len(st.frames) <= 12
NoDupManifest == \A i, j \in 1 .. Len(st.manifest) : i # j => st.manifest[i] # st.manifest[j]
Emit == st.done => PrintT(ToJson([fs |-> fs, files |-> [p \in DOMAIN fs |-> MetaText(p, fs[p]) \o Render(fs[p].atoms)]]))
=============================================================================
