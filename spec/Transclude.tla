----------------------------- MODULE Transclude -----------------------------
(* Property C13.  mmd_transclude_source as a state machine with an explicit call stack, mirroring transclude.c: *)
(* scan for the next marker, resolve it against the search folder (absolute / relative, `.*` wildcard by        *)
(* format), refuse files already on the parse stack, record the manifest, read (or find missing), descend,      *)
(* strip the child's metadata, splice, continue AFTER the spliced text.  A file system maps paths to a content  *)
(* (sequence of text and marker atoms), a metadata flag and an optional `transclude base`.                      *)
(* TLC checks for EVERY file system of the bounded shape: every behaviour ends (no infinite behaviour: the      *)
(* call stack and the output are bounded), the manifest has no duplicates, and for acyclic include graphs       *)
(* the result is the declarative recursive substitution Subst.                                                  *)
EXTENDS Integers, Sequences, FiniteSets, TLC

\* ---- strings and paths ---------------------------------------------------------------------------------------
EndsWith(s, suf) == Len(s) >= Len(suf) /\ SubSeq(s, Len(s) - Len(suf) + 1, Len(s)) = suf
RECURSIVE LastSlash(_, _)
LastSlash(p, i) == IF i = 0 THEN 0 ELSE IF SubSeq(p, i, i) = "/" THEN i ELSE LastSlash(p, i - 1)
Dir(p) == SubSeq(p, 1, LastSlash(p, Len(p)))                                     \* with trailing separator, as split_path_file
Ext(fmt) == CASE fmt \in {"html", "epub"} -> ".html" [] fmt \in {"latex", "beamer", "memoir"} -> ".tex" [] fmt \in {"fodt", "odt"} -> ".fodt" [] OTHER -> ".txt"
Resolve(search, m, fmt) ==
  LET p == IF SubSeq(m, 1, 1) = "/" THEN m ELSE search \o m IN
  IF Len(m) > 1 /\ fmt # "mmd" /\ EndsWith(m, ".*") THEN SubSeq(p, 1, Len(p) - 2) \o Ext(fmt) ELSE p

\* the file system resolves "." and ".." components; the library passes the concatenated string to it as is
RECURSIVE SplitAt(_, _, _), NormC(_, _)
SplitAt(p, i, cur) == IF i > Len(p) THEN <<cur>> ELSE IF SubSeq(p, i, i) = "/" THEN <<cur>> \o SplitAt(p, i + 1, "") ELSE SplitAt(p, i + 1, cur \o SubSeq(p, i, i))
NormC(cs, acc) == IF cs = <<>> THEN acc
                  ELSE LET c == Head(cs) IN
                       IF c = "." \/ (c = "" /\ acc # <<>>) THEN NormC(Tail(cs), acc)              \* "." and doubled separators name the same folder
                       ELSE IF c = ".." /\ acc # <<>> /\ acc[Len(acc)] \notin {"..", ""} THEN NormC(Tail(cs), SubSeq(acc, 1, Len(acc) - 1))
                       ELSE NormC(Tail(cs), Append(acc, c))
RECURSIVE JoinSl(_)
JoinSl(cs) == IF cs = <<>> THEN "" ELSE IF Len(cs) = 1 THEN cs[1] ELSE cs[1] \o "/" \o JoinSl(Tail(cs))
FsKey(p) == JoinSl(NormC(SplitAt(p, 1, ""), <<>>))
MaxMarker == 1000          \* "cap at 1000 characters": a marker whose {{...}} span reaches this is left alone
T(s) == [k |-> "t", s |-> s]
M(s) == [k |-> "m", s |-> s]
MarkerSrc(a) == IF a.k = "m" THEN "{{" \o a.s \o "}}" ELSE a.s
RECURSIVE Render(_)
Render(atoms) == IF atoms = <<>> THEN "" ELSE MarkerSrc(Head(atoms)) \o Render(Tail(atoms))
RECURSIVE RepX(_)
RepX(n) == IF n = 0 THEN "" ELSE "x" \o RepX(n - 1)
\* pad (optional field): an "Abstract" of that many characters before the other keys -- the size of a metadata block has no bearing on what is stripped or honoured
\* first (optional field): the base override is the first (with an empty f.cont etc., the only) key of the block
MetaText(path, f) == IF f.meta /\ "first" \in DOMAIN f THEN "Transclude Base: " \o f.base \o "\n" \o (IF f.first = 2 THEN "Title: t\n" ELSE "") \o "\n"
                     ELSE IF f.meta THEN "Title: t\n" \o (IF "cont" \in DOMAIN f THEN "Author: Jane\nDoe and others\nDate: 2020\n" ELSE "") \o (IF "pad" \in DOMAIN f THEN "Abstract: " \o RepX(f.pad) \o "\n" ELSE "") \o (IF f.base # "" THEN "Transclude Base: " \o f.base \o "\n" ELSE "") \o "\n" ELSE ""

\* ---- the machine -----------------------------------------------------------------------------------------------
\* st = [frames, pstack, manifest, done, out];  frame = [path, search, buf, pos, depth]
\* fs: function from path to [atoms, meta, base]
SearchOf(fs, path, inherited) == IF fs[FsKey(path)].meta /\ fs[FsKey(path)].base # "" THEN Dir(path) \o fs[FsKey(path)].base \o "/" ELSE inherited
InitSt(fs, root, search) ==
  [frames |-> << [path |-> root, search |-> SearchOf(fs, root, search), buf |-> fs[FsKey(root)].atoms, pos |-> 1, depth |-> 0] >>,
   pstack |-> <<>>, manifest |-> <<>>, done |-> FALSE, out |-> <<>>]
InSeq(x, s, n) == \E i \in 1 .. n : s[i] = x
Step(fs, fmt, st) ==
  LET n == Len(st.frames)
      f == st.frames[n] IN
  IF f.pos > Len(f.buf) THEN
       \* end of this file: return to the including file (transclude.c after the recursive call)
       IF n = 1 THEN [st EXCEPT !.done = TRUE, !.out = f.buf]
       ELSE LET p == st.frames[n - 1]
                \* the child's metadata block is stripped; the blank line that ended it stays
                ins == (IF fs[FsKey(f.path)].meta THEN <<T("\n")>> ELSE <<>>) \o f.buf
                nb == SubSeq(p.buf, 1, p.pos - 1) \o ins \o SubSeq(p.buf, p.pos + 1, Len(p.buf)) IN
            [st EXCEPT !.frames = Append(SubSeq(st.frames, 1, n - 2), [p EXCEPT !.buf = nb, !.pos = p.pos + Len(ins)]),   \* continue after the spliced text
                       !.pstack = SubSeq(st.pstack, 1, Len(st.pstack) - 1)]
  ELSE LET a == f.buf[f.pos] IN
       IF a.k = "t" \/ a.s = "TOC" \/ Len(a.s) + 2 >= MaxMarker THEN [st EXCEPT !.frames[n].pos = f.pos + 1]     \* text, {{TOC}}, or too long to be a file name
       ELSE LET path == Resolve(f.search, a.s, fmt) IN
            IF InSeq(path, st.pstack, f.depth) THEN [st EXCEPT !.frames[n].pos = f.pos + 1]          \* already being parsed: leave the marker
            ELSE LET man == IF InSeq(path, st.manifest, Len(st.manifest)) THEN st.manifest ELSE Append(st.manifest, path) IN
                 IF FsKey(path) \notin DOMAIN fs THEN [st EXCEPT !.frames[n].pos = f.pos + 1, !.manifest = man]   \* missing file: marker stays
                 ELSE [st EXCEPT !.frames = Append(st.frames, [path |-> path, search |-> SearchOf(fs, path, f.search), buf |-> fs[FsKey(path)].atoms, pos |-> 1,
                                                                depth |-> Len(st.pstack) + 1]),
                                 !.pstack = Append(st.pstack, path), !.manifest = man]
RECURSIVE Run(_, _, _, _)
Run(fs, fmt, st, fuel) == IF st.done \/ fuel = 0 THEN st ELSE Run(fs, fmt, Step(fs, fmt, st), fuel - 1)

\* ---- declarative meaning for acyclic include graphs -------------------------------------------------------------
RECURSIVE Subst(_, _, _, _, _)
Subst(fs, fmt, atoms, search, fuel) ==
  IF atoms = <<>> \/ fuel = 0 THEN atoms
  ELSE LET a == Head(atoms) rest == Subst(fs, fmt, Tail(atoms), search, fuel) IN
       IF a.k = "t" \/ a.s = "TOC" \/ Len(a.s) + 2 >= MaxMarker THEN <<a>> \o rest
       ELSE LET path == Resolve(search, a.s, fmt) IN
            IF FsKey(path) \notin DOMAIN fs THEN <<a>> \o rest
            ELSE (IF fs[FsKey(path)].meta THEN <<T("\n")>> ELSE <<>>) \o Subst(fs, fmt, fs[FsKey(path)].atoms, SearchOf(fs, path, search), fuel - 1) \o rest
Targets(fs, fmt, path, search) == {FsKey(Resolve(SearchOf(fs, path, search), fs[path].atoms[i].s, fmt)) : i \in {j \in 1 .. Len(fs[path].atoms) : fs[path].atoms[j].k = "m"}}
=============================================================================
