----------------------------- MODULE TokenPool -----------------------------
(* The shared token pool and its init/drain/free use counter (token.c, object_pool.c) -- property C18.  *)
(* One action per call of the protocol; allocation is the bump allocator of pool_allocate_object.        *)
(* "Well-bracketed" is a discipline of the environment: a caller lets go of its token trees before the  *)
(* drain that closes its outermost bracket (guard of PDrain), and frees only at count 0.                *)
EXTENDS Integers, Sequences, FiniteSets, TLC
CONSTANTS
          \* @type: Int;
          SlabSize,      \* kNumberOfObjects: 1024 in the code
          \* @type: Set(Int);
          Docs,          \* document ids
          \* @type: Int -> Int;
          Need,          \* Need[d] = tokens a conversion of d allocates
          \* @type: Set(Int);
          Engines,       \* engine slots a caller may hold trees in
          \* @type: Int;
          MaxHist,
          \* @type: Bool;
          KeepHist,
          \* @type: Bool;
          Defect_CountOnlyFirstInit,   \* seeded-defect classes, to show the invariants are not vacuous
          \* @type: Bool;
          Defect_NoResetOnDrain
VARIABLES
          \* @type: Bool;
          exists,        \* token_pool != NULL
          \* @type: Int;
          count,         \* token_pool_count
          \* @type: Int;
          depth,         \* the environment's own bracket depth: inits not yet matched by a drain
          \* @type: Int;
          slabs,         \* slabs on pool.allocated in the current epoch
          \* @type: Int;
          nextSlot,      \* pool.next as an object offset into the newest slab; SlabSize = "next == last"
          \* @type: Int;
          epoch,         \* bumped whenever slabs are released: <<epoch, slab>> names one malloc'd slab
          \* @type: Int -> <<Int, Int, Int>>;
          held,          \* Engines -> 0 (nothing) or the <<epoch, firstObj, lastObj>> range its tree lives in
          \* @type: Bool;
          stale,         \* TRUE if next/last still point into a released slab (only with Defect_NoResetOnDrain)
          \* @type: Seq({a: Str, d: Int, e: Int});
          hist
vars == <<exists, count, depth, slabs, nextSlot, epoch, held, stale, hist>>

\* @type: <<Int, Int, Int>>;
Nothing == <<0, 0, 0>>
Init == /\ exists = FALSE /\ count = 0 /\ depth = 0 /\ slabs = 0 /\ nextSlot = SlabSize /\ epoch = 0
        /\ held = [e \in Engines |-> Nothing] /\ stale = FALSE /\ hist = <<>>
Log(a) == hist' = IF KeepHist THEN Append(hist, a) ELSE hist

Pos == IF slabs = 0 THEN 0 ELSE (slabs - 1) * SlabSize + nextSlot       \* objects handed out in this epoch
\* n allocations by "if next == last add a slab; hand out next; next += size"
SlabsAfter(n) == IF n = 0 THEN slabs ELSE LET s == (Pos + n + SlabSize - 1) \div SlabSize IN IF s > slabs THEN s ELSE slabs
NextAfter(n) == IF n = 0 THEN nextSlot ELSE (Pos + n) - (SlabsAfter(n) - 1) * SlabSize

PInit == /\ Len(hist) < MaxHist
         /\ IF exists THEN UNCHANGED <<slabs, nextSlot>> ELSE slabs' = 1 /\ nextSlot' = 0
         /\ exists' = TRUE
         /\ count' = IF Defect_CountOnlyFirstInit /\ exists THEN count ELSE count + 1
         /\ depth' = depth + 1
         /\ UNCHANGED <<epoch, held, stale>> /\ Log([a |-> "init", d |-> 0, e |-> 0])

Release == /\ slabs' = 0 /\ epoch' = epoch + 1
           /\ IF Defect_NoResetOnDrain THEN stale' = TRUE /\ UNCHANGED nextSlot ELSE stale' = FALSE /\ nextSlot' = SlabSize

PDrain == /\ Len(hist) < MaxHist /\ exists /\ depth > 0
          /\ (depth = 1 => \A e \in Engines : held[e] = Nothing)     \* trees are let go before the outermost drain
          /\ count' = count - 1 /\ depth' = depth - 1
          /\ IF count' = 0 THEN Release ELSE UNCHANGED <<slabs, nextSlot, epoch, stale>>
          /\ UNCHANGED <<exists, held>> /\ Log([a |-> "drain", d |-> 0, e |-> 0])

\* token_pool_free: effective only at count 0 (otherwise the code prints an error and does nothing)
\* (with no pool at all -- a second free, or a free before the first init -- there is nothing to release: the call is a no-op)
PFree == /\ Len(hist) < MaxHist /\ depth = 0
         /\ IF ~exists THEN UNCHANGED <<exists, slabs, nextSlot, epoch, stale>>
            ELSE IF count = 0 THEN exists' = FALSE /\ slabs' = 0 /\ nextSlot' = SlabSize /\ epoch' = epoch + 1 /\ stale' = FALSE
                         ELSE UNCHANGED <<exists, slabs, nextSlot, epoch, stale>>
         /\ UNCHANGED <<count, depth, held>> /\ Log([a |-> "free", d |-> 0, e |-> 0])

Alloc(n) == /\ slabs' = SlabsAfter(n) /\ nextSlot' = NextAfter(n)
\* a conversion: allocates Need[d] tokens, returns bytes, keeps nothing
Convert(d, n) == /\ Len(hist) < MaxHist /\ exists /\ depth > 0
              /\ Alloc(n) /\ UNCHANGED <<exists, count, depth, epoch, held, stale>> /\ Log([a |-> "convert", d |-> d, e |-> 0])
\* mmd_engine_parse_string on an engine the caller keeps: the tree stays referenced
ParseKeep(e, d, n) == /\ Len(hist) < MaxHist /\ exists /\ depth > 0
                   /\ Alloc(n) /\ held' = [held EXCEPT ![e] = <<epoch, Pos + 1, Pos + n>>]
                   /\ UNCHANGED <<exists, count, depth, epoch, stale>> /\ Log([a |-> "parse", d |-> d, e |-> e])
\* the caller walks a tree it holds
Inspect(e) == /\ Len(hist) < MaxHist /\ held[e] # Nothing
              /\ UNCHANGED <<exists, count, depth, slabs, nextSlot, epoch, held, stale>> /\ Log([a |-> "inspect", d |-> 0, e |-> e])
\* the caller frees the engine (lets go of the tree)
LetGo(e) == /\ Len(hist) < MaxHist /\ held[e] # Nothing /\ held' = [held EXCEPT ![e] = Nothing]
            /\ UNCHANGED <<exists, count, depth, slabs, nextSlot, epoch, stale>> /\ Log([a |-> "letgo", d |-> 0, e |-> e])

Next == PInit \/ PDrain \/ PFree \/ (\E d \in Docs : Convert(d, Need[d])) \/ (\E e \in Engines, d \in Docs : ParseKeep(e, d, Need[d]))
        \/ (\E e \in Engines : Inspect(e) \/ LetGo(e))
Spec == Init /\ [][Next]_vars

\* ---- properties --------------------------------------------------------------------------------------
SlotInRange == nextSlot \in 0..SlabSize
\* tokens stay valid until the outermost drain: a held tree never lies in a released slab
NoDangling == \A e \in Engines : held[e] # Nothing => (held[e][1] = epoch /\ held[e][3] <= Pos)
\* memory is released at the outermost drain
ReleasedAtOutermostDrain == (exists /\ depth = 0) => slabs = 0
\* a later init starts from a clean pool: never allocate through pointers into a released slab
CleanStart == (stale /\ slabs = 0) => (nextSlot = SlabSize)
CleanAfterFree == ~exists => (slabs = 0 /\ nextSlot = SlabSize /\ count = 0)
CounterAgrees == count = depth          \* the use counter is the environment's bracket depth
\* ---- inductive invariant (spec/apalache/TokenPoolInd.tla: discharged by Apalache for histories of any length; checked by TLC as an ordinary invariant too)
IndInv == /\ DOMAIN held = Engines
          /\ count = depth /\ depth >= 0 /\ epoch >= 0 /\ slabs >= 0
          /\ nextSlot >= 0 /\ nextSlot <= SlabSize
          /\ ~stale
          /\ (slabs = 0 => nextSlot = SlabSize)
          /\ (~exists => depth = 0)
          /\ (depth = 0 => slabs = 0)
          /\ \A e \in Engines : \/ held[e] = Nothing
                                \/ (depth > 0 /\ held[e][1] = epoch /\ held[e][2] >= 1 /\ held[e][2] <= held[e][3] /\ held[e][3] <= Pos)
=============================================================================
