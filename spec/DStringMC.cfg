CONSTANTS StartCap = 4
          MaxOps = 3
INIT InitMC
NEXT NextMC
INVARIANTS CapOK Laws CapGrowthOK
CHECK_DEADLOCK FALSE
