--------------------------- MODULE TranscludeTrace ---------------------------
(* Trace validation for C13: text and manifest produced by the real mmd_transclude_source / manifest API / CLI   *)
(* on a materialised file system must be what the Transclude machine produces on the same file system.           *)
EXTENDS Transclude, Json, IOUtils
Tr == ndJsonDeserialize(IOEnv.TRACE)
VARIABLE l
TInit == l = 1
FsOf(r) == [p \in DOMAIN r.fs |-> r.fs[p]]
TNext == /\ l <= Len(Tr) /\ l' = l + 1
         /\ LET r == Tr[l] IN
            IF r.e = "reset" THEN TRUE
            ELSE /\ r.e = "transclude" /\ ~r.null                                   \* returned (watchdog did not fire)
                 /\ LET fin == Run(FsOf(r), r.fmt, InitSt(FsOf(r), r.root, r.search), 2000) IN
                    /\ fin.done
                    /\ (r.api \in {"src", "cli"} => r.out = MetaText(r.root, r.fs[r.root]) \o Render(fin.out))
                    /\ (r.api # "cli" => [i \in 1 .. Len(r.manifest) |-> FsKey(r.manifest[i])] = [i \in 1 .. Len(fin.manifest) |-> FsKey(fin.manifest[i])])                  \* each referenced file exactly once, in order of first reference
TraceAccepted == TLCGet("stats").diameter = Len(Tr) + 1
=============================================================================
