------------------------------ MODULE LineSpell ------------------------------
(* The spellings LineKinds builds documents from, and what a reader must still find of them in a rendering.      *)
(* `first`: the kind the classifier assigns when the spelling is the first line of a MultiMarkdown document.     *)
(* `w`: the word the line contributes to the visible text ("" when it has none worth counting).                  *)
(* `hide`: the spelling can take OTHER lines out of sight -- it opens an HTML block or comment (raw in HTML,      *)
(* dropped elsewhere), a definition whose text is shown only when referred to (and which lazily continues over   *)
(* following lines), or a metadata / YAML block at the top.  A document without such lines is `Readable`: every  *)
(* word-bearing line is then visible text in every writer, as often as it was written (a table of contents or a  *)
(* label may repeat it -- more is allowed, fewer is a dropped line).  The outline formats (OPML, iThoughts)      *)
(* carry the source text itself, so for them the count holds for every document.                                 *)
EXTENDS Integers, Sequences, FiniteSets
Spell == <<
  [t |-> "* * *",           first |-> "LINE_HR", w |-> "", hide |-> FALSE],
  [t |-> "===",             first |-> "LINE_SETEXT_1", w |-> "", hide |-> FALSE],
  [t |-> "---",             first |-> "LINE_YAML", w |-> "", hide |-> TRUE],
  [t |-> "plain text",      first |-> "LINE_PLAIN", w |-> "plain", hide |-> FALSE],
  [t |-> "\ttabbed",        first |-> "LINE_INDENTED_TAB", w |-> "tabbed", hide |-> FALSE],
  [t |-> "    spaced",      first |-> "LINE_INDENTED_SPACE", w |-> "spaced", hide |-> FALSE],
  [t |-> " \tmixed",        first |-> "LINE_INDENTED_TAB", w |-> "mixed", hide |-> FALSE],          \* one to three blanks, then a tab: indented all the same
  [t |-> "a | b",           first |-> "LINE_TABLE", w |-> "", hide |-> FALSE],
  [t |-> "--|:-:",          first |-> "LINE_TABLE_SEPARATOR", w |-> "", hide |-> FALSE],
  [t |-> "<div>",           first |-> "LINE_HTML", w |-> "", hide |-> TRUE],
  [t |-> "# h1",            first |-> "LINE_ATX_1", w |-> "h1", hide |-> FALSE],
  [t |-> "## h2 ##",        first |-> "LINE_ATX_2", w |-> "h2", hide |-> FALSE],
  [t |-> "###### h6",       first |-> "LINE_ATX_6", w |-> "h6", hide |-> FALSE],
  [t |-> "> quote",         first |-> "LINE_BLOCKQUOTE", w |-> "quote", hide |-> FALSE],
  [t |-> "* item",          first |-> "LINE_LIST_BULLETED", w |-> "item", hide |-> FALSE],
  [t |-> "1. item",         first |-> "LINE_LIST_ENUMERATED", w |-> "item", hide |-> FALSE],
  [t |-> "[>abbr]: Abbr",   first |-> "LINE_DEF_ABBREVIATION", w |-> "", hide |-> TRUE],
  [t |-> "[#cite]: Cite",   first |-> "LINE_DEF_CITATION", w |-> "", hide |-> TRUE],
  [t |-> "[^fn]: Note",     first |-> "LINE_DEF_FOOTNOTE", w |-> "", hide |-> TRUE],
  [t |-> "[?gl]: Term",     first |-> "LINE_DEF_GLOSSARY", w |-> "", hide |-> TRUE],
  [t |-> "[lnk]: http://x", first |-> "LINE_DEF_LINK", w |-> "", hide |-> TRUE],
  [t |-> "{{TOC}}",         first |-> "LINE_TOC", w |-> "", hide |-> FALSE],
  [t |-> ": definition",    first |-> "LINE_DEFINITION", w |-> "definition", hide |-> FALSE],
  [t |-> "Key: value",      first |-> "LINE_META", w |-> "", hide |-> TRUE],
  [t |-> "```",             first |-> "LINE_FENCE_BACKTICK_3", w |-> "", hide |-> FALSE],
  [t |-> "`````",           first |-> "LINE_FENCE_BACKTICK_5", w |-> "", hide |-> FALSE],
  [t |-> "```c",            first |-> "LINE_FENCE_BACKTICK_START_3", w |-> "", hide |-> FALSE],
  [t |-> "-->",             first |-> "LINE_STOP_COMMENT", w |-> "", hide |-> TRUE],
  [t |-> "",                first |-> "LINE_EMPTY", w |-> "", hide |-> FALSE],
  [t |-> "<!--",            first |-> "LINE_START_COMMENT", w |-> "", hide |-> TRUE],
  [t |-> "| c |",           first |-> "LINE_TABLE", w |-> "", hide |-> FALSE],
  [t |-> "   + item",       first |-> "LINE_LIST_BULLETED", w |-> "item", hide |-> FALSE],
  [t |-> "[x]: y \"t\"",    first |-> "LINE_DEF_LINK", w |-> "", hide |-> TRUE],
  [t |-> "[cap]",           first |-> "LINE_PLAIN", w |-> "cap", hide |-> FALSE],
  \* a bracket followed by a parenthesis that only MultiMarkdown reads as a destination (attributes): in compatibility mode the parenthesis is text (word `wc`)
  [t |-> "[cap](destw \"t\" key=value)", first |-> "LINE_PLAIN", w |-> "", hide |-> FALSE, wc |-> "destw"],
  [t |-> "[cap]: http://x", first |-> "LINE_DEF_LINK", w |-> "", hide |-> TRUE] >>
N == Len(Spell)
WordIn(i, compat) == IF compat /\ "wc" \in DOMAIN Spell[i] THEN Spell[i].wc ELSE Spell[i].w          \* the word spelling i shows in that mode
Words == ({Spell[i].w : i \in 1 .. N} \cup {Spell[i].wc : i \in {j \in 1 .. N : "wc" \in DOMAIN Spell[j]}}) \ {""}
\* (a metadata line and the blank line that ends the block may come first: what follows is judged as a document of its own)
Body(seq) == IF Len(seq) >= 2 /\ Spell[seq[1]].t = "Key: value" /\ Spell[seq[2]].t = "" THEN SubSeq(seq, 3, Len(seq)) ELSE seq
Readable(seq) == \A i \in 1 .. Len(Body(seq)) : ~Spell[Body(seq)[i]].hide
\* (a bracket that ends the text of a Setext heading is that heading's label, not text)
IsLabel(seq, i) == Spell[seq[i]].t = "[cap]" /\ i < Len(seq) /\ Spell[seq[i + 1]].t \in {"===", "---"}
Need(seq, w, compat) == Cardinality({i \in 1 .. Len(seq) : WordIn(seq[i], compat) = w /\ ~IsLabel(seq, i)})
\* ---- line by line: which lines of ANY document are still in sight ---------------------------------------------------
\* A hiding line takes along the lines that follow it up to the next blank line (an HTML block, a definition and its lazy continuation, the metadata
\* block at the top); a comment may stay open across blank lines; indented lines after a blank line still belong to an earlier definition.
Txt(seq, i) == Spell[seq[i]].t
GroupStart(seq, i) == LET B == {j \in 1 .. (i - 1) : Txt(seq, j) = ""} IN IF B = {} THEN 1 ELSE 1 + CHOOSE j \in B : \A k \in B : k <= j
IsDef(seq, j) == Spell[seq[j]].first \in {"LINE_DEF_ABBREVIATION", "LINE_DEF_CITATION", "LINE_DEF_FOOTNOTE", "LINE_DEF_GLOSSARY", "LINE_DEF_LINK"}
Exposed(seq, i) == /\ ~Spell[seq[i]].hide
                   /\ \A j \in GroupStart(seq, i) .. (i - 1) : ~Spell[seq[j]].hide
                   /\ \A j \in 1 .. (i - 1) : Txt(seq, j) # "<!--"
                   /\ ~(Txt(seq, i) \in {"\ttabbed", "    spaced", " \tmixed"} /\ \E j \in 1 .. (i - 1) : IsDef(seq, j))
                   \* (... and the lines that lazily continue such an indented line belong to the definition with it)
                   /\ \A j \in GroupStart(seq, i) .. (i - 1) : ~(Txt(seq, j) \in {"\ttabbed", "    spaced", " \tmixed"} /\ \E k \in 1 .. (j - 1) : IsDef(seq, k))
                   /\ Txt(seq, 1) # "---"
NeedExposed(seq, w, compat) == Cardinality({i \in 1 .. Len(seq) : WordIn(seq[i], compat) = w /\ Exposed(seq, i) /\ ~IsLabel(seq, i)})
\* cnt: word -> occurrences in the rendering's text (markup removed); carries: the format keeps the source text itself
\* (metadata keys are unique: when the block at the top gives the key a second time, that value -- and the lines it lazily continues over -- is not kept anywhere)
MetaStart(seq) == IF Spell[seq[1]].t = "---" THEN 2 ELSE 1          \* (the block may be YAML-fenced)
DupKey(seq) == LET m == MetaStart(seq) IN Len(seq) > m /\ Spell[seq[m]].t = "Key: value" /\ \E i \in (m + 1) .. Len(seq) : Spell[seq[i]].t = "Key: value" /\ \A j \in (m + 1) .. i : Spell[seq[j]].t # ""
Complete(seq, cnt, carries, compat) == IF (carries /\ ~DupKey(seq)) \/ Readable(seq) THEN \A w \in Words : cnt[w] >= Need(seq, w, compat)
                                       ELSE \A w \in Words : cnt[w] >= NeedExposed(seq, w, compat)
=============================================================================
