-------------------------------- MODULE Cost --------------------------------
(* Property C07.                                                                                                  *)
(* (1) Recursion structure.  Depth of the token tree is produced only by builders that carry a depth guard          *)
(*     (block parser re-entry, pair matching) and every tree walker recurses on `child` only, so a walker's         *)
(*     depth is bounded by the builders' limit however deep the input nests: model-checked on an abstract           *)
(*     nesting machine with the limits scaled down.                                                                 *)
(* (2) Generators: nesting constructs x depths x shapes; k-fold repetitions of seed documents.                      *)
(* (3) Monitor: measured recursion depth, stack extent and executed basic blocks of real conversions must           *)
(*     satisfy the bounds and the linearity inequality blocks(d^k) <= C * k * blocks(d).                             *)
EXTENDS Integers, Sequences, FiniteSets, TLC, Json, IOUtils
CONSTANTS Limit,        \* guard value (1000 in the code; small when model checking)
          MaxNest, Sim, Mode

\* ---- (1) abstract nesting machine ----------------------------------------------------------------------------------
\* input nesting n; the guarded builder stops descending at Limit, so the tree it builds has depth min(n, Limit) + 1 (the undescended rest is one flat token)
TreeDepth(n) == (IF n < Limit THEN n ELSE Limit) + 1
\* a walker recursing on child visits depth <= TreeDepth; writers add their own guard at Limit
WalkerDepth(n) == TreeDepth(n)
WriterDepth(n) == IF TreeDepth(n) < Limit THEN TreeDepth(n) ELSE Limit
VARIABLES n, g, l, base
RInit == n = 0 /\ g = 0 /\ l = 0 /\ base = 0
RNext == n < MaxNest /\ n' = n + 1 /\ UNCHANGED <<g, l, base>>
Bounded == WalkerDepth(n) <= Limit + 1 /\ WriterDepth(n) <= Limit /\ TreeDepth(n) <= Limit + 1
Monotone == n > 0 => TreeDepth(n) >= TreeDepth(n - 1)

\* ---- (2) generators ----------------------------------------------------------------------------------------------------
Openers == << [o |-> "[", c |-> "]"], [o |-> "[[", c |-> "]]"], [o |-> "![", c |-> "]"], [o |-> "[^", c |-> "]"], [o |-> "[#", c |-> "]"], [o |-> "[?", c |-> "]"], [o |-> "[>", c |-> "]"],
              [o |-> "(", c |-> ")"], [o |-> "*", c |-> "*"], [o |-> "**", c |-> "**"], [o |-> "_", c |-> "_"], [o |-> "\"", c |-> "\""], [o |-> "'", c |-> "'"],
              [o |-> "> ", c |-> ""], [o |-> "* ", c |-> ""], [o |-> "  ", c |-> ""], [o |-> "{++", c |-> "++}"], [o |-> "{--", c |-> "--}"], [o |-> "{==", c |-> "==}"],
              [o |-> "{>>", c |-> "<<}"], [o |-> "{~~", c |-> "~~}"], [o |-> "$", c |-> "$"], [o |-> "$$", c |-> "$$"], [o |-> "\\\\(", c |-> "\\\\)"], [o |-> "\\\\[", c |-> "\\\\]"],
              [o |-> "{", c |-> "}"], [o |-> "<!--", c |-> "-->"], [o |-> "`", c |-> "`"], [o |-> "<", c |-> ">"], [o |-> "x^", c |-> "^"], [o |-> "x~", c |-> "~"], [o |-> "*_", c |-> "_*"],
              [o |-> "\"a 'a ", c |-> " a' a\""] >>       \* (double and single quotes nested in turn, each next to a word as quotation marks are)
Shapes == {"open", "balanced", "close", "interleaved"}
GInit == g \in {[op |-> i, shape |-> s] : i \in 1 .. Len(Openers), s \in Shapes} /\ n = 0 /\ l = 0 /\ base = 0
GNext == FALSE /\ UNCHANGED <<n, g, l, base>>
Emit == PrintT(ToJson([op |-> g.op, shape |-> g.shape, o |-> Openers[g.op].o, c |-> Openers[g.op].c]))

\* ---- (3) monitor ----------------------------------------------------------------------------------------------------------
C == 3                 \* allowed constant of proportionality
StackBoundKiB == 4096               \* half of the usual 8 MiB main-thread stack
GrowthKiB == 256                    \* beyond the guards' reach (nesting 2000) the stack must not keep growing with the nesting depth
BaseDepth == 2000
Tr == ndJsonDeserialize(IOEnv.TRACE)
TInit == l = 1 /\ base = ("" :> 0) /\ n = 0 /\ g = 0
TNext == /\ l <= Len(Tr) /\ l' = l + 1 /\ UNCHANGED <<n, g>>
         /\ LET r == Tr[l] IN
            CASE r.e = "reset" -> UNCHANGED base
              [] r.e = "nest"  -> /\ ~r.null /\ r.stackkib <= StackBoundKiB                                  \* deep nesting degrades, never exhausts the stack
                                  /\ r.deep = <<>>                              \* no function has more frames active at once than a depth guard (Limit, with slack: 1500) admits
                                  /\ (IF r.depth = BaseDepth THEN base' = base @@ (r.key :> r.stackkib)
                                      ELSE /\ (r.key \in DOMAIN base => r.stackkib <= base[r.key] + GrowthKiB)         \* bounded: independent of how deep the input nests
                                           /\ UNCHANGED base)
              [] r.e = "cost"  -> /\ ~r.null
                                  /\ (IF r.k = 1 THEN base' = base @@ (r.seed :> r.kblocks)
                                      ELSE /\ r.seed \in DOMAIN base
                                           /\ r.kblocks <= C * r.k * (base[r.seed] + 1)                          \* work grows proportionally to the number of copies
                                           /\ UNCHANGED base)
              [] OTHER -> FALSE
TraceAccepted == TLCGet("stats").diameter = Len(Tr) + 1
=============================================================================
