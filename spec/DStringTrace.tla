---------------------------- MODULE DStringTrace ----------------------------
(* Trace validation for C19.  Every recorded call of the real d_string.c must be the step the ideal      *)
(* model takes: same content, recorded length = content length = strlen, NUL-terminated, and             *)
(* length < recorded capacity <= real allocation.                                                         *)
EXTENDS DString, Json, IOUtils
Tr == ndJsonDeserialize(IOEnv.TRACE)
VARIABLE l
tvars == <<s, cap, l>>
TInit == s = "" /\ cap = 0 /\ l = 1
Obs(r, t) ==
  /\ r.s = t /\ r.len = Len(t) /\ r.strlen = Len(t) /\ r.nul
  /\ r.len < r.cap /\ r.cap <= r.usable
  /\ (r.op = "copy" => LET c == CopyOf(s, r.pos, r.len0) IN IF c[1] THEN r.ret = c[2] ELSE r.ret = "NULL")
  /\ (r.op = "replace" => r.delta = Len(t) - Len(s))
TNext ==
  /\ l <= Len(Tr)
  /\ LET r == Tr[l] IN
     IF r.e = "reset" THEN s' = "" /\ cap' = 0
     ELSE LET o == [op |-> r.op, pos |-> r.pos, len |-> r.len0, p |-> r.p, q |-> r.q, c |-> r.c, k |-> r.k, a |-> r.a] IN
          /\ r.e = "ds" /\ PreOK(s, o)
          /\ s' = Apply(s, o) /\ cap' = r.cap
          /\ Obs(r, s')
  /\ l' = l + 1
TSpec == TInit /\ [][TNext]_tvars
Accepted == l = Len(Tr) + 1
\* POSTCONDITION: the whole trace was consumed
TraceAccepted == TLCGet("stats").diameter = Len(Tr) + 1
=============================================================================
