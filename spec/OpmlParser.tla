------------------------------ MODULE OpmlParser ------------------------------
(* Property C14, import half.  The lemon driver of LemonParser (OpmlLemonDriver is the same text over the tables      *)
(* extracted from opml-parser.c of the tree under test) fed with every token sequence an outline document can         *)
(* consist of: optional XML declaration, <opml>, optional <head> with optional <title>, <body>, outlines nested to    *)
(* MaxDepth -- plain, self-closed, the preamble item, the metadata item with its children --, closing tags, end of     *)
(* input.  The generator's state is finite (phase + the open outlines), the parser stack is bounded by it, so TLC      *)
(* explores all of it: documents of any width are covered, only the nesting depth is bounded.                          *)
EXTENDS OpmlLemonDriver
CONSTANTS MaxDepth,
          Worst       \* TRUE: only the documents that need the most parser stack per nesting level (every outline is preceded by a sibling) -- to find the depth the stack allows
VARIABLES phase,     \* where in the document the generator is
          depth,     \* number of open outlines
          meta,      \* the outermost open outline is the metadata item (written at the top level only, as the exporter does)
          kid,       \* the innermost open outline already has a child
          closing    \* (Worst only) an outline has been closed: the single deepest document is on its way out
gvars == <<vars, phase, depth, meta, kid, closing>>
GInit == Init /\ phase = "start" /\ depth = 0 /\ meta = FALSE /\ kid = FALSE /\ closing = FALSE
Emits(k, ph, d, m, c) == Feed(k) /\ phase' = ph /\ depth' = d /\ meta' = m /\ kid' = c /\ closing' = (closing \/ (Worst /\ k = OPML_OUTLINE_CLOSE))
Same(k, ph) == Emits(k, ph, depth, meta, kid)
GNext ==
  \/ phase = "start"      /\ (Same(OPML_XML, "afterxml") \/ Same(OPML_OPML_OPEN, "afteropml"))
  \/ phase = "afterxml"   /\ Same(OPML_OPML_OPEN, "afteropml")
  \/ phase = "afteropml"  /\ (Same(OPML_HEAD_OPEN, "inhead") \/ Same(OPML_BODY_OPEN, "body"))
  \/ phase = "inhead"     /\ (Same(OPML_TITLE_OPEN, "intitle") \/ Same(OPML_HEAD_CLOSE, "afterhead"))
  \/ phase = "intitle"    /\ Same(OPML_TITLE_CLOSE, "aftertitle")
  \/ phase = "aftertitle" /\ Same(OPML_HEAD_CLOSE, "afterhead")
  \/ phase = "afterhead"  /\ Same(OPML_BODY_OPEN, "body")
  \/ phase = "body" /\ depth < MaxDepth /\ (Worst => kid /\ ~closing) /\ Emits(OPML_OUTLINE_OPEN, "body", depth + 1, meta, FALSE)
  \/ phase = "body" /\ depth = 0 /\ ~Worst /\ Emits(OPML_OUTLINE_METADATA, "body", 1, TRUE, FALSE)
  \/ phase = "body" /\ (Worst => ~kid /\ ~closing) /\ Emits(OPML_OUTLINE_SELF_CLOSE, "body", depth, meta, TRUE)
  \/ phase = "body" /\ ~Worst /\ Emits(OPML_OUTLINE_PREAMBLE, "preamble", depth, meta, TRUE)
  \/ phase = "preamble" /\ Same(OPML_OUTLINE_CLOSE, "body")
  \/ phase = "body" /\ depth > 0 /\ ((meta /\ depth = 1) => kid)          \* the metadata item is written only when there is metadata to put into it
                    /\ Emits(OPML_OUTLINE_CLOSE, "body", depth - 1, meta /\ depth > 1, TRUE)
  \/ phase = "body" /\ depth = 0 /\ Same(OPML_BODY_CLOSE, "afterbody")
  \/ phase = "afterbody"  /\ Same(OPML_OPML_CLOSE, "end")
  \/ phase = "end" /\ FeedEOF /\ phase' = "done" /\ UNCHANGED <<depth, meta, kid, closing>>
GView == <<stack, status, phase, depth, meta, kid, closing>>
\* every such document is parsed: no syntax error, no failure, no stack overflow, accepted at the end
Parsed == status \notin {"syntaxError", "failed", "overflow"} /\ (phase = "done" => status = "accepted")
\* the stack the parser needs, as a function of the nesting depth (TLC reports the first depth at which this exceeds YYSTACKDEPTH when MaxDepth is large)
Fits == Len(stack) <= YYSTACKDEPTH
=============================================================================
