------------------------------ MODULE Metadata ------------------------------
(* Property C11.  A document that starts with a metadata block, abstractly: an optional YAML fence, a         *)
(* sequence of entries (key, value lines), a terminator (blank line + body, end of input with / without a    *)
(* final newline).  The specification gives the serialisation Spell(doc), the documented normalisations      *)
(* (keys: lower case, spaces dropped; values: continuation lines joined, runs of white space collapsed to    *)
(* one space, trimmed -- never a non-blank character lost or added) and the effect of updates: the updated   *)
(* key reads back as the new value, every other key and the body are unchanged.                               *)
EXTENDS Integers, Sequences, TLC

\* ---- the generator's alphabets (small, chosen to contain the shapes the property names) -------------------
\* key: source spelling and normalised form
Keys == << [s |-> "Title",     n |-> "title"],
           [s |-> "Two Words", n |-> "twowords"],
           [s |-> "mIxEd9",    n |-> "mixed9"],
           [s |-> "a.b_c-d",   n |-> "a.b_c-d"],
           [s |-> "Author",    n |-> "author"],
           [s |-> "1. Intro",  n |-> "1.intro"],
           [s |-> "2019 rev",  n |-> "2019rev"],
           [s |-> "Author Affiliation", n |-> "authoraffiliation"],           \* a key that another key ("author") is a proper prefix of
           [s |-> "Title Page", n |-> "titlepage"] >>                          \* ... and one that starts with the key the document title is taken from
\* value: source lines (first line follows "key:", the others are indented continuation lines); each line is a
\* sequence of atoms; w = TRUE marks white space
W(x) == [s |-> x, w |-> TRUE]
T(x) == [s |-> x, w |-> FALSE]
Vals == << << <<T("plain"), W(" "), T("value")>> >>,
           << <<T("a"), W(" "), T("&"), W(" "), T("b")>> >>,
           << <<T("x:"), W(" "), T("y")>> >>,
           << <<T("trailing"), W("  ")>> >>,
           << <<T("multi")>>, <<T("line"), W(" "), T("two")>> >>,
           << <<T("~Uber"), W(" "), T("caf~E")>> >>,
           << <<T("two"), W("  "), T("spaces"), W("\t"), T("tab")>> >>,
           << <<T("first")>>, <<T("second")>>, <<T("third&")>> >>,
           << <<T("C:\\dir\\"), W(" "), T("My"), W(" "), T("App\\bin")>> >>,
           \* a line that ends in two spaces, continued by a line indented by ONE space that looks like a key of its own
           << <<T("first"), W(" "), T("line"), W("  ")>>, <<W(" "), T("note:"), W(" "), T("continues")>> >> >>            \* backslashes, one of them before a space
Bodies == << "", "Body paragraph.\n", "# Heading\n\ntext: with colon\n", "Note: this first paragraph looks like a key\nsecond line\n\n# Heading\n" >>
\* update values (single line)
UVals == << <<T("new")>>, <<T("a"), W(" "), T("longer"), W(" "), T("replacement"), W(" "), T("&"), W(" "), T("more")>>, <<T("10:30")>>, <<T("x")>>, <<>>, <<T("a\\"), W(" "), T("b\\c")>> >>

\* ---- serialisation ----------------------------------------------------------------------------------------
RECURSIVE Cat(_)
Cat(ss) == IF ss = <<>> THEN "" ELSE Head(ss) \o Cat(Tail(ss))
LineSrc(line) == Cat([i \in 1 .. Len(line) |-> line[i].s])
\* (a continuation line is indented by four spaces, or by the white space it starts with itself)
ValSrc(v) == LineSrc(v[1]) \o "\n" \o Cat([i \in 1 .. (Len(v) - 1) |-> (IF v[i + 1][1].w THEN "" ELSE "    ") \o LineSrc(v[i + 1]) \o "\n"])
EntrySrc(e) == Keys[e.k].s \o ": " \o ValSrc(Vals[e.v])
BlockSrc(d) == (IF d.fence THEN "---\n" ELSE "") \o Cat([i \in 1 .. Len(d.entries) |-> EntrySrc(d.entries[i])]) \o (IF d.fence THEN "---\n" ELSE "")
\* terminators: 1 = blank line then body, 2 = end of input after the final newline, 3 = end of input without a final newline
ChopNL(s) == SubSeq(s, 1, Len(s) - 1)
\*              4 = a line of white space only (a tab), then the body
Spell(d) == CASE d.term = 1 -> BlockSrc(d) \o "\n" \o Bodies[d.body]
              [] d.term = 4 -> BlockSrc(d) \o "\t\n" \o Bodies[d.body]
              [] d.term = 2 -> BlockSrc(d)
              [] OTHER      -> ChopNL(BlockSrc(d))
BlockEnd(d) == IF d.term = 3 THEN Len(BlockSrc(d)) - 1 ELSE Len(BlockSrc(d))       \* the end offset has_metadata reports

\* ---- documented normalisation of values --------------------------------------------------------------------
Flat(v) == LET RECURSIVE F(_)
               F(i) == IF i > Len(v) THEN <<>> ELSE v[i] \o (IF i < Len(v) THEN <<W("\n")>> ELSE <<>>) \o F(i + 1)
           IN F(1)
RECURSIVE CleanFrom(_, _, _)
CleanFrom(a, i, pending) ==          \* pending: white space seen since the last word (and a word was already emitted)
  IF i > Len(a) THEN ""
  ELSE IF a[i].w THEN CleanFrom(a, i + 1, pending)
  ELSE (IF pending THEN " " ELSE "") \o a[i].s \o
       (IF i < Len(a) /\ a[i + 1].w THEN CleanFrom(a, i + 1, TRUE) ELSE CleanFrom(a, i + 1, FALSE))
Clean(v) == CleanFrom(Flat(v), 1, FALSE)

\* ---- abstract state and operations -------------------------------------------------------------------------
MetaOf(d) == [i \in 1 .. Len(d.entries) |-> [k |-> Keys[d.entries[i].k].n, v |-> Clean(Vals[d.entries[i].v])]]
KeyList(m) == Cat([i \in 1 .. Len(m) |-> m[i].k \o "\n"])
Lookup(m, nk) == LET hits == {i \in 1 .. Len(m) : m[i].k = nk} IN
                 IF hits = {} THEN "NULL" ELSE m[CHOOSE i \in hits : \A j \in hits : i <= j].v
Update(m, ki, uv) ==
  LET nk == Keys[ki].n
      hits == {i \in 1 .. Len(m) : m[i].k = nk} IN
  IF hits = {} THEN Append(m, [k |-> nk, v |-> Clean(<<UVals[uv]>>)])
  ELSE [i \in 1 .. Len(m) |-> IF i = (CHOOSE h \in hits : \A j \in hits : h <= j) THEN [k |-> nk, v |-> Clean(<<UVals[uv]>>)] ELSE m[i]]
BodyOf(d) == IF d.term \in {1, 4} THEN Bodies[d.body] ELSE ""
DistinctKeys(d) == \A i, j \in 1 .. Len(d.entries) : i # j => d.entries[i].k # d.entries[j].k
=============================================================================
