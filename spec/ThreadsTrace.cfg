INIT TInit
NEXT TNext
POSTCONDITION TraceAccepted
CHECK_DEADLOCK FALSE
