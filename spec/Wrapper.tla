------------------------------- MODULE Wrapper -------------------------------
(* Property C20.  A metadata block as a sequence of distinct keys drawn from the rendering-control keys (the         *)
(* header-level family, language, quotes language, latex mode), bibtex, and ordinary keys.  The specification        *)
(* says (i) when the default output is a complete document: exactly when some key is not a rendering-control key;     *)
(* (ii) which part of the block may influence the body: BodyKey; two blocks with the same BodyPart give the same      *)
(* snippet for the same body; (iii) the snippet occurs verbatim in the complete rendering.                             *)
EXTENDS Integers, Sequences, FiniteSets, TLC, Json
CONSTANTS MaxKeys, Sim
Keys == << [k |-> "Base Header Level", v |-> "2",       control |-> TRUE,  body |-> TRUE],
           [k |-> "HTML Header Level", v |-> "3",       control |-> TRUE,  body |-> TRUE],
           [k |-> "LaTeX Header Level", v |-> "2",      control |-> TRUE,  body |-> TRUE],
           [k |-> "Language",          v |-> "de",      control |-> TRUE,  body |-> TRUE],
           [k |-> "Quotes Language",   v |-> "french",  control |-> TRUE,  body |-> TRUE],
           [k |-> "LaTeX Mode",        v |-> "memoir",  control |-> TRUE,  body |-> TRUE],
           [k |-> "BibTeX",            v |-> "refs",    control |-> FALSE, body |-> TRUE],
           [k |-> "Title",             v |-> "A Title & more", control |-> FALSE, body |-> FALSE],
           [k |-> "Author",            v |-> "Some One", control |-> FALSE, body |-> FALSE],
           [k |-> "Custom Key",        v |-> "x: y",    control |-> FALSE, body |-> FALSE],
           [k |-> "CSS",               v |-> "style.css", control |-> FALSE, body |-> FALSE],
           [k |-> "Date",              v |-> "2020-01-01", control |-> FALSE, body |-> FALSE],
           \* ordinary keys whose names merely BEGIN like the keys that insert a header / footer file
           [k |-> "MMD Footer Note",   v |-> "see the appendix", control |-> FALSE, body |-> FALSE],
           [k |-> "MMD Header Style",  v |-> "plain",   control |-> FALSE, body |-> FALSE] >>
RECURSIVE Cat(_)
Cat(ss) == IF ss = <<>> THEN "" ELSE Head(ss) \o Cat(Tail(ss))
BlockSrc(m, yaml) == IF m = <<>> THEN "" ELSE (IF yaml THEN "---\n" ELSE "") \o Cat([i \in 1 .. Len(m) |-> Keys[m[i]].k \o ": " \o Keys[m[i]].v \o "\n"]) \o (IF yaml THEN "---\n" ELSE "") \o "\n"
Complete(m) == \E i \in 1 .. Len(m) : ~Keys[m[i]].control                 \* default output is a complete document
BodyPart(m) == {m[i] : i \in {j \in 1 .. Len(m) : Keys[m[j]].body}}       \* the keys through which the block may change the body
VARIABLE m
Pick(S) == IF Sim THEN {RandomElement(S)} ELSE S
Init == m = <<>>
Next == Len(m) < MaxKeys /\ \E k \in Pick(1 .. Len(Keys)) : (\A i \in 1 .. Len(m) : m[i] # k) /\ m' = Append(m, k)
Emit == PrintT(ToJson([m |-> m, src |-> BlockSrc(m, FALSE), yamlsrc |-> BlockSrc(m, TRUE)]))
Law == (m = <<>> => ~Complete(m)) /\ (\A i \in 1 .. Len(m) : Keys[m[i]].control => Keys[m[i]].body)
=============================================================================
