----------------------------- MODULE AhoCorasick -----------------------------
(* The multi-pattern search of aho-corasick.c, on which CriticMarkup accept/reject (C12) and the automatic          *)
(* recognition of abbreviations and glossary terms rest: trie_insert, ac_trie_prepare (failure links),              *)
(* ac_trie_search (all occurrences) and match_set_filter_leftmost_longest (the selection the callers act on),       *)
(* transcribed with a trie node represented by the string that leads to it.  TLC checks, for every key set and      *)
(* text over a small alphabet, that the search reports exactly the occurrences of the keys and that the filter      *)
(* -- a pointer-juggling pass over a doubly linked list, transcribed statement by statement -- leaves exactly the   *)
(* leftmost-longest non-overlapping selection.  AhoCorasickTrace replays the same cases on the real functions.      *)
EXTENDS Integers, Sequences, FiniteSets, TLC, Json
CONSTANTS Alphabet, MaxKeyLen, MaxKeys, MaxText, Sim

RECURSIVE StringsOf(_)
StringsOf(n) == IF n = 0 THEN {""} ELSE LET S == StringsOf(n - 1) IN S \cup {s \o c : s \in {x \in S : Len(x) = n - 1}, c \in Alphabet}
KeyStrings == StringsOf(MaxKeyLen) \ {""}
Texts == StringsOf(MaxText)
Sub(s, i, n) == SubSeq(s, i, i + n - 1)            \* n characters of s from position i (1-based)
IsPrefix(p, s) == Len(p) <= Len(s) /\ Sub(s, 1, Len(p)) = p
IsSuffix(p, s) == Len(p) <= Len(s) /\ Sub(s, Len(s) - Len(p) + 1, Len(p)) = p

\* ---- the automaton (a node = the string spelled on the way to it) ---------------------------------------------------
\* keys: sequence of distinct strings; the match type of keys[i] is i
Nodes(keys) == UNION {{Sub(keys[i], 1, n) : n \in 0 .. Len(keys[i])} : i \in 1 .. Len(keys)}
NoEdge == "#no edge#"          \* (not a string over any alphabet used here)
Goto(keys, st, c) == IF (st \o c) \in Nodes(keys) THEN st \o c ELSE NoEdge
TypeOf(keys, st) == LET hits == {i \in 1 .. Len(keys) : keys[i] = st} IN IF hits = {} THEN 0 ELSE CHOOSE i \in hits : \A j \in hits : j <= i
\* ac_trie_node_prepare: the longest proper suffix of the node's string that is a path of the trie (the root if none)
Fail(keys, st) == LET cands == {n \in 1 .. (Len(st) - 1) : Sub(st, Len(st) - n + 1, n) \in Nodes(keys)} IN
                  IF cands = {} THEN "" ELSE LET n == CHOOSE x \in cands : \A y \in cands : y <= x IN Sub(st, Len(st) - n + 1, n)
\* ac_trie_search over text[start+1 .. start+len] (0-based offsets in the results, as in the C code)
RECURSIVE Descend(_, _, _), Emits(_, _, _), Scan(_, _, _, _, _)
Descend(keys, st, c) == IF st # "" /\ Goto(keys, st, c) = NoEdge THEN Descend(keys, Fail(keys, st), c) ELSE st
Emits(keys, st, counter) == IF st = "" THEN <<>>
                            ELSE (IF TypeOf(keys, st) # 0 THEN <<[start |-> counter - Len(st), len |-> Len(st), ty |-> TypeOf(keys, st)]>> ELSE <<>>) \o Emits(keys, Fail(keys, st), counter)
Scan(keys, text, counter, stop, st) ==
  IF counter >= stop \/ counter >= Len(text) THEN <<>>
  ELSE LET c == Sub(text, counter + 1, 1)
           s1 == Descend(keys, st, c)
           s2 == IF Goto(keys, s1, c) = NoEdge THEN "" ELSE Goto(keys, s1, c) IN
       Emits(keys, s2, counter + 1) \o Scan(keys, text, counter + 1, stop, s2)
Search(keys, text, start, len) == Scan(keys, text, start, start + len, "")

\* ---- match_set_filter_leftmost_longest, statement by statement --------------------------------------------------------
\* the list is a sequence whose first element is the header (start 0, len 0); m is an index into it (0 = NULL)
Excise(L, i) == SubSeq(L, 1, i - 1) \o SubSeq(L, i + 1, Len(L))
RECURSIVE FLoop(_, _, _), F2(_, _, _), F3(_, _, _), F4(_, _, _)
\* while (m->next && m->next->start > m->start && m->next->start < m->start + m->len) excise(m->next)
F2(L, m, fuel) == IF fuel > 0 /\ m < Len(L) /\ L[m + 1].start > L[m].start /\ L[m + 1].start < L[m].start + L[m].len THEN F2(Excise(L, m + 1), m, fuel - 1) ELSE L
\* while (m->next && m->next->start < m->start) { n = m; m = m->prev; excise(n) }      returns <<L, m>>
F3(L, m, fuel) == IF fuel > 0 /\ m >= 1 /\ m < Len(L) /\ L[m + 1].start < L[m].start THEN F3(Excise(L, m), m - 1, fuel - 1) ELSE <<L, m>>
\* while (m->prev && m->prev->len && m->prev->start >= m->start) excise(m->prev)        returns <<L, m>>
F4(L, m, fuel) == IF fuel > 0 /\ m >= 2 /\ L[m - 1].len # 0 /\ L[m - 1].start >= L[m].start THEN F4(Excise(L, m - 1), m - 1, fuel - 1) ELSE <<L, m>>
FLoop(L, m, fuel) ==
  IF m = 0 \/ m > Len(L) \/ fuel = 0 THEN L
  ELSE IF m < Len(L) /\ L[m].start = L[m + 1].start THEN FLoop(Excise(L, m), m, fuel - 1)            \* "the next match is longer": n = m; m = m->next; excise(n); continue
  ELSE LET a == IF m < Len(L) THEN F2(L, m, fuel) ELSE L
           b == IF m < Len(L) THEN F3(a, m, fuel) ELSE <<a, m>>
           c == IF b[2] >= 1 THEN F4(b[1], b[2], fuel) ELSE b IN
       IF c[2] = 0 THEN c[1]                                                                        \* m became NULL (cannot happen: the header is never excised)
       ELSE FLoop(c[1], c[2] + 1, fuel - 1)
Header == [start |-> 0, len |-> 0, ty |-> 0]
Filter(ms) == IF ms = <<>> THEN <<>> ELSE Tail(FLoop(<<Header>> \o ms, 2, 4 * (Len(ms) + 2) * (Len(ms) + 2)))

\* ---- what the results must be ---------------------------------------------------------------------------------------------
Min(a, b) == IF a < b THEN a ELSE b
Occurrences(keys, text, start, len) ==
  LET lim == Min(start + len, Len(text))
      hits == {p \in (start .. lim) \X (1 .. Len(keys)) : p[1] + Len(keys[p[2]]) <= lim /\ Sub(text, p[1] + 1, Len(keys[p[2]])) = keys[p[2]]} IN
  {[start |-> p[1], len |-> Len(keys[p[2]]), ty |-> TypeOf(keys, keys[p[2]])] : p \in hits}
ToSet(s) == {s[i] : i \in 1 .. Len(s)}
\* leftmost-longest, non-overlapping: repeatedly take the occurrence that starts first (the longest among those), drop what it overlaps
RECURSIVE Greedy(_, _)
Greedy(S, from) == LET C == {o \in S : o.start >= from} IN
                   IF C = {} THEN <<>>
                   ELSE LET o == CHOOSE x \in C : \A y \in C : x.start < y.start \/ (x.start = y.start /\ x.len >= y.len) IN <<o>> \o Greedy(S, o.start + o.len)

\* ---- cases ---------------------------------------------------------------------------------------------------------------------
VARIABLE c       \* [keys, text, start, len]
Pick(S) == IF Sim THEN {RandomElement(S)} ELSE S
RECURSIVE SetToSeq(_)
SetToSeq(S) == IF S = {} THEN <<>> ELSE LET x == CHOOSE y \in S : TRUE IN <<x>> \o SetToSeq(S \ {x})
KeySeqs == {SetToSeq(S) : S \in {X \in SUBSET KeyStrings : Cardinality(X) >= 1 /\ Cardinality(X) <= MaxKeys}}
RandKeys(n) == [i \in 1 .. n |-> RandomElement(KeyStrings)]
Init == IF Sim THEN c = [keys |-> <<RandomElement(KeyStrings)>>, text |-> RandomElement(Texts), start |-> 0, len |-> MaxText]
        ELSE c \in {[keys |-> ks, text |-> t, start |-> s, len |-> MaxText] : ks \in KeySeqs, t \in Texts \ {""}, s \in {0, 1}}
Next == Sim /\ \E n \in {RandomElement(1 .. MaxKeys)} : LET ks == RandKeys(n) IN
            (\A i, j \in 1 .. n : i < j => ks[i] # ks[j]) /\ c' = [keys |-> ks, text |-> RandomElement(Texts), start |-> RandomElement(0 .. 2), len |-> RandomElement(0 .. MaxText)]
\* the key set critic_markup.c registers, over texts made of the delimiter characters
CriticKeys == <<"{++", "++}", "{--", "--}", "{~~", "~>", "~~}", "{==", "==}", "{>>", "<<}">>
InitCritic == c \in {[keys |-> CriticKeys, text |-> t, start |-> 0, len |-> MaxText] : t \in Texts \ {""}}
\* simulation: texts glued from markers and single delimiter characters (longer than the exhaustive bound)
RECURSIVE RandText(_)
Pieces == {CriticKeys[i] : i \in 1 .. Len(CriticKeys)} \cup Alphabet
RandText(n) == IF n = 0 THEN "" ELSE RandomElement(Pieces) \o RandText(n - 1)
InitCriticSim == c = [keys |-> CriticKeys, text |-> RandText(3), start |-> 0, len |-> 40]
NextCriticSim == c' = [keys |-> CriticKeys, text |-> RandText(RandomElement(2 .. 7)), start |-> RandomElement(0 .. 2), len |-> RandomElement({3, 9, 40})]
Res == Search(c.keys, c.text, c.start, c.len)
SearchComplete == ToSet(Res) = Occurrences(c.keys, c.text, c.start, c.len) /\ Len(Res) = Cardinality(ToSet(Res))
\* reported in the order the text is read: by end position, the longer first
SearchOrdered == \A i \in 1 .. (Len(Res) - 1) : Res[i].start + Res[i].len < Res[i + 1].start + Res[i + 1].len \/ (Res[i].start + Res[i].len = Res[i + 1].start + Res[i + 1].len /\ Res[i].len > Res[i + 1].len)
FilterIsLeftmostLongest == Filter(Res) = Greedy(ToSet(Res), 0)
\* what holds of the filter for EVERY key set (it is not leftmost-longest in general: keys "a", "aaa" on "aaaaa" leave aaa@0 and aaa@2, which overlap;
\* TLC counterexample, confirmed on the real function -- recorded in DESIGN.md 11.8; for the CriticMarkup key set FilterIsLeftmostLongest does hold)
FilterSound == LET f == Filter(Res) g == Greedy(ToSet(Res), 0) IN
               /\ ToSet(f) \subseteq ToSet(Res)                                         \* nothing invented
               /\ (Res # <<>> => f # <<>> /\ f[1] = g[1])                              \* the first selected match is the leftmost-longest one
               /\ \A i \in 1 .. (Len(f) - 1) : f[i].start < f[i + 1].start             \* in text order, one match per start position
Emit == PrintT(ToJson([keys |-> c.keys, text |-> c.text, start |-> c.start, len |-> c.len]))
=============================================================================
