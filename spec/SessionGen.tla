----------------------------- MODULE SessionGen -----------------------------
(* Behaviour generator for C05/C06: histories of conversions over a pool of documents and option sets,   *)
(* through fresh-engine entry points of several families and through one reusable engine object.         *)
EXTENDS Session, Json
CONSTANTS Fams, Sim
VARIABLE hist
R(r) == r @@ [fam |-> "-", d |-> 0, o |-> 0]
Pick(S) == IF Sim THEN {RandomElement(S)} ELSE S
InitG == Init /\ hist = <<>>
NextG ==
  /\ steps < MaxSteps
  /\ \E act \in Pick(IF eng.open THEN {"conv", "conv", "settext", "econv", "econv", "efree"} ELSE {"conv", "conv", "enew"}) :
     \/ /\ act = "conv"
        /\ \E d \in Pick(Docs), o \in Pick(Opts), f \in Pick(Fams) :
              ConvertFresh(d, o) /\ hist' = Append(hist, R([a |-> "conv", fam |-> f, d |-> d, o |-> o]))
     \/ /\ act = "enew"
        /\ \E d \in Pick(Docs), o \in Pick(Opts) : EngNew(d, o) /\ hist' = Append(hist, R([a |-> "enew", d |-> d, o |-> o]))
     \/ /\ act = "settext"
        /\ \E d \in Pick(Docs) : EngSetText(d) /\ hist' = Append(hist, R([a |-> "settext", d |-> d]))
     \/ /\ act = "econv" /\ EngConvert /\ hist' = Append(hist, R([a |-> "econv"]))
     \/ /\ act = "efree" /\ EngFree /\ hist' = Append(hist, R([a |-> "efree"]))
Emit == (steps = MaxSteps) => PrintT(ToJson(hist))
=============================================================================
