----------------------------- MODULE MetadataGen -----------------------------
(* Generator + model check for C11: enumerates documents and update histories; checks on the model that the    *)
(* specified operations have the read-back properties (update-then-read, other keys unchanged, no character    *)
(* of a value lost by Clean).                                                                                   *)
EXTENDS Metadata, Json
CONSTANTS MaxEntries, MaxUpd, Sim
VARIABLES doc, meta, upds, phase
vars == <<doc, meta, upds, phase>>
Pick(S) == IF Sim THEN {RandomElement(S)} ELSE S
ListLike == {6}
Docs1 == {[fence |-> f, entries |-> <<[k |-> k, v |-> v]>>, term |-> t, body |-> b] :
            f \in Pick(BOOLEAN), k \in Pick(1 .. Len(Keys)), v \in Pick(1 .. Len(Vals)), t \in Pick(1 .. 4), b \in Pick(1 .. Len(Bodies))}
Init == /\ doc \in {[fence |-> f, entries |-> <<>>, term |-> t, body |-> b] : f \in Pick(BOOLEAN), t \in Pick(1 .. 4), b \in Pick(1 .. Len(Bodies))}
        /\ meta = <<>> /\ upds = <<>> /\ phase = "build"
AddEntry == /\ phase = "build" /\ Len(doc.entries) < MaxEntries
            /\ \E k \in Pick(1 .. Len(Keys)), v \in Pick(1 .. Len(Vals)) :
                  /\ \A i \in 1 .. Len(doc.entries) : doc.entries[i].k # k
                  /\ (Len(doc.entries) = 0 => k \notin ListLike)         \* a first line "1. x: y" is a list item, not metadata
                  /\ doc' = [doc EXCEPT !.entries = Append(@, [k |-> k, v |-> v])]
            /\ UNCHANGED <<meta, upds, phase>>
Seal == /\ phase = "build" /\ Len(doc.entries) >= 1 /\ phase' = "upd" /\ meta' = MetaOf(doc) /\ UNCHANGED <<doc, upds>>
DoUpdate == /\ phase = "upd" /\ Len(upds) < MaxUpd
            /\ \E k \in Pick(1 .. Len(Keys)), u \in Pick(1 .. Len(UVals)) :
                  /\ (UVals[u] = <<>> => meta[1].k # Keys[k].n)     \* a first line "key:" with no value is not metadata by the syntax
                  /\ meta' = Update(meta, k, u) /\ upds' = Append(upds, [k |-> k, u |-> u])
            /\ UNCHANGED <<doc, phase>>
\* a key written twice in the block (the first occurrence is the one that is reported and replaced; both are listed): three shapes, two terminators
DupDocs == {[fence |-> FALSE, entries |-> es, term |-> t, body |-> 2] :
              es \in {<<[k |-> 2, v |-> 1], [k |-> 3, v |-> 2], [k |-> 2, v |-> 3]>>, <<[k |-> 2, v |-> 1], [k |-> 2, v |-> 3], [k |-> 3, v |-> 2]>>, <<[k |-> 3, v |-> 2], [k |-> 2, v |-> 1], [k |-> 2, v |-> 3]>>}, t \in {1, 3}}
InitDup == doc \in DupDocs /\ meta = MetaOf(doc) /\ upds = <<>> /\ phase = "upd"
Next == AddEntry \/ Seal \/ DoUpdate
\* properties of the specified operations
NoCharLost == phase = "upd" => \A i \in 1 .. Len(doc.entries) :
                 LET v == Vals[doc.entries[i].v] a == Flat(v) IN
                 Len(Clean(v)) >= Len(Cat([j \in 1 .. Len(a) |-> IF a[j].w THEN "" ELSE a[j].s]))
UpdateReadsBack == (phase = "upd" /\ upds # <<>>) =>
                 LET u == upds[Len(upds)] IN Lookup(meta, Keys[u.k].n) = Clean(<<UVals[u.u]>>)
OthersUnchanged == phase = "upd" => \A i \in 1 .. Len(doc.entries) :
                 LET nk == Keys[doc.entries[i].k].n IN
                 (\A j \in 1 .. Len(upds) : Keys[upds[j].k].n # nk) => Lookup(meta, nk) = Clean(Vals[doc.entries[i].v])
Emit == (phase = "upd" /\ Len(upds) = MaxUpd) =>
          PrintT(ToJson([doc |-> doc, src |-> Spell(doc),
                         upds |-> [i \in 1 .. Len(upds) |-> [k |-> upds[i].k, u |-> upds[i].u, ks |-> Keys[upds[i].k].s, us |-> LineSrc(UVals[upds[i].u])]],
                         keys |-> [i \in 1 .. Len(Keys) |-> Keys[i].s]]))
=============================================================================
