------------------------------- MODULE TreeInv -------------------------------
(* C15: structural soundness of the token tree handed to API users, evaluated by TLC on dumps of the real    *)
(* tree (after parse, after parse of a sub-range, after each export).  A dump lists the nodes in preorder;   *)
(* node = <<type, start, len, next, prev, child, mate>> with pointer fields as node numbers (0 = NULL,        *)
(* -1 = a pointer to something that is not a node of the tree).  Only what the property states is demanded:   *)
(* finite tree, root spans the source, spans inside the source, siblings doubly linked and in non-decreasing  *)
(* source order, mates symmetric.                                                                             *)
EXTENDS Integers, Sequences, TLC, Json, IOUtils
Tr == ndJsonDeserialize(IOEnv.TRACE)
VARIABLE l
TInit == l = 1
Ty(n) == n[1]  St(n) == n[2]  Ln(n) == n[3]  Nx(n) == n[4]  Pv(n) == n[5]  Ch(n) == n[6]  Mt(n) == n[7]
RootOK(r)    == Len(r.nodes) >= 1 /\ Ty(r.nodes[1]) = 0 /\ St(r.nodes[1]) = r.base /\ Ln(r.nodes[1]) = r.span
FiniteTree(r) == ~r.shared                                             \* no node reachable twice (no cycle, no sharing)
InSource(r)  == \A i \in 1 .. Len(r.nodes) : St(r.nodes[i]) + Ln(r.nodes[i]) <= r.srclen
Linked(r)    == \A i \in 1 .. Len(r.nodes) : LET n == r.nodes[i] IN
                   /\ Nx(n) # -1 /\ Ch(n) # -1
                   /\ (Nx(n) > 0 => Pv(r.nodes[Nx(n)]) = i)            \* next.prev = self
Ordered(r)   == \A i \in 1 .. Len(r.nodes) : LET n == r.nodes[i] IN Nx(n) > 0 => St(r.nodes[Nx(n)]) >= St(n)
Mated(r)     == \A i \in 1 .. Len(r.nodes) : LET n == r.nodes[i] IN Mt(n) # 0 => (Mt(n) > 0 /\ Mt(r.nodes[Mt(n)]) = i)
\* after a metadata update the text has changed: the engine either exposes no tree until the next parse, or one that describes the new text
TreeOK(r) == (r.when = "update" /\ r.nodes = <<>>) \/ (FiniteTree(r) /\ RootOK(r) /\ InSource(r) /\ Linked(r) /\ Ordered(r) /\ Mated(r))
TNext == /\ l <= Len(Tr) /\ l' = l + 1
         /\ LET r == Tr[l] IN IF r.e = "tree" THEN TreeOK(r) ELSE r.e = "reset"
TraceAccepted == TLCGet("stats").diameter = Len(Tr) + 1
=============================================================================
