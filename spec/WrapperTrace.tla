---------------------------- MODULE WrapperTrace ----------------------------
EXTENDS Wrapper, IOUtils
Tr == ndJsonDeserialize(IOEnv.TRACE)
VARIABLES l, oracle
TInit == l = 1 /\ m = <<>> /\ oracle = (<<>> :> "")
BodyKeyOf(r) == <<r.body, r.fmt, r.ext, BodyPart(r.m)>>
TNext == /\ l <= Len(Tr) /\ l' = l + 1 /\ UNCHANGED m
         /\ LET r == Tr[l] IN
            IF r.e = "reset" THEN UNCHANGED oracle
            ELSE IF r.e = "rebody" THEN
                 \* the editor's flow: ONE engine whose text is edited (the block replaced, removed, added) between conversions -- the body it renders for the
                 \* present text is the body a fresh conversion of that text gives; nothing of an earlier block lingers
                 \* (r.fresh: the reference conversion of the same text by a new engine, recorded first)
                 /\ ~r.null
                 /\ (IF BodyKeyOf(r) \in DOMAIN oracle THEN oracle[BodyKeyOf(r)] = r.snip /\ UNCHANGED oracle
                     ELSE r.fresh /\ oracle' = oracle @@ (BodyKeyOf(r) :> r.snip))
            ELSE /\ r.e = "wrap" /\ ~r.null
                 /\ r.occurs >= 1                                                       \* the snippet appears verbatim inside the complete rendering
                 /\ r.full_len > r.snip_len                                             \* ... which adds a header and a footer around it
                 /\ (IF Complete(r.m) THEN r.dflt = r.full ELSE r.dflt = r.snip)        \* without either switch: exactly one of the two, by the rule
                 \* the body depends on the block only through the documented keys
                 /\ (IF BodyKeyOf(r) \in DOMAIN oracle THEN oracle[BodyKeyOf(r)] = r.snip ELSE TRUE)
                 /\ oracle' = IF BodyKeyOf(r) \in DOMAIN oracle THEN oracle ELSE oracle @@ (BodyKeyOf(r) :> r.snip)
TraceAccepted == TLCGet("stats").diameter = Len(Tr) + 1
=============================================================================
