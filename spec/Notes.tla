-------------------------------- MODULE Notes --------------------------------
(* Property C10.  A document, as far as anchors are concerned: a sequence of note events (calls to defined       *)
(* footnotes / citations / glossary terms, inline footnotes, "not cited" citations), a sequence of headings      *)
(* (title shape, style, optional manual label), automatic cross-references to them, an optional table of          *)
(* contents and a captioned table.  The specification gives the numbering (order of first use), which call        *)
(* carries the back-link target, the list entries, and the id every heading gets.                                 *)
EXTENDS Integers, Sequences, FiniteSets, TLC, Json
CONSTANTS MaxEv, MaxHead, Sim

Kinds == {"fn", "cn", "gn"}
Labels == {"a", "b", "c"}
Open(k) == CASE k = "fn" -> "[^" [] k = "cn" -> "[#" [] OTHER -> "[?"
RECURSIVE Cat(_), Rep(_, _)
Cat(ss) == IF ss = <<>> THEN "" ELSE Head(ss) \o Cat(Tail(ss))
Rep(c, n) == IF n = 0 THEN "" ELSE c \o Rep(c, n - 1)
\* headings: title source, the label the documented rule derives (lower case, letters/digits and . _ - : kept), styles
Heads == << [s |-> "Plain Title",        id |-> "plaintitle"],
            [s |-> "With, Punct! (x)",   id |-> "withpunctx"],
            [s |-> "Digits 123 v1.2",    id |-> "digits123v1.2"],
            [s |-> "Caf~E ~Uber",        id |-> "caf~E~Uber"],
            [s |-> "Dash-ed_under:colon", id |-> "dash-ed_under:colon"],
            \* long titles: the label has no length limit (140 one-byte characters; 70 two-byte characters = 140 bytes)
            [s |-> "Long " \o Rep("abcdefghi ", 14), id |-> "long" \o Rep("abcdefghi", 14)],
            [s |-> Rep("~E", 70), id |-> Rep("~E", 70)] >>
Styles == {"atx", "atxc", "setext1", "setext2", "setext1i", "setext2i"}          \* (...i: the title line indented by two / three spaces)
HeadId(h) == IF h.manual THEN "man" \o ToString(h.t) ELSE Heads[h.t].id
HeadSrc(h, lvl) ==
  LET ttl == Heads[h.t].s \o (IF h.manual THEN " [man" \o ToString(h.t) \o "]" ELSE "") IN
  CASE h.style = "atx"     -> Rep("#", lvl) \o " " \o ttl \o "\n\n"
    [] h.style = "atxc"    -> Rep("#", lvl) \o " " \o ttl \o " " \o Rep("#", lvl) \o "\n\n"
    [] h.style = "setext1" -> ttl \o "\n=======\n\n"
    [] h.style = "setext1i" -> "  " \o ttl \o "\n=======\n\n"
    [] h.style = "setext2i" -> "   " \o ttl \o "\n-------\n\n"
    [] OTHER               -> ttl \o "\n-------\n\n"
RefSrc(h) == IF h.manual THEN "[man" \o ToString(h.t) \o "]" ELSE "[" \o Heads[h.t].s \o "][]"
EvSrc(e) == CASE e.a = "call"   -> "x" \o Open(e.k) \o e.l \o "]"
              [] e.a = "loccall" -> "x[p. 3][#" \o e.l \o "]"            \* a citation called with a locator
              [] e.a = "inline" -> "y[^inline note " \o e.l \o "]"
              [] OTHER          -> "[Not cited][#" \o e.l \o "]"
CrossOn(d) == d.cross /\ ~d.nested          \* (one kind of call from inside a list at a time: their order in the output depends on the order of the entries)
Defs(d) == (IF d.nested THEN "[^a]: note a calls z[^c] inside\n\n" ELSE "[^a]: note a\n\n") \o "[^b]: note b\n\n[^c]: note c\n\n[#a]: cite a\n\n[#b]: cite b\n\n[#c]: cite c\n\n" \o (IF d.nested THEN "[?a]: gloss a calls z[?c] inside\n\n" ELSE "[?a]: gloss a\n\n") \o (IF CrossOn(d) THEN "[?b]: gloss b notes z[^b] inside\n\n" ELSE "[?b]: gloss b\n\n") \o "[?c]: gloss c\n\n"
Wrap(d, s) == CASE d.nest = "list" -> "* " \o s \o "\n\n" [] d.nest = "quote" -> "> " \o s \o "\n\n" [] OTHER -> s \o "\n\n"
CapSp(d) == d.capsp /\ d.table           \* the caption's label is written after a space
\* base = 2: the document starts with 'Base Header Level: 2' (ids, numbering and links do not depend on heading levels)
Src(d) == (IF d.base > 0 THEN "Base Header Level: " \o ToString(d.base) \o "\n\n" ELSE "") \o (IF d.toc THEN (IF d.tocr THEN "{{TOC:2-3}}\n\n" ELSE "{{TOC}}\n\n") ELSE "")
          \o Wrap(d, Cat([i \in 1 .. Len(d.ev) |-> EvSrc(d.ev[i]) \o " "]) \o Cat([i \in 1 .. Len(d.heads) |-> IF d.heads[i].ref THEN RefSrc(d.heads[i]) \o " " ELSE ""]) \o (IF d.table THEN (IF CapSp(d) THEN "[tbl] [Cap][] " ELSE "[tbl]") ELSE "") \o "end")
          \o Cat([i \in 1 .. Len(d.heads) |-> HeadSrc(d.heads[i], IF i = 1 THEN 1 ELSE 2) \o "text\n\n"])
          \o (IF d.table THEN "| a |\n|---|\n| b |\n" \o (IF CapSp(d) THEN "[Cap] [tbl]" ELSE "[Cap][tbl]") \o "\n\n" ELSE "")        \* spelled with a space the second bracket is not the table's label: the id comes from the caption
          \o Defs(d)

\* a call inside the text of footnote a happens when that entry is printed, i.e. after all calls of the body
\* (the footnote list is printed before the glossary list; a term first met inside another term's definition joins the end of the list being printed)
UsesA(d, k) == \E i \in 1 .. Len(d.ev) : d.ev[i].a = "call" /\ d.ev[i].k = k /\ d.ev[i].l = "a"
\* cross: the definition of glossary term b calls footnote b -- that call happens while the glossary list is printed, i.e. after the footnote list
UsesL(d, k, l) == \E i \in 1 .. Len(d.ev) : d.ev[i].a = "call" /\ d.ev[i].k = k /\ d.ev[i].l = l
CrossCall(d) == CrossOn(d) /\ UsesL(d, "gn", "b")
AllEv(d) == d.ev \o (IF d.nested /\ UsesA(d, "fn") THEN <<[a |-> "call", k |-> "fn", l |-> "c"]>> ELSE <<>>) \o (IF d.nested /\ UsesA(d, "gn") THEN <<[a |-> "call", k |-> "gn", l |-> "c"]>> ELSE <<>>) \o (IF CrossCall(d) THEN <<[a |-> "call", k |-> "fn", l |-> "b"]>> ELSE <<>>)
D2(d) == [d EXCEPT !.ev = AllEv(d)]
\* ---- numbering: order of first use, per kind -----------------------------------------------------------------------
KindOf(e) == IF e.a = "inline" THEN "fn" ELSE IF e.a = "notcited" THEN "cn" ELSE e.k
\* identity of the note an event uses: inline notes are new notes
NoteId(d, i) == IF d.ev[i].a = "inline" THEN <<"inline", i>> ELSE <<"def", d.ev[i].l>>
FirstUse(d, i) == \A j \in 1 .. (i - 1) : ~(KindOf(d.ev[j]) = KindOf(d.ev[i]) /\ NoteId(d, j) = NoteId(d, i))
Number(d, i) == Cardinality({j \in 1 .. i : KindOf(d.ev[j]) = KindOf(d.ev[i]) /\ FirstUse(d, j) /\ j <= (CHOOSE m \in 1 .. i : KindOf(d.ev[m]) = KindOf(d.ev[i]) /\ NoteId(d, m) = NoteId(d, i) /\ FirstUse(d, m))})
\* calls in document order: <<kind, number, carries the back-link target>> ("not cited" adds an entry but no call)
Calls(d) == LET idx == {i \in 1 .. Len(d.ev) : d.ev[i].a # "notcited"} IN
            [n \in 1 .. Cardinality(idx) |-> LET i == CHOOSE x \in idx : Cardinality({y \in idx : y < x}) = n - 1 IN <<KindOf(d.ev[i]), Number(d, i), FirstUse(d, i)>>]
Count(d, k) == Cardinality({i \in 1 .. Len(d.ev) : KindOf(d.ev[i]) = k /\ FirstUse(d, i)})
\* list entries of kind k: 1..n in order; back-link to the first call, none for entries that were only "not cited"
HasCall(d, k, n) == \E i \in 1 .. Len(d.ev) : KindOf(d.ev[i]) = k /\ Number(d, i) = n /\ d.ev[i].a # "notcited"
Entries(d, k) == [n \in 1 .. Count(d, k) |-> <<n, HasCall(d, k, n)>>]
HeadIds(d) == [i \in 1 .. Len(d.heads) |-> HeadId(d.heads[i])]
\* a level-restricted TOC ({{TOC:2-3}}) lists the headings of those levels only; the first heading is level 1, the others level 2
LevelOf(d, i) == CASE d.heads[i].style \in {"setext1", "setext1i"} -> 1 [] d.heads[i].style \in {"setext2", "setext2i"} -> 2 [] OTHER -> (IF i = 1 THEN 1 ELSE 2)
TocIdx(d) == IF d.tocr THEN {i \in 1 .. Len(d.heads) : LevelOf(d, i) \in 2 .. 3} ELSE 1 .. Len(d.heads)
TocOf(d, ids) == [n \in 1 .. Cardinality(TocIdx(d)) |-> ids[CHOOSE x \in TocIdx(d) : Cardinality({y \in TocIdx(d) : y < x}) = n - 1]]
TableId(d) == IF CapSp(d) THEN "cap" ELSE "tbl"
Xrefs(d) == LET idx == {i \in 1 .. Len(d.heads) : d.heads[i].ref} IN
            [n \in 1 .. Cardinality(idx) |-> HeadId(d.heads[CHOOSE x \in idx : Cardinality({y \in idx : y < x}) = n - 1])] \o (IF d.table THEN <<TableId(d)>> ELSE <<>>)

\* ---- generation -----------------------------------------------------------------------------------------------------
VARIABLE doc
Pick(S) == IF Sim THEN {RandomElement(S)} ELSE S
Events == {[a |-> "call", k |-> k, l |-> l] : k \in Kinds, l \in Labels} \cup {[a |-> "loccall", k |-> "cn", l |-> l] : l \in {"b"}} \cup {[a |-> "inline", k |-> "fn", l |-> l] : l \in {"a", "b"}} \cup {[a |-> "notcited", k |-> "cn", l |-> l] : l \in Labels}
Init == doc \in {[ev |-> <<>>, heads |-> <<>>, toc |-> t, tocr |-> tr, table |-> tb, nest |-> n, nested |-> ns, base |-> b, capsp |-> cs, cross |-> cr] :
                    t \in Pick(BOOLEAN), tr \in Pick(BOOLEAN), tb \in Pick(BOOLEAN), n \in Pick({"plain", "list", "quote"}), ns \in (IF MaxEv = 0 THEN {FALSE} ELSE Pick(BOOLEAN)), b \in Pick({0, 2}), cs \in Pick(BOOLEAN), cr \in (IF MaxEv = 0 THEN {FALSE} ELSE Pick(BOOLEAN))}          \* (calls from inside definitions need calls: not varied in the headings-only family)
        /\ (doc.base > 0 => ~doc.tocr)            \* which levels a restricted TOC means under a shifted base level is not prescribed
AddEv == Len(doc.ev) < MaxEv /\ doc.heads = <<>> /\ \E e \in Pick(Events) :
            /\ (e.a = "inline" => \A i \in 1 .. Len(doc.ev) : ~(doc.ev[i].a = "inline" /\ doc.ev[i].l = e.l))        \* inline note texts are distinct
            /\ (e.a = "notcited" => \A i \in 1 .. Len(doc.ev) : ~(doc.ev[i].k = "cn" /\ doc.ev[i].l = e.l))           \* a key is either cited or listed as not cited
            /\ (e.a \in {"call", "loccall"} /\ e.k = "cn" => \A i \in 1 .. Len(doc.ev) : ~(doc.ev[i].a = "notcited" /\ doc.ev[i].l = e.l))
            /\ doc' = [doc EXCEPT !.ev = Append(@, e)]
AddHead == Len(doc.heads) < MaxHead /\ \E t \in Pick(1 .. Len(Heads)), s \in Pick(Styles), m \in Pick(BOOLEAN), r \in Pick(BOOLEAN) :
            /\ \A i \in 1 .. Len(doc.heads) : doc.heads[i].t # t                                                      \* distinct titles (duplicates: separate family)
            /\ doc' = [doc EXCEPT !.heads = Append(@, [t |-> t, style |-> s, manual |-> m, ref |-> r])]
Next == AddEv \/ AddHead
NumberingOK == \A k \in Kinds : \A n \in 1 .. Count(doc, k) : \E i \in 1 .. Len(doc.ev) : KindOf(doc.ev[i]) = k /\ Number(doc, i) = n
Emit == (Len(doc.ev) + Len(doc.heads) >= 1) => PrintT(ToJson([doc |-> doc, src |-> Src(doc)]))
=============================================================================
