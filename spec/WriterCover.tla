----------------------------- MODULE WriterCover -----------------------------
(* C02, writer half, static part.  WriterCases (generated from the `case` labels of each writer's token       *)
(* dispatch in the tree under test) must be mutually consistent: a token kind that two of the three           *)
(* full writers (HTML, LaTeX, OpenDocument) dispatch on can be handed to the third one as well -- the          *)
(* parser, not the output format, decides which kinds exist -- so the third must have a case for it unless     *)
(* it is exempted here with the reason why it cannot arrive.  Beamer/Memoir delegate to LaTeX, OPML/ITMZ        *)
(* export source spans and dispatch only on block kinds.                                                        *)
EXTENDS WriterCases, FiniteSets, TLC
Full == {"html", "latex", "odf"}
Exempt == [ html  |-> {},
            \* definition blocks are re-typed / unlinked by process_definition_stack before export; only HTML lists them (harmlessly)
            latex |-> {"BLOCK_DEF_CITATION", "BLOCK_DEF_FOOTNOTE", "BLOCK_DEF_GLOSSARY"},
            \* the ODF writer consumes CODE_FENCE inside its BLOCK_CODE_FENCED case
            odf   |-> {"BLOCK_DEF_CITATION", "BLOCK_DEF_FOOTNOTE", "BLOCK_DEF_GLOSSARY", "CODE_FENCE"} ]
Missing(w) == {k \in TokenKinds : Cardinality({v \in Full : k \in Handled[v]}) >= 2 /\ k \notin Handled[w] /\ k \notin Exempt[w]}
VARIABLE x
Init == x = 0
Next == x' = x
Consistent == \A w \in Full : Missing(w) = {}
LabelsAreKinds == \A w \in DOMAIN Handled : Handled[w] \subseteq TokenKinds
\* the published numeric kinds keep the meaning the library's tables assume (also used by C15)
EnumOK == /\ KindValue["DOC_START_TOKEN"] = 0
          /\ \A i \in 1..5 : KindValue["BLOCK_H" \o ToString(i + 1)] = KindValue["BLOCK_H1"] + i
Report == PrintT(<<"missing", [w \in Full |-> Missing(w)]>>)
=============================================================================
