CONSTANTS Alphabet = {"a", "b"}
          MaxKeyLen = 3
          MaxKeys = 11
          MaxText = 8
          Sim = FALSE
INIT TInit
NEXT TNext
POSTCONDITION TraceAccepted
CHECK_DEADLOCK FALSE
