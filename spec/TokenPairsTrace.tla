--------------------------- MODULE TokenPairsTrace ---------------------------
(* Replay of TokenPairs chains through the real token_pairs_match_pairs_inside_token(): the matching the code produced (mate of every      *)
(* token, nesting depth after pruning, the containers it grafted) must be the one the transcription computes; the harness's pairing    *)
(* table must be the model's; the shared stack must be handed back at the size it was received.                                         *)
EXTENDS TokenPairs, IOUtils
Tr == ndJsonDeserialize(IOEnv.TRACE)
VARIABLE k
TInit == k = 1 /\ toks = <<>> /\ p = 1 /\ st = <<>> /\ cnt = ZeroCnt /\ mate = <<>> /\ conts = {}
ToSet(s) == {s[i] : i \in 1 .. Len(s)}
TNext == /\ k <= Len(Tr) /\ k' = k + 1 /\ UNCHANGED vars
         /\ LET r == Tr[k] IN
            IF r.e = "reset" THEN TRUE
            ELSE /\ r.e = "pairs"
                 /\ r.table = Table
                 /\ LET m == Run(r.toks) IN
                    /\ r.stack = 0
                    /\ r.mate = m.mate
                    /\ r.depth = [i \in 1 .. Len(r.toks) |-> Depth(r.toks, m, i)]
                    /\ ToSet(r.conts) = m.conts
TraceAccepted == TLCGet("stats").diameter = Len(Tr) + 1
=============================================================================
