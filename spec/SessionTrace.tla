---------------------------- MODULE SessionTrace ----------------------------
(* Trace validation for the Session specification (C05, C06 and the relations of C09/C20).               *)
(* A recorded conversion is <<family, key, digest>>.  The spec has no variable through which an earlier  *)
(* action could influence a later result: a key's digest is fixed at first use (reference executions     *)
(* in fresh processes come first in the trace) and every later conversion with that key -- whatever the  *)
(* family, the history, the engine reuse -- must reproduce it.                                           *)
EXTENDS Integers, Sequences, TLC, Json, IOUtils
Tr == ndJsonDeserialize(IOEnv.TRACE)
VARIABLES oracle,    \* function: key -> digest (domain grows)
          engDoc,    \* document currently loaded in the reusable engine ("" = no engine)
          l
tvars == <<oracle, engDoc, l>>
TInit == oracle = ("" :> "") /\ engDoc = "" /\ l = 1
Known(k) == k \in DOMAIN oracle
ConvOK(r) ==
  /\ ~r.null                                      \* documented to return / write a result, and did
  /\ (r.needfile => r.wrote)
  /\ (r.srcsame \/ r.inplace)                     \* the caller's source is untouched
  /\ (IF r.det /\ Known(r.key) THEN oracle[r.key] = r.digest ELSE TRUE)
  /\ (r.fam \in {"e_reuse", "e_export", "e_reuse_data"} => r.src = engDoc)
TNext ==
  /\ l <= Len(Tr)
  /\ LET r == Tr[l] IN
     CASE r.e = "conv" ->
            /\ ConvOK(r)
            /\ oracle' = IF r.det /\ ~Known(r.key) THEN oracle @@ (r.key :> r.digest) ELSE oracle
            /\ UNCHANGED engDoc
       [] r.e = "eng" ->
            /\ engDoc' = IF r.op \in {"new", "settext"} THEN r.src ELSE IF r.op = "free" THEN "" ELSE engDoc
            /\ (r.op \in {"settext", "parse", "free"} => engDoc # "")
            /\ UNCHANGED oracle
       [] r.e = "reset" -> engDoc' = "" /\ UNCHANGED oracle       \* a new process must agree with the old ones too
       [] OTHER -> FALSE
  /\ l' = l + 1
TraceAccepted == TLCGet("stats").diameter = Len(Tr) + 1
=============================================================================
