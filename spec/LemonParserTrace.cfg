INIT TInit
NEXT TNext
INVARIANT TraceNeverRejects
POSTCONDITION TraceAccepted
CHECK_DEADLOCK FALSE
